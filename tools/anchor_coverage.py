"""Gap finder: which lines of a property's anchor files does its check never execute?
usage: PYTHONHASHSEED=0 /venv/bin/python tools/anchor_coverage.py <PROP> [runs per family] [extra file ...]
Runs the first n scenarios of every family of the property in-process under sys.settrace and reports, per anchor file
(properties.jsonl: anchors.files), the executable lines that were never reached, grouped by enclosing def/class."""
import ast
import json
import os
import sys
sys.path.insert(0, os.path.dirname(os.path.dirname(os.path.abspath(__file__))))
from dsim import boot, prng  # noqa
boot.boot()
from dsim import runner  # noqa


def executable_lines(path):
    src = open(path).read()
    tree = ast.parse(src)
    lines = {}
    scopes = []

    def visit(node, scope):
        for ch in ast.iter_child_nodes(node):
            sc = scope
            if isinstance(ch, (ast.FunctionDef, ast.ClassDef, ast.AsyncFunctionDef)):
                sc = (scope + "." if scope else "") + ch.name
            if isinstance(ch, ast.stmt) and not isinstance(ch, (ast.FunctionDef, ast.ClassDef, ast.Import, ast.ImportFrom)):
                if not (isinstance(ch, ast.Expr) and isinstance(getattr(ch, "value", None), ast.Constant)):
                    lines[ch.lineno] = scope
            visit(ch, sc)
    visit(tree, "")
    return lines


def main():
    prop = sys.argv[1]
    n = int(sys.argv[2]) if len(sys.argv) > 2 else 20
    files = []
    for l in open(os.path.join(boot.VERIF, "properties.jsonl")):
        d = json.loads(l)
        if d["id"] == prop:
            files = list(d["anchors"]["files"])
    files += sys.argv[3:]
    paths = {os.path.realpath(os.path.join(boot.REPO, f)): f for f in files if os.path.exists(os.path.join(boot.REPO, f))}
    hit = {p: set() for p in paths}

    cache = {}

    def tracer(frame, event, arg):
        p = frame.f_code.co_filename
        s = cache.get(p, 0)
        if s == 0:
            s = cache[p] = hit.get(p) if p in hit else hit.get(os.path.realpath(p))
        if s is None:
            return None

        def local(frame, event, arg):
            if event == "line":
                s.add(frame.f_lineno)
            return local
        s.add(frame.f_lineno)
        return local
    mod = runner.load(prop)
    sys.settrace(tracer)
    try:
        for fam, cnt in mod.plan("quick"):
            for i in range(min(n, cnt)):
                rng = prng.stream(0, prop, fam, i)
                scn = mod.generate_indexed(fam, i, rng, "quick") if hasattr(mod, "generate_indexed") else mod.generate(fam, rng, "quick")
                scn.setdefault("family", fam)
                try:
                    mod.run(scn)
                except Exception as e:      # noqa
                    pass
    finally:
        sys.settrace(None)
    for p, rel in sorted(paths.items(), key=lambda x: x[1]):
        ex = executable_lines(p)
        miss = sorted(l for l in ex if l not in hit[p])
        print("%s: %d of %d statements reached" % (rel, len(ex) - len(miss), len(ex)))
        by = {}
        for l in miss:
            by.setdefault(ex[l] or "<module>", []).append(l)
        for sc, ls in sorted(by.items(), key=lambda x: x[1][0]):
            print("    %-55s %s" % (sc[:55], ",".join(map(str, ls[:18])) + (" ..." if len(ls) > 18 else "")))


if __name__ == "__main__":
    main()
