"""Regenerates the two generated tables of DESIGN.md (findings adjudication, seeded changes) between their markers
from findings/known_findings.json and seeded/*/meta.json: python3 tools/gen_design_tables.py"""
import glob, json, os, re
HERE = os.path.dirname(os.path.dirname(os.path.abspath(__file__)))


def findings_table():
    d = json.load(open(os.path.join(HERE, "findings", "known_findings.json")))
    rows = []
    for e in sorted(d["findings"], key=lambda e: (e["property"], e["id"])):
        what = e["what"]
        if what.startswith("fixed: property="):
            what = what.split(" ", 3)[3]
        elif what.startswith(e["id"] + ": "):
            what = what[len(e["id"]) + 2:]
        disp = ("fixed in /repo `%s`" % e["commit"]) if e["status"] == "fixed" else "listed (known)"
        rows.append("| %s | %s | %s |" % (e["id"], disp, what.replace("|", "/")))
    return "| id | disposition | what fails |\n|---|---|---|\n" + "\n".join(rows)


def seeded_table():
    rows = []
    for f in sorted(glob.glob(os.path.join(HERE, "seeded", "*", "meta.json"))):
        m = json.load(open(f))
        rows.append("| %s | %s | %s | %s |" % (m["id"], m["breaks_property"], m["needs_to_manifest"].replace("|", "/"), m["caught_by"].replace("|", "/")))
    return "| id | property | needs, to manifest | caught by |\n|---|---|---|---|\n" + "\n".join(rows)


def main():
    p = os.path.join(HERE, "DESIGN.md")
    s = open(p).read()
    for name, table in (("FINDINGS", findings_table()), ("SEEDED", seeded_table())):
        a, b = "<!-- %s-TABLE-BEGIN -->" % name, "<!-- %s-TABLE-END -->" % name
        assert a in s and b in s, name
        s = s[:s.index(a) + len(a)] + "\n" + table + "\n" + s[s.index(b):]
    open(p, "w").write(s)
    print("tables regenerated")


if __name__ == "__main__":
    main()
