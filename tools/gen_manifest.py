"""Writes /verif/MANIFEST.json from the table below and validates it against the schema."""
import json, os, sys
HERE = os.path.dirname(os.path.dirname(os.path.abspath(__file__)))

CHECKS = {
 "C01": dict(cat="translation_validation", ref="DESIGN.md 5.C01",
   text="Differential execution of the two semantics on the same design and the same literal stimulus: the real convert() "
        "output (text + $readmemh data files) is executed by /verif's own IEEE-1364 subset interpreter (dsim/vsim: LRM sizing/"
        "signedness rules, stratified scheduler with seeded order of simultaneously active processes, NBA regions, memories) "
        "and compared tick by tick, before every edge, with the real litex.gen.sim run of a second instance: every port, "
        "register, comb target, memory read port and memory word, from time zero. Programs: grammar-generated fragments in the "
        "sub-language where unbounded and context-width arithmetic agree by construction ('frag'), unrestricted fragments "
        "guarded by a simulator-side monitor that ends a run where the two semantics legitimately part ('wild'), narrow comb "
        "fragments swept over ALL inputs ('exh'), memories with every port mode/granularity/async/re/init in 1-2 clock domains "
        "('mem'), designs of different kinds converted and simulated one after the other in one process ('mixed'), and 42 real LiteX designs (41 cores or small compositions and a whole CPU-less SoCMini) at seeded parameterisations under random stimulus ('corpus'); seeded clock-edge "
        "interleavings, reset pulses, process orders. Translation validation per program and input sequence, not a proof of "
        "the printer.",
   note="Trusted base: dsim/vsim.py (ours) and dsim/taint.py (the monitor deciding which runs are outside the agreeing "
        "sub-language; conservative). Values the text leaves undefined (no initialiser, uninitialised memory) are never "
        "compared. Time zero uses the 'settle' policy and NBA glitches do not re-trigger processes (Verilator/synthesis "
        "reading); the strict readings are listed findings C01-F6/F7. Other listed findings: C01-F5, F8, F9, F11, F12.",
   tech="translation validation by deterministic co-simulation (real simulator vs own Verilog interpreter) with seeded process "
        "order, clock-edge interleaving and reset-pulse injection"),
 "C02": dict(cat="exploration", ref="DESIGN.md 5.C02",
   text="Seeded signal sets (explicit hierarchical back-traces, related chains, overrides colliding with generated and with "
        "suffixed names, reserved words) named by the real build_signal_namespace/SignalNamespace under seeded request orders "
        "with repeats: after every request the signal->name map must be injective and stable, names legal and not reserved "
        "(harness's own keyword list); batches of small designs converted by the real convert() in three fresh interpreters "
        "with different PYTHONHASHSEED: declarations unique/legal/not reserved, texts identical apart from the date line; a "
        "'clash' family concentrates names around one base name and its numbered forms (x, x, x_1, x_2, x_1_1), a "
        "'convert_off' family converts the same designs after different amounts of unrelated prior allocation (DUID offsets and "
        "shifted tracer indices) in the region where the clean tree is reproducible (equal names through identical back-traces, "
        "sibling instances numbered by rank, slice proxies); signals and instances carry synthesis attributes.",
   note="Caveat (DESIGN.md 5.C02): the schedule is the request order and the interpreter hash order; there is no clock and no "
        "fault dimension. Known finding C02-F3: equal names reached through different paths are numbered in set-iteration "
        "(DUID value) order.",
   tech="seeded search over name-request orders and interpreter hash seeds against the real namer (deterministic, no faults)"),
 "C03": dict(cat="exploration", ref="DESIGN.md 5.C03",
   text="Seeded search over valid/ready schedules, token sequences and parameters of every stream element and of 2-3 element "
        "compositions, run on the real LiteX simulator; recorded source handshakes are compared with a reference function "
        "of the recorded sink handshakes (exactly-once, order, transformation, first/last/params). Sampling, not proof.",
   note="Trusted: the harness agents/reference functions in /verif/props/streams.py, litex.gen.sim as executor. Assumes legal "
        "producers and registered partners.",
   tech="deterministic simulation, seeded valid/ready schedule search, reference-model history check"),
 "C04": dict(cat="exploration", ref="DESIGN.md 5.C04",
   text="Same simulations as C03/C16 with an online monitor (valid & ~ready => token frozen) on every source and bounded "
        "progress in a cooperative (possibly slow) tail reached from many random prefixes. Liveness is bounded, states "
        "are sampled.",
   note="Progress bound is generous and stated in the evidence; deadlock beyond sampled states is not excluded.",
   tech="deterministic simulation, online handshake-stability invariant, bounded liveness after schedule faults stop"),
 "C05": dict(cat="exploration", ref="DESIGN.md 5.C05",
   text="Real AsyncFIFO / ClockDomainCrossing (all variants, common reset with reset pulses) / BusSynchronizer between two "
        "clock domains whose rising edges follow a seeded literal tick schedule (ratio classes 1:8..8:1, jitter, drift, "
        "bursts, adversarial orders, coincident edges), with every MultiReg lowered through a wrapper whose first flop "
        "resolves per bit old/new when its input changes next to the sampling edge; oracles: exactly-once in-order "
        "delivery (per reset epoch under reset pulses), BusSynchronizer output only ever a word its input held, in order, "
        "and settled after the input is stable. Sampling of schedules and resolutions, not proof.",
   note="Metastability model: per-bit old/new, clean one cycle later; 'source just after destination' covered through the "
        "opposite order; AXILiteClockDomainCrossing is run with the AXI-Lite agents and the byte-memory oracle of C09 (family "
        "AXILiteCDC); UART(phy_cd != sys) is run with software strobes in sys and the stream side in its own domain (family "
        "UART); UARTBone(cd != sys) is run with a host party in the PHY domain sending whole commands back to back and a Wishbone "
        "memory in sys (family UARTBone: commanded accesses and answer bytes exactly once, in order); the Gray-counter crossing of "
        "litex.soc.cores.freqmeter.FreqMeter is family FreqMeter (measurements between two latches add up to the real number of clock "
        "events up to the synchroniser's latency); stream.Monitor uses the same "
        "MultiReg primitives and is not run separately.",
   tech="deterministic simulation, seeded clock-edge interleaving + per-bit synchroniser-resolution fault injection + reset pulses"),
 "C06": dict(cat="exploration", ref="DESIGN.md 5.C06",
   text="Real Wishbone Arbiter/Decoder/InterconnectShared/Crossbar/PointToPoint (1-3 x 1-3, registered or combinational "
        "decode, windows from the real SoCRegion.decoder, holes) driven by seeded classic-cycle masters (back-to-back, cyc "
        "held or dropped, simultaneous starts, withdrawn requests to unmapped addresses) against memory slaves with literal "
        "latencies/err answers; per-cycle routing, attribution, ownership and termination invariants plus a reference-memory "
        "history oracle, write-landing and fairness checks. Sampling, not proof.",
   note="Agent slaves have latency >= 1; zero-latency answers come from a harness FHDL slave with combinational decode only. "
        "Timeouts are C11.",
   tech="deterministic simulation, seeded request/latency schedule search, per-cycle routing invariants + reference-memory history"),
 "C07": dict(cat="exploration", ref="DESIGN.md 5.C07",
   text="Real Wishbone Down/Up/Converter, Cache, Remapper, Wishbone2CSR+CSR SRAM, SRAM (classic and registered-feedback "
        "bursts, read-only, init, narrow memory) and chains of two, driven by a seeded master history (arbitrary byte "
        "selects, bursts, gaps) over a memory agent with literal latencies or, in a third of the runs, over a zero-wait-state memory built from real "
        "logic (combinational ack in the cycle of the request, literal wait cycles); reads compared lane by lane with a reference "
        "byte memory over translated store addresses, backing store compared after a flush, stray writes and slave-side "
        "request stability checked. Sampling, not proof.",
   note="Known findings C07-F1 (cache without valid bits) and C07-F2 (SRAM wrap burst longer than its modulus) are excluded "
        "by region and replayed; CSR bridge accessed with whole words only.",
   tech="deterministic simulation, seeded transaction-history and latency search, reference byte-memory (linearizable single master)"),
 "C08": dict(cat="exploration", ref="DESIGN.md 5.C08",
   text="Real AXI-Lite Arbiter/Decoder/InterconnectShared/Crossbar/PointToPoint (1-3 x 1-3) between masters with five "
        "independent channel drivers (AW/W gaps, up to 4 outstanding, concurrent reads and writes, B/R back-pressure) and "
        "slaves with independent acceptors, literal ready patterns, latencies and queue depths; every handshake is logged "
        "with its cycle: each master-side AW/W/AR handshake must appear as exactly one slave-side handshake in the same "
        "cycle at the decoded slave, each B/R must reach the owner of the oldest outstanding request, read data in issue "
        "order, no foreign request accepted while responses are outstanding, reads independent of a blocked W channel, "
        "all masters served. Sampling, not proof.",
   note="Known findings C08-F1 (second request to another slave while locked) and C08-F2 (W before AW) are excluded by "
        "region and replayed canonically. Masters of different address widths on one interconnect are generated (windows above the "
        "narrow masters' range). The AXI4-full twins (AXIArbiter/Decoder/InterconnectShared/Crossbar with bursts and IDs) are family "
        "'axi' (props/c08_axi.py).",
   tech="deterministic simulation, seeded five-channel schedule search, same-cycle handshake correlation + ordering history"),
 "C10": dict(cat="fault_enumeration", ref="DESIGN.md 5.C10",
   text="Real AXIBurst2Beat: thorough enumerates every legal burst of a boundary-biased grid (23 address offsets x 22 lengths x "
        "4 sizes x 3 types) under four literal stall patterns, quick a fixed 1/10 stride, plus seeded bursts with reduced "
        "capability sets and idle garbage; beat addresses at transfer-size granularity must equal the AMBA equations with "
        "len+1 beats, first/last, id, request consumed with the last beat. Real AXIUp/Down/Converter (ratios 2/4/8) between "
        "an AXI burst master and a reference AXI memory slave: byte memory, all R beats with last on the final one, legal "
        "bursts on the narrow side, stable channels. Family 'axsize': a burst whose AxSIZE comes from the repository's own table "
        "axi_common.AXSIZE[bytes] must advance by that many bytes per beat (genuine defect C10-F1, repaired).",
   note="Converters are driven with what they support (full-width INCR, see assumptions in the evidence). The reference "
        "address expansion is harness code written from the AMBA specification.",
   tech="deterministic simulation, enumerated bursts x stall schedules, AMBA reference expansion, byte-memory oracle"),
 "C11": dict(cat="fault_enumeration", ref="DESIGN.md 5.C11",
   text="Fault-centric: real wishbone.Timeout / InterconnectShared(timeout), AXILiteTimeout / AXILiteInterconnectShared("
        "timeout) and AXITimeout / AXIInterconnectShared(timeout) (AXI4 full, single-beat transfers) with timeouts 1..16; a slave goes silent at a literal cycle (sweep families enumerate EVERY cycle of a short "
        "scenario for several t), unmapped addresses, answers in the very expiry cycle; forced terminations must carry the "
        "error value, come not before t and within a bound, emit one error pulse, leave in-time answers intact (reference "
        "data) and every master must finish afterwards. WaitTimer checked cycle-exactly. Enumeration of fault instants on "
        "fixed scenarios, sampling elsewhere.",
   note="Known findings: crossbars ignore timeout_cycles (C11-F1/F1b/F1c), W before AW under a timeout (C11-F3), accepted-but-unanswered AXI requests never time out "
        "(C11-F2). Slaves answering later than the timeout are outside the property's fault model (only the expiry cycle).",
   tech="deterministic simulation with slave-silence fault injection enumerated over every cycle, bounded-termination oracle"),
 "C12": dict(cat="exploration", ref="DESIGN.md 5.C12",
   text="Real CSRBankArray/CSRBank/Interconnect over 1-3 banks of seeded register sets (CSR, CSRStatus, CSRStorage with "
        "atomic/device-writable/reset_less, fields with offsets/pulse/reset, sizes 1..70, fixed and automatic locations), "
        "bus width 8/16/32, big/little ordering, paging; software issues a literal access list (mapped, unmapped, other "
        "banks/pages) while a device agent updates status/CSR.w and races device writes against bus writes in the same "
        "cycle; a register-file model is stepped on the recorded inputs and every observable is compared every cycle. "
        "Family 'mem': memories mapped into the CSR space (csr_bus.SRAM as CSRBankArray.scan() builds it; wider, equal or "
        "narrower than the bus, read-only, initialised) next to a register bank: word writes whose sub-word accesses are "
        "interleaved with accesses to other pages, read data compared every cycle, every word read back. Sampling, not proof.",
   note="Known finding C12-F1 (atomic + little ordering) excluded by region; bus-write-wins priority in a same-cycle race is "
        "an interpretation of the statement (stated in the evidence).",
   tech="deterministic simulation, seeded access/device-update interleaving incl. same-cycle races, per-cycle refinement against a register-file model"),
 "C13": dict(cat="exploration", ref="DESIGN.md 5.C13",
   text="Seeded request histories (the ORDER of requests from several clients is the schedule; there is no clock and no fault "
        "here) against the real SoCBusHandler (fixed/automatic/IO/linker/cached/uncached regions, 32/64-bit), SoCCSRHandler / "
        "SoCIRQHandler (fixed, automatic, reused names, boundary numbers), ConstraintManager (request/lookup/extension) and the "
        "constant / configuration names of a real SoC (spellings of one published name, duplicate check on and off); "
        "after every accepted call: decoded windows pairwise disjoint, automatic regions aligned / inside the address space / "
        "inside an IO region when uncached, locations unique and in range and never moved, platform resources matched at most "
        "once; at the end every region's real decoder is evaluated with the real simulator Evaluator at window boundaries +-1 and "
        "seeded addresses (exact window, no address selecting two slaves). A rejected request ends the history.",
   note="Caveat (DESIGN.md 5.C13): no time axis and no fault kinds; decoders sampled at boundaries; the simulated interconnect "
        "part is covered by C14's bus accesses to the finalized SoC.",
   tech="seeded search over request-order histories of shared allocators (deterministic, no faults), invariant check after every call"),
 "C14": dict(cat="exploration", ref="DESIGN.md 5.C14",
   text="One real SoCMini build per run from a seeded configuration (bus standard wishbone/axi-lite/axi, shared/crossbar, CSR "
        "paging, 1-3 peripherals with seeded register sets, fixed CSR locations, RAM regions, ROM image through get_mem_data "
        "with either endianness, constants); csr.h/mem.h/soc.h/csr.json/csr.csv/csr.svd written by the real Builder, read back "
        "and cross-checked; a Wishbone master (through the real add_adapter chain) performs, for every register, the access "
        "sequence parsed from the GENERATED accessor: exactly the addressed storage must take the unique value, every status "
        "must read back its driven value; memory regions written/read at first/last word; ROM read back byte by byte; with a CPU "
        "stub that has an interrupt vector, every peripheral interrupt (automatic and fixed numbers) is enabled through its "
        "generated accessor and raised alone: exactly the published bit of the vector must rise.",
   note="Configuration swarm without fault kinds (stated). Known findings C14-F1 (8-bit CSR bus addresses) and C14-F2 (little "
        "ordering accessors) excluded by region. The CPU is CPUNone plus an interrupt signal (no real CPU package is installed).",
   tech="deterministic simulation of whole generated SoCs over a configuration swarm, accessor-driven bus accesses, export cross-check"),
 "C15": dict(cat="fault_enumeration", ref="DESIGN.md 5.C15",
   text="Real EventManager (1-17 sources: pulse, process rising/falling, level) behind a real CSRBank (8/32-bit) and SharedIRQ "
        "over 2-11 managers; literal trigger waveforms and software accesses (writes to unmapped offsets of the page included); a per-source model (set wins over clear, level "
        "mirrors, status raw) is stepped every cycle, irq == OR(pending & enable) and SharedIRQ == OR(irqs) checked every "
        "cycle, every clear pulse must be explained by a written one on that very bit and vice versa. The sweep family "
        "enumerates the offset of a second trigger from -4 to +5 cycles around the clear for every source kind and bus "
        "width; the rest is seeded sampling.",
   note="Software writes whole registers (all words, address order). Client GPIOIn(with_irq) (per-pin mode/edge registers in front "
        "of the manager) is run as family 'gpio'; the Timer and UART clients are exercised in C19.",
   tech="deterministic simulation, clear/trigger alignment enumerated cycle by cycle + seeded waveform/access interleavings, per-cycle model"),
 "C09": dict(cat="exploration", ref="DESIGN.md 5.C09",
   text="Real AXILite2Wishbone, Wishbone2AXILite, AXILiteDown/Up/Converter (ratios 2/4/8), AXILiteSRAM, AXILite2CSR (+CSR SRAM), "
        "AXILiteRemapper and chains of two, driven by a master agent of the upstream protocol (concurrent reads/writes, "
        "strobes, gaps, response back-pressure, up to 4 outstanding, program-order hazards respected) against a slave agent of "
        "the downstream protocol with its own legal timing (several requests accepted before answering, delayed ready, error "
        "range, write data up to 14 cycles after its address, a read slave that takes the next address in the cycle its data "
        "leaves); reference byte memory on the master side, response codes incl. error propagation, no write response before "
        "the data handshake, store content, and "
        "valid/payload-stability monitors on every channel the bridge drives. Sampling, not proof.",
   note="AXI4-full bridges (AXI2AXILite, AXILite2AXI, AXI2Wishbone, Wishbone2AXI) and AHB2Wishbone are families of the same check "
        "(props/c09b.py, AXI4 burst master / reference memory slave, AHB master agent). Known findings C09-F1 (AXILite2Wishbone "
        "ignores err), C09-F2 (AXILiteUpConverter with several outstanding requests), C09-F4 (AXI2AXILite needs a one-request-"
        "at-a-time AXI-Lite slave). SoCBusHandler.add_adapter() chains (addressing conversion word/byte, standard bridges, both "
        "directions m2s/s2m, 32-bit on both sides) are family 'adapter' (props/c09_adapter.py); chains with data-width "
        "conversion are exercised through C14's SoC builds only.",
   tech="deterministic simulation, seeded cross-protocol channel-timing search, reference byte memory + protocol monitors"),
 "C16": dict(cat="exploration", ref="DESIGN.md 5.C16",
   text="Seeded search over header definitions, data widths, packet lists, valid/ready schedules and selector changes for "
        "Packetizer, Depacketizer, their round trip, PacketFIFO, Arbiter and Dispatcher on the real simulator; outputs "
        "compared with a byte-level framing reference written from the Header definition plus atomicity/destination "
        "checks. Sampling, not proof.",
   note="Trusted: framing reference in props/c16.py. Assumes >=1 payload beat per packet, header >= one data word "
        "(shorter: listed known finding), packets <= PacketFIFO payload depth.",
   tech="deterministic simulation, seeded schedule/selector-change search, byte-level framing reference"),
 "C17": dict(cat="exploration", ref="DESIGN.md 5.C17",
   text="The real 8b/10b Encoder/Decoder/StreamEncoder/StreamDecoder run under literal clock-enable and valid/ready "
        "patterns with a simulated serial line between them; thorough enumerates all ordered symbol pairs under both entry "
        "disparities, quick a fixed stride of them plus seeded sequences; oracles on the produced serial bit stream "
        "(disparity bound, run length, comma windows) and on the real decoder (invertibility, invalid flag over all 1024 "
        "line words, bit flips on the line).",
   note="Latency is inferred per run; comma check restricted to data-only runs; disparity continuity of the stream wrapper "
        "demanded for stall-only schedules.",
   tech="deterministic simulation, enumerated symbol pairs under seeded clock-enable/stall schedules, line bit-flip injection"),
 "C18": dict(cat="fault_enumeration", ref="DESIGN.md 5.C18",
   text="ECC-protected store: real ECCEncoder output kept in harness memory, every single and every double bit flip "
        "position (parity bit included) injected, real ECCDecoder reads back; data words exhaustive for small k, linear "
        "basis plus random words otherwise; enable=0 pass-through checked with flips; family 'history': two to four codecs of "
        "different widths built and swept one after the other in one process (nothing a codec computes may depend on the widths "
        "elaborated before it).",
   note="Codecs are combinational (time axis belongs to the harness); for large k sufficiency of the basis rests on "
        "linearity of the code. Widths: quick 14 widths between 1 and 64; thorough every width 1..32 and 40, 48, 57, 64, 72, "
        "96, 120, 128 (every width 1..128 did not finish in 90 minutes).",
   tech="deterministic simulation with enumerated stored-bit-flip injection (all single and double positions)"),
 "C19": dict(cat="exploration", ref="DESIGN.md 5.C19",
   text="Real RS232PHYTX / RS232PHYRX, SPIMaster (raw/aligned, dividers 2-16, manual CS, loopback), Timer and Watchdog (through a "
        "real CSRBank) and PWM against independent pin-level peers: a UART receiver checking frame structure and bit-edge "
        "timing, a UART transmitter on its own clock (rate skew up to +-2%, literal sub-cycle phase, literal old/new resolution "
        "of every edge, bad stop bits), a mode-0 SPI device; start requests at literal instants relative to the divider phase "
        "incl. back-to-back and overlapping ones; cycle-exact timer/watchdog/PWM models; return to idle demanded. Sampling.",
   note="The I2C master is driven through its Wishbone registers against an open-drain bus with a slave model and a bus decoder "
        "(legal START/STOP/bit sequences, programmed phase lengths, data/ack both ways, overlapping commands). Further families: "
        "'spislave' (SPISlave against a pin-level master with edge jitter), 'uart_full' (PHY + FIFOs + event manager behind a real "
        "CSRBank, driven by a software model following LiteX's driver protocol; a third of the runs reprogram a dynamic-baudrate PHY), "
        "'spimmap' (the SPI master of the memory-mapped SPI core, modes 0-3, against a pin-level slave), 'spiengine' (its transfer engine: "
        "word streams, programmed chip-select wait, bit order, slot lengths), 'timeline'. Known finding "
        "C19-F1 (SPI length read live). The +-2% UART tolerance is demanded for bit periods >= 16 cycles.",
   tech="deterministic simulation with pin-level peers on skewed clocks, phase/edge-resolution faults, overlapping commands, cycle-exact models"),
}

NOT_APPLICABLE = {
 "C20": "pure function of (input frequency, requested outputs, device constants): no schedule, clock, I/O, fault or second "
        "party for a simulator to control; deciding it is input enumeration/constraint solving, not deterministic simulation "
        "(DESIGN.md section 6)",
}
PENDING = "check for this property is not built yet in this session (design exists in DESIGN.md section 5); not claimed"
ALL = ["C%02d" % i for i in range(1, 21)]


def main():
    checks = []
    for pid in ALL:
        if pid not in CHECKS:
            continue
        c = CHECKS[pid]
        checks.append({
            "property_id": pid,
            "quick_cmd": "./check %s quick" % pid,
            "thorough_cmd": "./check %s thorough" % pid,
            "evidence_file": "evidence/%s.json" % pid,
            "replay_cmd_template": "./check %s quick --replay {path}" % pid,
            "engine": "dsim",
            "level_claimed": {"category": c["cat"], "text": c["text"], "design_ref": c["ref"]},
            "level_note": c["note"],
            "technique": c["tech"],
        })
    na = []
    for pid in ALL:
        if pid in CHECKS:
            continue
        na.append({"property_id": pid, "reason": NOT_APPLICABLE.get(pid, PENDING)})
    m = {
        "version": 1,
        "setup_cmd": "/venv/bin/python -c 'import migen, litex, sys; print(sys.version)' && chmod +x ./check",
        "hooks": {
            "guard": "LITEX_VERIF",
            "enable": "no hook exists in /repo: every seam is an existing interface (Simulator generators, Simulator.time, "
                      "special_overrides, public Python APIs); the guard name is reserved and unused",
            "baseline_off_cmd": "cd /repo && /venv/bin/python -m pytest -ra -q -p no:cacheprovider --timeout=900 "
                                "--continue-on-collection-errors",
            "source_commits": [],
            "add_only": True,
        },
        "engines": [{"name": "dsim", "path": "dsim/", "serves_properties": sorted(CHECKS),
                     "kind_free_text": "deterministic simulation with fault injection: real LiteX modules on the real "
                                       "litex.gen.sim simulator, seeded scheduler for every party/clock/fault, literal "
                                       "scenarios as replay files, reference-model and invariant oracles"}],
        "checks": checks,
        "not_applicable": na,
        "notes": "Replay: ./check <ID> quick --replay <file>. VERIF_SEED selects the seed. Genuine defects repaired in /repo "
                 "are 'fix:' commits listed in findings/known_findings.json (status fixed); unrepaired ones are status known.",
    }
    with open(os.path.join(HERE, "MANIFEST.json"), "w") as f:
        json.dump(m, f, indent=1)
    try:
        import jsonschema
        jsonschema.validate(m, json.load(open("/root/.vp/MANIFEST.schema.json")))
        print("MANIFEST valid;", len(checks), "checks,", len(na), "not claimed")
    except ImportError:
        print("jsonschema not available; not validated")


if __name__ == "__main__":
    main()
