"""Search a variant generator for a violating scenario, shrink it, write a canonical replay.
usage: python tools/find_canonical.py <PROP> <out.json> <family> key=value ...   (kwargs passed to mod.generate)"""
import sys, os, json
sys.path.insert(0, os.path.dirname(os.path.dirname(os.path.abspath(__file__))))
from dsim import boot, prng
boot.boot()
from dsim import runner, shrink
prop, out, fam = sys.argv[1:4]
kw = {}
for a in sys.argv[4:]:
    k, v = a.split("=")
    kw[k] = json.loads(v)
want_cls = kw.pop("_cls", None)
mod = runner.load(prop)
for i in range(400):
    rng = prng.stream(99, prop, fam, i)
    scn = mod.generate(fam, rng, "quick", **kw)
    scn.setdefault("family", fam)
    res = runner.run_one(mod, scn)
    assert "harness_error" not in res, res["harness_error"]
    vs = [v for v in runner._own(mod, res) if want_cls is None or v["cls"] == want_cls]
    if vs:
        v = vs[0]
        def same(c):
            r = runner.run_one(mod, c)
            return any(runner.vkey(x) == runner.vkey(v) for x in runner._own(mod, r))
        small, used = shrink.shrink(scn, same, getattr(mod, "shrink_candidates", None), max_runs=300, max_wall=240)
        res = runner.run_one(mod, small)
        v2 = [x for x in runner._own(mod, res) if runner.vkey(x) == runner.vkey(v)][0]
        json.dump({"property": prop, "seed": 99, "origin": "%s#%d %r" % (fam, i, kw), "shrink_runs": used, "violation": v2,
                   "digest": res.get("digest"), "scenario": small}, open(out, "w"), indent=1)
        print("written", out, v2["cls"], v2["msg"][:300])
        break
else:
    print("no violation found")
