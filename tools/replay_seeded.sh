#!/bin/bash
# usage: tools/replay_seeded.sh [id ...]   (default: every seeded/<id>)   env: VERIF_WORKERS, LOG=/tmp/replay_seeded.log
# Sensitivity regression: applies every archived seeded change to a scratch copy of the package and runs the quick tier of the check that is
# recorded as catching it (first "Cxx quick" in meta.json's caught_by; overrides below). Prints one line per change: CAUGHT / MISSED / NOT-CLAIMED.
cd /verif
LOG=${LOG:-/tmp/replay_seeded.log}
ids=("$@"); [ ${#ids[@]} -eq 0 ] && ids=($(ls seeded))
for id in "${ids[@]}"; do
  prop=$(python3 - "$id" <<'PY'
import json, re, sys
i = sys.argv[1]
over = {"C18-I": "C01", "C11-D": "-"}
m = json.load(open("/verif/seeded/%s/meta.json" % i))
if i in over:
    print(over[i])
else:
    c = m["caught_by"]
    c = re.sub(r"not by C\d\d quick", "", c)
    f = re.findall(r"(C\d\d) quick", c)
    print(f[0] if f else m["breaks_property"])
PY
)
  if [ "$prop" = "-" ]; then echo "$id NOT-CLAIMED" | tee -a $LOG; continue; fi
  out=$(bash selftest/mutant.sh /verif/seeded/$id/patch.diff $prop 2>&1 | tail -1)
  if echo "$out" | grep -q " 0 violations reported"; then echo "$id MISSED by $prop: $out" | tee -a $LOG
  elif echo "$out" | grep -q "violations reported"; then echo "$id CAUGHT by $prop" | tee -a $LOG
  else echo "$id ERROR $prop: $out" | tee -a $LOG; fi
done
