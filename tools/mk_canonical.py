"""Write a canonical replay file for a finding: python tools/mk_canonical.py <PROP> <scenario.json|-> <out.json>
The scenario is run once; the first violation of the property is recorded."""
import json, sys, os
sys.path.insert(0, os.path.dirname(os.path.dirname(os.path.abspath(__file__))))
from dsim import boot
boot.boot()
from dsim import runner
prop, src, out = sys.argv[1:4]
scn = json.load(sys.stdin if src == "-" else open(src))
mod = runner.load(prop)
res = runner.run_one(mod, scn)
viol = runner._own(mod, res)
assert "harness_error" not in res, res.get("harness_error")
assert viol, "scenario does not violate " + prop
json.dump({"property": prop, "seed": None, "origin": "hand-written canonical", "violation": viol[0],
           "digest": res.get("digest"), "scenario": scn}, open(out, "w"), indent=1)
print("written", out, viol[0]["cls"], viol[0]["msg"][:200])
