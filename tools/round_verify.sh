#!/bin/bash
# usage: tools/round_verify.sh <PROP> <X>   - worktree /tmp/wt_<PROP>, patch seeded_out/<X>.patch, demo seeded_out/demo_<X>.py
# 1. demo exits 0 on the clean worktree and non-zero with the patch; 2. the whole baseline suite on the patched worktree still passes every
# stable_pass test; 3. the quick check of <PROP> (plus EXTRA_PROPS) against a scratch copy of the package with the patch (selftest/mutant.sh)
P="$1"; X="$2"; WT=/tmp/wt_$P
cd "$WT" || exit 9
git checkout -q -- . ; git status --short | grep -v seeded_out
PYTHONPATH="$WT" timeout 900 /venv/bin/python seeded_out/demo_$X.py >/tmp/demo_${P}_$X.clean.log 2>&1; c=$?
git apply seeded_out/$X.patch || { echo APPLY-FAILED; exit 8; }
PYTHONPATH="$WT" timeout 900 /venv/bin/python seeded_out/demo_$X.py >/tmp/demo_${P}_$X.patched.log 2>&1; d=$?
echo "demo: clean exit=$c patched exit=$d   ($(tail -1 /tmp/demo_${P}_$X.patched.log | cut -c1-160))"
J=/var/tmp/junit_${P}_$X.xml
(PYTHONPATH="$WT" timeout 3000 /venv/bin/python -m pytest -q -p no:cacheprovider --timeout=900 --continue-on-collection-errors --junitxml=$J >/var/tmp/tests_${P}_$X.log 2>&1)
rm -f sim.vcd
/venv/bin/python - "$J" <<'PY'
import json, sys, xml.etree.ElementTree as ET
want = set(json.load(open("/root/.vp/BASELINE.json"))["stable_pass"])
ok = set()
for tc in ET.parse(sys.argv[1]).getroot().iter("testcase"):
    if not any(ch.tag in ("failure", "error", "skipped") for ch in tc):
        ok.add("%s::%s" % (tc.get("classname"), tc.get("name")))
missing = sorted(want - ok)
print("tests with the patch: stable_pass %d, passing %d, missing %d %s" % (len(want), len(want & ok), len(missing), missing[:4]))
PY
rm -f $J
git diff > /tmp/patch_${P}_$X.diff
git checkout -q -- .
for q in $P ${EXTRA_PROPS:-}; do bash /verif/selftest/mutant.sh /tmp/patch_${P}_$X.diff $q; done
