#!/bin/bash
# usage: tools/verify_seeded.sh <worktree> <A|B> <test files...>   - confirms demo passes clean / fails patched, and tests pass patched
WT="$1"; X="$2"; shift 2
cd "$WT" || exit 9
git checkout -q -- . ; git status --short | grep -v seeded_out
echo "== demo on clean tree"; PYTHONPATH="$WT" timeout 600 /venv/bin/python seeded_out/demo_$X.py >/tmp/demo_clean.log 2>&1; echo "exit=$?"
git apply seeded_out/$X.patch || { echo APPLY-FAILED; exit 8; }
echo "== demo on patched tree"; PYTHONPATH="$WT" timeout 600 /venv/bin/python seeded_out/demo_$X.py >/tmp/demo_patched.log 2>&1; echo "exit=$?"; tail -3 /tmp/demo_patched.log
if [ $# -gt 0 ]; then echo "== tests on patched tree"; PYTHONPATH="$WT" timeout 1800 /venv/bin/python -m pytest -q -p no:cacheprovider --timeout=900 "$@" 2>&1 | tail -3; fi
git checkout -q -- .
