#!/bin/bash
# Runs the baseline test command of /root/.vp/BASELINE.json with a junit file and checks that every test of its stable_pass list passes.
J=/var/tmp/baseline_junit.xml
(cd /repo && timeout 3000 /venv/bin/python -m pytest -ra -q -p no:cacheprovider --timeout=900 --continue-on-collection-errors --junitxml=$J >/var/tmp/baseline_run.log 2>&1)
rm -f /repo/sim.vcd
/venv/bin/python - "$J" <<'PY'
import json, sys, xml.etree.ElementTree as ET
base = json.load(open("/root/.vp/BASELINE.json"))
want = set(base["stable_pass"])
ok = set()
for tc in ET.parse(sys.argv[1]).getroot().iter("testcase"):
    bad = any(ch.tag in ("failure", "error", "skipped") for ch in tc)
    if not bad:
        ok.add("%s::%s" % (tc.get("classname"), tc.get("name")))
missing = sorted(want - ok)
print("stable_pass tests: %d, passing now: %d, missing: %d" % (len(want), len(want & ok), len(missing)))
for m in missing[:20]:
    print("  NOT PASSING:", m)
sys.exit(1 if missing else 0)
PY
rm -f $J
