#!/usr/bin/env python3
"""usage: tools/mk_round_prompts.py <round letters, e.g. GH> : writes /tmp/agent_prompt_<PROP>.txt for every claimed property,
telling the author which classes/functions earlier seeded changes touched (taken from seeded/*/patch.diff hunk headers)."""
import json, glob, os, re, sys
letters = sys.argv[1]
V = os.path.dirname(os.path.dirname(os.path.abspath(__file__)))
tmpl = open(os.path.join(V, "tools/seed_agent_prompt.tmpl")).read()
for line in open(os.path.join(V, "properties.jsonl")):
    p = json.loads(line)
    pid = p["id"]
    if pid == "C20":
        continue
    used = []
    for d in sorted(glob.glob(os.path.join(V, "seeded", pid + "-*"))):
        txt = open(d + "/patch.diff").read()
        files = re.findall(r"^\+\+\+ b/(\S+)", txt, re.M)
        hunks = sorted(set(h.strip() for h in re.findall(r"^@@[^@]*@@ *(.*)$", txt, re.M) if h.strip()))
        used.append("%s: %s" % (", ".join(files), "; ".join(h[:70] for h in hunks)))
    wt = "/tmp/wt_%s" % pid
    text = "%s\n\n%s" % (p.get("title", ""), p.get("statement") or p.get("text") or p.get("description"))
    s = tmpl.replace("{WT}", wt).replace("{PROP}", text)
    s = s.replace("call them A and B", "call them %s and %s" % (letters[0], letters[1]))
    for a, b in (("A.patch", letters[0] + ".patch"), ("B.patch", letters[1] + ".patch"), ("demo_A.py", "demo_%s.py" % letters[0]), ("demo_B.py", "demo_%s.py" % letters[1])):
        s = s.replace(a, b)
    s += ("\n\nIMPORTANT - go somewhere new. Earlier bug seeders already produced changes in the following places (file: enclosing class/function); "
          "do NOT reuse these classes/functions or mechanisms:\n" + "\n".join("  - " + u for u in sorted(set(used))) +
          "\nRe-read the property text and pick components, parameters or code paths it covers that are NOT in that list (other classes in the same "
          "files, other files implementing things the property names, rarely used constructor options, helper functions shared by several cores, "
          "code that only runs for unusual parameter values). Prefer defects that depend on timing or history (a coincidence of two events in one cycle, "
          "a stall at a particular moment, state left over from an earlier operation, an n-th repetition) over plain wrong-constant changes.")
    open("/tmp/agent_prompt_%s.txt" % pid, "w").write(s)
    print(pid, wt, len(used))
