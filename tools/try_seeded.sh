#!/bin/bash
# usage: tools/try_seeded.sh <patch> <PROP...>  - apply patch to /repo, run quick checks, undo
P="$1"; shift
git -C /repo status --short | grep -q . && { echo "/repo not clean"; exit 9; }
git -C /repo apply "$P" || exit 8
for prop in "$@"; do (cd /verif && VERIF_EVIDENCE_DIR=/tmp/ev_mut ./check $prop quick 2>&1 | grep -E "^ |VIOLATION|HARNESS|runs," | cut -c1-250 | head -6); done
git -C /repo checkout -- .
git -C /repo status --short
