#!/bin/bash
# usage: tools/keep_seeded.sh <worktree> <A|B> <id> <property> "<needs>" "<caught by>"
WT="$1"; X="$2"; ID="$3"; PROP="$4"; NEEDS="$5"; CAUGHT="$6"
D=/verif/seeded/$ID; mkdir -p $D
cp $WT/seeded_out/$X.patch $D/patch.diff; cp $WT/seeded_out/demo_$X.py $D/demo.py
[ -f $WT/seeded_out/notes.md ] && cp $WT/seeded_out/notes.md $D/notes_from_author.md
/venv/bin/python - "$D" "$ID" "$PROP" "$NEEDS" "$CAUGHT" <<'PY'
import json, sys
d, i, p, needs, caught = sys.argv[1:6]
json.dump({"id": i, "breaks_property": p, "needs_to_manifest": needs,
           "confirmed": "demo exits 0 on the clean worktree and non-zero with patch.diff applied; relevant test files of the "
                        "baseline still pass with the patch (tools/verify_seeded.sh); checks run with the patch applied to "
                        "/repo via tools/try_seeded.sh and reverted afterwards",
           "caught_by": caught}, open(d + "/meta.json", "w"), indent=1)
PY
echo kept $D
