#!/bin/bash
# usage: selftest/mutant.sh <patch-or-sed-script> <PROP> [tier]   (patch: a git diff relative to repo root; or "sed:<file>:<expr>")
# Makes a scratch copy of /repo's litex package, applies the change, runs the check against it, removes the copy.
set -u
SPEC="$1"; PROP="$2"; TIER="${3:-quick}"
D=$(mktemp -d /var/tmp/mut.XXXXXX)
mkdir -p "$D" && cp -r /repo/litex "$D/litex" && find "$D" -name __pycache__ -prune -exec rm -rf {} + 2>/dev/null
if [[ "$SPEC" == sed:* ]]; then
  F=$(echo "$SPEC" | cut -d: -f2); E=$(echo "$SPEC" | cut -d: -f3-)
  cp "$D/$F" "$D/$F.orig"; sed -i -E "$E" "$D/$F"
  if cmp -s "$D/$F" "$D/$F.orig"; then echo "MUTANT-NOT-APPLIED"; rm -rf "$D"; exit 3; fi
  rm "$D/$F.orig"
else
  (cd "$D" && patch -p1 -s < "$SPEC") || { echo "MUTANT-NOT-APPLIED"; rm -rf "$D"; exit 3; }
fi
cd /verif && VERIF_EVIDENCE_DIR=/tmp/ev_mut VERIF_REPO="$D" ./check "$PROP" "$TIER" ${EXTRA:-} 2>&1 | grep -E "VIOLATION|HARNESS|runs,|MUTANT" | cut -c1-260 | head -8
rm -rf "$D"
