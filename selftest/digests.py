"""Print 'family index digest nviol' for the first n runs of every family of a property (no re-exec: honours PYTHONHASHSEED).
usage: python selftest/digests.py <PROP> <n> [seed] [reverse]"""
import sys, os
sys.path.insert(0, os.path.dirname(os.path.dirname(os.path.abspath(__file__))))
from dsim import boot, prng
boot.boot()
from dsim import runner
prop, n = sys.argv[1], int(sys.argv[2])
seed = int(sys.argv[3]) if len(sys.argv) > 3 else 0
rev = len(sys.argv) > 4 and sys.argv[4] == "reverse"
mod = runner.load(prop)
jobs = []
for fam, cnt in mod.plan("quick"):
    for i in range(min(n, cnt)):
        jobs.append((fam, i))
if rev:
    jobs.reverse()
out = {}
for fam, i in jobs:
    rng = prng.stream(seed, prop, fam, i)
    scn = mod.generate_indexed(fam, i, rng, "quick") if hasattr(mod, "generate_indexed") else mod.generate(fam, rng, "quick")
    scn.setdefault("family", fam)
    r = runner.run_one(mod, scn)
    out[(fam, i)] = "%s %d %s %d%s" % (fam, i, r.get("digest"), len(r["violations"]), " HARNESS" if "harness_error" in r else "")
for k in sorted(out):
    print(out[k])
