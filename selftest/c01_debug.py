"""Dev helper: python selftest/c01_debug.py <family> <index> [seed] - shrink a failing C01 scenario and print the Verilog."""
import sys, json, copy
sys.path.insert(0, __file__.rsplit("/", 2)[0])
from dsim import boot, prng
boot.boot()
from dsim import runner, shrink
from props import c01
fam, i = sys.argv[1], int(sys.argv[2])
seed = int(sys.argv[3]) if len(sys.argv) > 3 else 0
if fam.endswith(".json"):
    scn = json.load(open(fam))
    scn = scn.get("scenario", scn)
else:
    scn = c01.generate(fam, prng.stream(seed, "C01", fam, i), "quick")
r = runner.run_one(c01, scn)
print(r.get("violations") or r.get("harness_error"))
if r.get("violations"):
    cls = r["violations"][0]["cls"]
    def same(c):
        rr = runner.run_one(c01, c)
        return bool(rr.get("violations")) and rr["violations"][0]["cls"] == cls
    best, n = shrink.shrink(scn, same, c01.shrink_candidates, max_runs=600, max_wall=60)
    print("shrunk in", n)
    rr = runner.run_one(c01, best)
    print(rr["violations"][:2])
    b2 = {k: v for k, v in best.items() if k not in ("stim",)}
    print(json.dumps(b2)[:3000])
    print("stim", best.get("stim") if not isinstance(best.get("stim"), list) else best["stim"][:6])
    boot.reset_globals()
    from litex.gen.fhdl.verilog import convert
    builder = c01.build_frag if best["family"] in ("frag", "exh", "wild") else c01.build_mem
    d = builder(best)
    t = convert(d["module"], ios=d["ios"], name="top", **({"regular_comb": best["regular_comb"]} if "regular_comb" in best else {})).main_source
    t = t[t.index("module "):]
    print("\n".join(l for l in t.split("\n") if l.strip() and not l.startswith("//")))
