#!/bin/bash
# usage: selftest/determinism.sh <PROP> [n]  - same seeds under different hash seeds / run orders must give identical digests
P="$1"; N="${2:-6}"; cd /verif
PYTHONHASHSEED=0 /venv/bin/python selftest/digests.py $P $N 0 > /tmp/det_$P.a 2>/dev/null
PYTHONHASHSEED=12345 /venv/bin/python selftest/digests.py $P $N 0 reverse > /tmp/det_$P.b 2>/dev/null
PYTHONHASHSEED=1 /venv/bin/python selftest/digests.py $P $N 0 > /tmp/det_$P.c 2>/dev/null
if cmp -s /tmp/det_$P.a /tmp/det_$P.b && cmp -s /tmp/det_$P.a /tmp/det_$P.c; then echo "$P deterministic over $(wc -l < /tmp/det_$P.a) runs x 3 (hash seeds 0/12345/1, forward/reverse order)"; else echo "$P NONDETERMINISTIC"; diff /tmp/det_$P.a /tmp/det_$P.b | head -5; diff /tmp/det_$P.a /tmp/det_$P.c | head -5; fi
grep -c HARNESS /tmp/det_$P.a
