"""Dev helper: run a few seeded scenarios of a property module in-process and print violations.
usage: python selftest/smoke.py props.c03 [family|all] [n] [seed]"""
import sys, time, traceback, importlib
sys.path.insert(0, __file__.rsplit("/", 2)[0])
from dsim import boot, prng
boot.boot()
from dsim import runner
mod = importlib.import_module(sys.argv[1])
famsel = sys.argv[2] if len(sys.argv) > 2 else "all"
n = int(sys.argv[3]) if len(sys.argv) > 3 else 6
seed = int(sys.argv[4]) if len(sys.argv) > 4 else 0
fams = [f for f, _ in mod.plan("quick")] if famsel == "all" else famsel.split(",")
for fam in fams:
    t0 = time.time(); nv = 0; cyc = 0; chk = 0; nt = 0
    for i in range(n):
        rng = prng.stream(seed, mod.PROPERTY, fam, i)
        scn = mod.generate_indexed(fam, i, rng, "quick") if hasattr(mod, "generate_indexed") else mod.generate(fam, rng, "quick")
        scn.setdefault("family", fam)
        r = runner.run_one(mod, scn)
        if "harness_error" in r:
            print(r["harness_error"]); print(fam, i, scn.get("params")); break
        cyc += r["stats"].get("cycles", 0); chk += r["stats"].get("checks", 0); nt += bool(r["stats"].get("nontrivial"))
        for v in r["violations"]:
            nv += 1
            print("  ", fam, i, scn.get("params"), v.get("prop"), v["cls"], v["observable"], v["msg"][:300])
    print("%-22s viol %d cycles %d checks %d nontrivial %d/%d  %.1fs" % (fam, nv, cyc, chk, nt, n, time.time() - t0))
