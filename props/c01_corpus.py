"""C01 corpus: real LiteX cores at seeded parameterisations, wrapped in a top that declares their clock domains.
build(scn) -> {"module": fragment, "signals": [...], "ios": set, "cds": {name: ClockDomain}, "inputs": [...], "mems": [...]}
Two calls with the same scenario build two identical designs (same creation order), so the i-th signal of one
corresponds to the i-th signal of the other."""
import random


def _layout(r):
    return [("data", r.choice([4, 8, 16])), ("k", r.choice([1, 2]))] if r.random() < 0.5 else [("data", r.choice([8, 32]))]


def mk_SyncFIFO(r):
    from litex.soc.interconnect import stream
    return stream.SyncFIFO(_layout(r), depth=r.choice([2, 3, 4, 8]), buffered=r.random() < 0.5)


def mk_AsyncFIFO(r):
    from litex.soc.interconnect import stream
    from migen import ClockDomainsRenamer
    f = stream.AsyncFIFO(_layout(r), depth=r.choice([4, 8]), buffered=r.random() < 0.5)
    return ClockDomainsRenamer({"write": "sys", "read": "b"})(f)


def mk_Converter(r):
    from litex.soc.interconnect import stream
    a, b = r.choice([(8, 16), (16, 8), (8, 32), (32, 8), (8, 8), (24, 8), (8, 24)])
    return stream.Converter(a, b, reverse=r.random() < 0.5)


def mk_StrideConverter(r):
    from litex.soc.interconnect import stream
    a, b = r.choice([(8, 16), (16, 8), (8, 32), (32, 16)])
    return stream.StrideConverter([("data", a), ("k", a // 8)], [("data", b), ("k", b // 8)], reverse=r.random() < 0.5)


def mk_Gearbox(r):
    from litex.soc.interconnect import stream
    a, b = r.choice([(8, 16), (16, 8), (10, 8), (8, 10), (20, 32), (7, 5), (4, 6)])
    return stream.Gearbox(a, b, msb_first=r.random() < 0.5)


def mk_Buffer(r):
    from litex.soc.interconnect import stream
    return stream.Buffer(_layout(r), pipe_valid=r.random() < 0.7, pipe_ready=r.random() < 0.5)


def mk_MuxDemux(r):
    from litex.soc.interconnect import stream
    n = r.randint(2, 4)
    if r.random() < 0.5:
        return stream.Multiplexer(_layout(r), n)
    return stream.Demultiplexer(_layout(r), n)


def _header(r):
    from litex.soc.interconnect.packet import Header, HeaderField
    fields = {"a": HeaderField(0, 0, 8), "b": HeaderField(1, 0, 16), "c": HeaderField(3, 0, 4), "d": HeaderField(3, 4, 4)}
    ln = r.choice([4, 6, 8])
    return Header(fields, ln, swap_field_bytes=r.random() < 0.5)


def mk_Packetizer(r):
    from litex.soc.interconnect import packet
    from litex.soc.interconnect.stream import EndpointDescription
    h = _header(r)
    dw = r.choice([8, 16, 32])
    return packet.Packetizer(EndpointDescription([("data", dw)], h.get_layout()), EndpointDescription([("data", dw)]), h)


def mk_Depacketizer(r):
    from litex.soc.interconnect import packet
    from litex.soc.interconnect.stream import EndpointDescription
    h = _header(r)
    dw = r.choice([8, 16, 32])
    return packet.Depacketizer(EndpointDescription([("data", dw)]), EndpointDescription([("data", dw)], h.get_layout()), h)


def mk_PacketFIFO(r):
    from litex.soc.interconnect import packet
    return packet.PacketFIFO([("data", 8)], payload_depth=r.choice([4, 8]), param_depth=r.choice([2, 4]), buffered=r.random() < 0.5)


def mk_WishboneSRAM(r):
    from litex.soc.interconnect import wishbone
    return wishbone.SRAM(r.choice([32, 64, 128]), read_only=r.random() < 0.2, init=[r.getrandbits(32) for _ in range(r.randint(0, 8))] or None)


def mk_WishboneConverter(r):
    from litex.soc.interconnect import wishbone
    from migen import Module
    a, b = r.choice([(32, 8), (32, 16), (8, 32), (64, 32), (32, 64)])

    class M(Module):
        def __init__(self):
            self.m = wishbone.Interface(data_width=a, adr_width=30)
            self.s = wishbone.Interface(data_width=b, adr_width=30)
            self.submodules.conv = wishbone.Converter(self.m, self.s)
    return M()


def mk_WishboneInterconnect(r):
    from litex.soc.interconnect import wishbone
    from migen import Module
    nm, ns = r.randint(1, 3), r.randint(1, 3)

    class M(Module):
        def __init__(self):
            self.masters = [wishbone.Interface(data_width=32, adr_width=30) for _ in range(nm)]
            self.slaves = [wishbone.Interface(data_width=32, adr_width=30) for _ in range(ns)]
            dec = [((lambda a, k=k: a[8:10] == k), s) for k, s in enumerate(self.slaves)]
            if r.random() < 0.5:
                self.submodules.ic = wishbone.InterconnectShared(self.masters, dec, register=r.random() < 0.5, timeout_cycles=r.choice([None, 8]))
            else:
                self.submodules.ic = wishbone.Crossbar(self.masters, dec, register=r.random() < 0.5, timeout_cycles=r.choice([None, 8]))
    return M()


def mk_WishboneCache(r):
    from litex.soc.interconnect import wishbone
    from migen import Module

    class M(Module):
        def __init__(self):
            self.m = wishbone.Interface(data_width=32, adr_width=30)
            self.s = wishbone.Interface(data_width=r.choice([32, 64]), adr_width=30)
            self.submodules.c = wishbone.Cache(r.choice([16, 32]), self.m, self.s)
    return M()


def mk_AXILiteSRAM(r):
    from litex.soc.interconnect import axi
    return axi.AXILiteSRAM(r.choice([32, 64]), read_only=r.random() < 0.2)


def mk_AXILiteBridges(r):
    from litex.soc.interconnect import axi, wishbone
    from migen import Module

    class M(Module):
        def __init__(self):
            k = r.randrange(4)
            if k == 0:
                self.a = axi.AXILiteInterface(data_width=32, address_width=32)
                self.w = wishbone.Interface(data_width=32, adr_width=30)
                self.submodules.b = axi.AXILite2Wishbone(self.a, self.w)
            elif k == 1:
                self.a = axi.AXILiteInterface(data_width=32, address_width=32)
                self.w = wishbone.Interface(data_width=32, adr_width=30)
                self.submodules.b = axi.Wishbone2AXILite(self.w, self.a)
            elif k == 2:
                a, b = r.choice([(32, 64), (64, 32), (32, 8)])
                self.a = axi.AXILiteInterface(data_width=a, address_width=32)
                self.b_ = axi.AXILiteInterface(data_width=b, address_width=32)
                self.submodules.b = axi.AXILiteConverter(self.a, self.b_)
            else:
                self.a = axi.AXIInterface(data_width=32, address_width=32, id_width=r.choice([1, 4]))
                self.l = axi.AXILiteInterface(data_width=32, address_width=32)
                self.submodules.b = axi.AXI2AXILite(self.a, self.l)
    return M()


def mk_AXILiteInterconnect(r):
    from litex.soc.interconnect import axi
    from migen import Module
    nm, ns = r.randint(1, 2), r.randint(1, 3)

    class M(Module):
        def __init__(self):
            self.masters = [axi.AXILiteInterface(data_width=32, address_width=32) for _ in range(nm)]
            self.slaves = [axi.AXILiteInterface(data_width=32, address_width=32) for _ in range(ns)]
            dec = [((lambda a, k=k: a[8:10] == k), s) for k, s in enumerate(self.slaves)]
            if r.random() < 0.5:
                self.submodules.ic = axi.AXILiteInterconnectShared(self.masters, dec, timeout_cycles=r.choice([None, 8]))
            else:
                self.submodules.ic = axi.AXILiteCrossbar(self.masters, dec, timeout_cycles=r.choice([None, 8]))
    return M()


def mk_CSRBank(r):
    from litex.soc.interconnect import csr, csr_bus
    from migen import Module

    class P(Module, csr.AutoCSR):
        def __init__(self):
            for i in range(r.randint(1, 5)):
                k = r.random()
                size = r.choice([1, 5, 8, 16, 32, 33, 64])
                if k < 0.5:
                    o = csr.CSRStorage(size, name="s%d" % i, reset=r.getrandbits(size), atomic_write=r.random() < 0.3, write_from_dev=r.random() < 0.3)
                elif k < 0.85:
                    o = csr.CSRStatus(size, name="t%d" % i)
                else:
                    o = csr.CSR(min(size, 8), name="c%d" % i)
                setattr(self, "_r%d" % i, o)

    class M(Module):
        def __init__(self):
            self.submodules.p = P()
            self.submodules.bank = csr_bus.CSRBankArray(self, lambda name, mem: 0, data_width=r.choice([8, 32]), paging=0x800,
                                                        ordering=r.choice(["big", "little"]))
            self.bus = csr_bus.Interface(data_width=self.bank.data_width if hasattr(self.bank, "data_width") else 32)
            self.submodules.ic = csr_bus.Interconnect(self.bus, self.bank.get_buses())
    return M()


def mk_EventManager(r):
    from litex.soc.interconnect import csr_eventmanager as ev
    from migen import Module
    from litex.soc.interconnect.csr import AutoCSR

    class M(Module, AutoCSR):
        def __init__(self):
            self.submodules.ev = ev.EventManager()
            for i in range(r.randint(1, 4)):
                k = r.randrange(3)
                nm = "e%d" % i
                src = (ev.EventSourceLevel(name=nm) if k == 0 else ev.EventSourcePulse(name=nm) if k == 1 else
                       ev.EventSourceProcess(name=nm, edge=r.choice(["rising", "falling"])))
                setattr(self.ev, "e%d" % i, src)
            self.ev.finalize()
    return M()


def mk_Timer(r):
    from litex.soc.cores.timer import Timer
    return Timer(width=r.choice([8, 16, 32]))


def mk_Watchdog(r):
    from litex.soc.cores.watchdog import Watchdog
    return Watchdog(width=r.choice([8, 16]), crg_rst=None, reset_delay=r.choice([0, 3]), halted=r.random() < 0.3)


def mk_PWM(r):
    from litex.soc.cores.pwm import PWM
    return PWM(with_csr=r.random() < 0.5, default_enable=r.randrange(2), default_width=r.getrandbits(6), default_period=r.getrandbits(6))


def mk_LedChaser(r):
    from litex.soc.cores.led import LedChaser
    from migen import Signal
    return LedChaser(Signal(r.choice([1, 4, 8]), name="leds"), sys_clk_freq=r.choice([64, 1000]), period=1.0)


def mk_GPIO(r):
    from litex.soc.cores import gpio
    from migen import Signal
    k = r.randrange(2)
    if k == 0:
        return gpio.GPIOIn(Signal(r.choice([1, 8]), name="gpio_i"), with_irq=r.random() < 0.5)
    return gpio.GPIOOut(Signal(r.choice([1, 8]), name="gpio_o"), reset=r.getrandbits(1))


def mk_Encoder8b10b(r):
    from litex.soc.cores import code_8b10b
    return code_8b10b.Encoder(nwords=r.choice([1, 2, 4]), lsb_first=r.random() < 0.5)


def mk_Decoder8b10b(r):
    from litex.soc.cores import code_8b10b
    return code_8b10b.Decoder(lsb_first=r.random() < 0.5)


def mk_TMDS(r):
    from litex.soc.cores import code_tmds
    return code_tmds.TMDSEncoder()


def mk_ECC(r):
    from litex.soc.cores import ecc
    k = r.choice([4, 8, 16, 32])
    return ecc.ECCEncoder(k) if r.random() < 0.5 else ecc.ECCDecoder(k)


def mk_PRBS(r):
    from litex.soc.cores import prbs
    w = r.choice([8, 16, 20, 32])
    if r.random() < 0.5:
        return prbs.PRBSTX(w, reverse=r.random() < 0.5)
    return prbs.PRBSRX(w, reverse=r.random() < 0.5)


def mk_UARTPHY(r):
    from litex.soc.cores import uart
    from migen import Record, Module

    class M(Module):
        def __init__(self):
            self.pads = Record([("tx", 1), ("rx", 1)])
            self.submodules.phy = uart.RS232PHY(self.pads, clk_freq=1000, baudrate=r.choice([100, 125, 250]), with_dynamic_baudrate=r.random() < 0.3)
    return M()


def mk_UART(r):
    from litex.soc.cores import uart
    from migen import Record, Module
    from litex.soc.interconnect.csr import AutoCSR

    class M(Module, AutoCSR):
        def __init__(self):
            self.pads = Record([("tx", 1), ("rx", 1)])
            self.submodules.phy = uart.RS232PHY(self.pads, clk_freq=1000, baudrate=250)
            self.submodules.uart = uart.UART(self.phy, tx_fifo_depth=r.choice([2, 4]), rx_fifo_depth=r.choice([2, 4]),
                                             rx_fifo_rx_we=r.random() < 0.5)
    return M()


def mk_SPIMaster(r):
    from litex.soc.cores.spi import SPIMaster
    from migen import Record
    pads = Record([("clk", 1), ("cs_n", r.choice([1, 2])), ("mosi", 1), ("miso", 1)])
    return SPIMaster(pads, data_width=r.choice([8, 16, 24]), sys_clk_freq=1000, spi_clk_freq=r.choice([100, 250, 500]), with_csr=r.random() < 0.5)


def mk_WaitTimer(r):
    from litex.gen.genlib.misc import WaitTimer
    return WaitTimer(r.choice([1, 2, 7, 16, 100]))


def mk_PulseSynchronizer(r):
    from migen.genlib.cdc import PulseSynchronizer, BusSynchronizer
    if r.random() < 0.5:
        return PulseSynchronizer("sys", "b")
    return BusSynchronizer(r.choice([1, 4, 8]), "sys", "b")


def mk_FSMCounter(r):
    """a small FSM with NextValue / NextState / delayed enter, as LiteX cores write them."""
    from migen import Module, Signal, If
    from migen.genlib.fsm import FSM, NextState, NextValue

    class M(Module):
        def __init__(self):
            self.start = Signal()
            self.stop = Signal()
            self.count = Signal(r.choice([3, 8]))
            self.done = Signal()
            self.limit = Signal(len(self.count))
            self.submodules.fsm = fsm = FSM(reset_state="IDLE")
            fsm.act("IDLE", NextValue(self.count, 0), If(self.start, NextState("RUN")))
            fsm.act("RUN", NextValue(self.count, self.count + 1), If(self.stop | (self.count == self.limit), NextState("DONE")))
            fsm.act("DONE", self.done.eq(1), If(~self.start, NextState("IDLE")))
    return M()


def mk_DMA(r):
    from litex.soc.cores import dma
    from litex.soc.interconnect import wishbone
    bus = wishbone.Interface(data_width=32, adr_width=30)
    if r.random() < 0.5:
        return dma.WishboneDMAReader(bus, with_csr=r.random() < 0.5, fifo_depth=r.choice([4, 16]))
    return dma.WishboneDMAWriter(bus, with_csr=r.random() < 0.5)


def mk_AXIFull(r):
    from litex.soc.interconnect import axi
    from litex.soc.interconnect.axi import axi_full
    from litex.soc.interconnect import wishbone
    from migen import Module

    class M(Module):
        def __init__(self):
            k = r.randrange(5)
            if k == 0:
                a, b = r.choice([(32, 64), (64, 32), (32, 128), (128, 32)])
                self.a = axi.AXIInterface(data_width=a, address_width=32, id_width=r.choice([1, 4]))
                self.b = axi.AXIInterface(data_width=b, address_width=32, id_width=len(self.a.aw.id))
                self.submodules.c = axi.AXIConverter(self.a, self.b)
            elif k == 1:
                self.a = axi.AXIInterface(data_width=32, address_width=32, id_width=2)
                self.w = wishbone.Interface(data_width=32, adr_width=30)
                self.submodules.c = axi.AXI2Wishbone(self.a, self.w, base_address=r.choice([0, 0x1000]))
            elif k == 2:
                self.w = wishbone.Interface(data_width=32, adr_width=30)
                self.a = axi.AXIInterface(data_width=32, address_width=32, id_width=1)
                self.submodules.c = axi.Wishbone2AXI(self.w, self.a)
            elif k == 3:
                nm, ns = r.randint(1, 2), r.randint(1, 2)
                self.masters = [axi.AXIInterface(data_width=32, address_width=32, id_width=1) for _ in range(nm)]
                self.slaves = [axi.AXIInterface(data_width=32, address_width=32, id_width=1) for _ in range(ns)]
                dec = [((lambda a_, k_=k_: a_[8:10] == k_), s_) for k_, s_ in enumerate(self.slaves)]
                cls = axi_full.AXIInterconnectShared if r.random() < 0.5 else axi_full.AXICrossbar
                self.submodules.ic = cls(self.masters, dec, timeout_cycles=r.choice([None, 8]))
            else:
                self.a = axi.AXIInterface(data_width=32, address_width=32, id_width=1)
                self.l = axi.AXILiteInterface(data_width=32, address_width=32)
                self.submodules.c = axi.AXILite2AXI(self.l, self.a)
    return M()


def mk_AHBAvalon(r):
    from litex.soc.interconnect import wishbone, ahb
    from migen import Module

    class M(Module):
        def __init__(self):
            self.w = wishbone.Interface(data_width=32, adr_width=30)
            if r.random() < 0.5:
                self.a = ahb.AHBInterface()
                self.submodules.c = ahb.AHB2Wishbone(self.a, self.w)
            else:
                from litex.soc.interconnect.avalon import AvalonMMInterface, AvalonMM2Wishbone
                self.submodules.c = AvalonMM2Wishbone(data_width=32, avalon_address_width=32, wishbone_address_width=30,
                                                      wishbone_base_address=r.choice([0, 0x1000]), burst_increment=1, avoid_combinatorial_loop=r.random() < 0.5)
    return M()


def mk_SPISlave(r):
    from migen import Record
    from litex.soc.cores.spi.spi_slave import SPISlave
    pads = Record([("clk", 1), ("cs_n", 1), ("mosi", 1), ("miso", 1)])
    return SPISlave(pads, data_width=r.choice([8, 16, 32]))


def mk_I2C(r):
    from litex.soc.cores.i2c import I2CMasterMachine
    return I2CMasterMachine(clock_width=r.choice([4, 8, 20]))


def mk_WishboneBurstSRAM(r):
    from litex.soc.interconnect import wishbone
    from migen import Module

    class M(Module):
        def __init__(self):
            self.bus = wishbone.Interface(data_width=32, adr_width=30, bursting=True)
            self.submodules.s = wishbone.SRAM(r.choice([32, 64, 256]), bus=self.bus, read_only=r.random() < 0.2)
    return M()


def mk_SoCMini(r):
    """a whole SoC without CPU: bus interconnect, CSR bridge and banks, controller, timer, optional UART, SRAMs, a test master."""
    import logging
    logging.disable(logging.CRITICAL)
    from migen import Record
    from litex.build.generic_platform import GenericPlatform, Pins, Subsignal
    from litex.soc.integration.soc_core import SoCMini
    from litex.soc.interconnect import wishbone
    with_uart = r.random() < 0.5
    io = [("serial", 0, Subsignal("tx", Pins("A1")), Subsignal("rx", Pins("A2")))] if with_uart else []

    class S(SoCMini):
        def __init__(self):
            SoCMini.__init__(self, GenericPlatform("dev", io=io), clk_freq=int(1e6), bus_standard=r.choice(["wishbone", "axi-lite"]),
                             bus_interconnect=r.choice(["shared", "crossbar"]), bus_timeout=r.choice([64, None]),
                             csr_data_width=r.choice([8, 32]), with_ctrl=True, with_timer=r.random() < 0.7,
                             with_uart=with_uart, uart_name="serial", ident="c01" if r.random() < 0.5 else "", ident_version=False)
            self.tb = wishbone.Interface(data_width=32, adr_width=30)
            self.bus.add_master("tb", master=self.tb)
            for k in range(r.randint(1, 2)):
                self.add_ram("ram%d" % k, 0x20000000 + k * 0x10000000, r.choice([0x40, 0x100]))
    s = S()
    s.finalize()
    # stimulus hints: addresses the test master should prefer (CSR banks, RAMs, and just beyond them)
    adrs = []
    for reg in s.bus.regions.values():
        for off in (0, 1, 2, 3, reg.size // 4 - 1, reg.size // 4):
            adrs.append((reg.origin >> 2) + off)
    for name, reg in s.csr.regions.items() if hasattr(s.csr, "regions") else []:
        for off in range(0, 12):
            adrs.append((reg.origin >> 2) + off)
    return s, {s.tb.adr: adrs, s.tb.sel: [15, 15, 1, 3, 12], s.tb.cti: [0], s.tb.bte: [0]}


def mk_CombChain(r):
    """(harness design) a deep chain of combinational assignments, written last stage first: the reference simulator needs one delta
    cycle per stage to reach the fix point the Verilog always @(*) blocks / continuous assignments define."""
    from migen import Module, Signal
    n, w = r.choice([12, 40, 70, 100, 150, 220]), r.choice([4, 8])
    m = Module()
    m.i, m.o, m.tap = Signal(w, name="chain_i"), Signal(w, name="chain_o"), Signal(w, name="chain_tap")
    st = [Signal(w, name="st%d" % k) for k in range(n)]
    for k in reversed(range(1, n)):
        m.comb += st[k].eq(st[k - 1] ^ ((k * 37) & ((1 << w) - 1))) if k % 3 else st[k].eq(~st[k - 1])
    m.comb += [st[0].eq(m.i), m.tap.eq(st[n // 2])]
    m.sync += m.o.eq(st[-1])
    return m


MAKERS = {
    "SyncFIFO": mk_SyncFIFO, "AsyncFIFO": mk_AsyncFIFO, "Converter": mk_Converter, "StrideConverter": mk_StrideConverter,
    "Gearbox": mk_Gearbox, "Buffer": mk_Buffer, "MuxDemux": mk_MuxDemux, "Packetizer": mk_Packetizer, "Depacketizer": mk_Depacketizer,
    "PacketFIFO": mk_PacketFIFO, "WishboneSRAM": mk_WishboneSRAM, "WishboneConverter": mk_WishboneConverter,
    "WishboneInterconnect": mk_WishboneInterconnect, "WishboneCache": mk_WishboneCache, "AXILiteSRAM": mk_AXILiteSRAM,
    "AXILiteBridges": mk_AXILiteBridges, "AXILiteInterconnect": mk_AXILiteInterconnect, "CSRBank": mk_CSRBank,
    "EventManager": mk_EventManager, "Timer": mk_Timer, "Watchdog": mk_Watchdog, "PWM": mk_PWM, "LedChaser": mk_LedChaser, "GPIO": mk_GPIO,
    "Encoder8b10b": mk_Encoder8b10b, "Decoder8b10b": mk_Decoder8b10b, "TMDS": mk_TMDS, "ECC": mk_ECC, "PRBS": mk_PRBS,
    "UARTPHY": mk_UARTPHY, "UART": mk_UART, "SPIMaster": mk_SPIMaster, "WaitTimer": mk_WaitTimer,
    "PulseSynchronizer": mk_PulseSynchronizer, "FSMCounter": mk_FSMCounter, "DMA": mk_DMA, "SoCMini": mk_SoCMini, "AXIFull": mk_AXIFull, "AHBAvalon": mk_AHBAvalon, "I2CMachine": mk_I2C,
    "WishboneBurstSRAM": mk_WishboneBurstSRAM, "SPISlave": mk_SPISlave, "CombChain": mk_CombChain,
}
CORES = sorted(MAKERS)


def build(scn):
    from migen import Module, ClockDomain, Memory
    from migen.fhdl.specials import _MemoryPort
    from migen.fhdl.tools import list_signals, list_targets, list_clock_domains, list_special_ios
    r = random.Random(scn["param_seed"])
    core = MAKERS[scn["core"]](r)
    hints = {}
    if isinstance(core, tuple):
        core, hints = core
    top = Module()
    top.submodules.dut = core
    f = top.get_fragment()
    have = {cd.name for cd in f.clock_domains}
    cds = {}
    for name in sorted(list_clock_domains(f) | {"sys"}):
        if name not in have:
            cd = ClockDomain(name)
            f.clock_domains.append(cd)
        cds[name] = f.clock_domains[name]
    sigs = list_signals(f) | list_special_ios(f, ins=True, outs=True, inouts=True)
    targets = list_targets(f) | list_special_ios(f, ins=False, outs=True, inouts=True)
    clkrst = set()
    for cd in f.clock_domains:
        clkrst.add(cd.clk)
        if cd.rst is not None:
            clkrst.add(cd.rst)
    order = sorted(sigs - clkrst, key=lambda s: s.duid)
    inputs = [s for s in order if s not in targets]
    # only the domains we clock ourselves are offered as ios; a core's own derived domains keep their internal clk/rst
    ios = set(inputs)
    for name, cd in cds.items():
        if cd.clk not in targets:
            ios.add(cd.clk)
        if cd.rst is not None and cd.rst not in targets:
            ios.add(cd.rst)
    # a third of the driven signals become ports as well (output reg / output wire declarations)
    for s in order:
        if s in targets and r.random() < 0.3:
            ios.add(s)
    mems = sorted([m for m in f.specials if isinstance(m, Memory)], key=lambda m: m.duid)
    rsts = {n: cd for n, cd in cds.items() if cd.rst is not None and cd.rst not in targets}
    return {"module": f, "signals": order, "ios": ios, "cds": {n: cd for n, cd in cds.items() if cd.clk not in targets}, "inputs": inputs, "mems": mems,
            "rsts": rsts, "hints": {i: hints[sg] for i, sg in enumerate(inputs) if sg in hints}}
