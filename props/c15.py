"""C15 - Interrupt events are never lost and the IRQ line means pending-and-enabled.

DUT: EventManager with 1-12 sources of seeded kinds (pulse, process rising/falling, level) behind a real
CSRBank (8- or 32-bit), SharedIRQ over two managers. Parties: trigger drivers (literal waveforms) and
software (literal CSR accesses to pending/enable/status). The alignment of a clear against a trigger is
swept cycle by cycle in the 'sweep' family."""
from dsim import prng
from dsim.kernel import Bench, wrap_top, Agent
from dsim.wb_agents import PortRecorder

PROPERTY = "C15"
LEVEL = "fault_enumeration"
RULE = ("family 'ev': one real EventManager (1-12 sources, seeded kinds) behind a real CSRBank (bus 8/32 bit), literal trigger "
        "waveforms per source (pulses, back-to-back pulses, glitches, long levels) and a literal list of software accesses "
        "(write-one-to-clear, enable changes, reads); a per-source model is stepped every cycle. Family 'sweep': for every "
        "source kind and bus width the second trigger is placed at every offset -4..+5 around the clear of the first event "
        "(enumerated). Family 'shared': SharedIRQ over two managers. Non-trivial = at least one clear pulse landed within one "
        "cycle of a trigger edge of the same source and the irq line toggled; distinct = distinct event-log digest")
ASSUMPTIONS = [
    "software writes all words of a multi-word register in address order (as the generated accessors do)",
    "the clearing instant of a source is its documented `clear` input; the check demands separately that a written one at bit "
    "i produces exactly one clear pulse on source i (and on no other) within two cycles of the last word's write",
    "set wins over clear in the same cycle (the statement: a trigger coinciding with the clear is retained)",
]
COMPONENTS = {"real": ["litex.soc.interconnect.csr_eventmanager.EventManager/EventSourcePulse/EventSourceProcess/EventSourceLevel/SharedIRQ",
                       "litex.soc.interconnect.csr_bus.CSRBank", "litex.soc.interconnect.csr.CSRStatus/CSRStorage", "litex.gen.sim.core.Simulator"],
              "stub": ["trigger drivers", "software (CSR bus master)", "tracer shim (CSR names)", "clock source"]}
CHUNK = 6
KINDS = ["pulse", "rising", "falling", "level"]
OFFSETS = list(range(-4, 6))


SEEDED_SCALE = {"quick": 8, "thorough": 8}      # multiplies the run counts of the sampled families in plan()
ENUMERATED = ('sweep',)       # families whose size is the size of an enumeration

def plan(tier):
    if tier == "quick":
        return [("ev", 150), ("sweep", len(KINDS) * len(OFFSETS) * 2), ("shared", 20), ("gpio", 40)]
    return [("ev", 10000), ("sweep", len(KINDS) * len(OFFSETS) * 2 * 6), ("shared", 600), ("gpio", 3000)]


def waveform(rng, n, kind):
    """literal list of [cycle, value] changes of the trigger."""
    ev, t, v = [], rng.randint(1, 8), 0
    while t < n:
        style = rng.random()
        if style < 0.5:
            ev += [[t, 1], [t + 1, 0]]                      # single-cycle pulse
            t += rng.choice([1, 2, 3, 5, 9, 20])
        elif style < 0.65:
            ev += [[t, 1], [t + 1, 0], [t + 2, 1], [t + 3, 0]]   # back-to-back pulses
            t += rng.choice([4, 6, 12])
        else:
            ln = rng.choice([2, 3, 8, 20])
            ev += [[t, 1], [t + ln, 0]]                     # level
            t += ln + rng.choice([1, 2, 7])
        t += 1
    return [e for e in ev if e[0] < n]


def generate_indexed(family, index, rng, tier):
    if family == "gpio":
        from props import c15_gpio
        return c15_gpio.generate(rng, tier)
    if family == "sweep":
        per = len(OFFSETS)
        cfg, oi = divmod(index, per)
        kind = KINDS[cfg % len(KINDS)]
        bw = [8, 32][(cfg // len(KINDS)) % 2]
        var = cfg // (len(KINDS) * 2)
        off = OFFSETS[oi]
        # source 0 = swept kind, source 1 = neighbour (must never be disturbed)
        t0, tc = 6, 14 + var       # first trigger, software clear (write) cycle
        t2 = tc + off              # second trigger
        if kind == "level":
            w0 = [[t0, 1], [t0 + 3, 0], [t2, 1], [t2 + 2, 0]]
        elif kind == "falling":
            w0 = [[t0 - 2, 1], [t0, 0], [t2 - 1, 1], [t2, 0]]
        else:
            w0 = [[t0, 1], [t0 + 1, 0], [t2, 1], [t2 + 1, 0]]
        w0 = sorted(w0)
        w1 = [[t0 + 1, 1], [t0 + 2, 0]]
        return {"family": "sweep", "params": {"kinds": [kind, "pulse"], "busword": bw}, "waves": [w0, w1],
                "sw": [[2, "w", "enable", 3], [tc, "w", "pending", 1], [tc + 12, "r", "pending"], [tc + 16, "w", "pending", 3]],
                "ncyc": tc + 30, "offset": off}
    n = rng.choice([1, 2, 3, 4, 5, 6, 7, 8, 9, 11, 12, 13, 15, 17])
    bw = rng.choice([8, 32])
    kinds = [rng.choice(KINDS) for _ in range(n)]
    ncyc = rng.randint(80, 250)
    waves = [waveform(rng, ncyc, k) for k in kinds]
    sw, t = [], rng.randint(1, 6)
    while t < ncyc - 10:
        r = rng.random()
        if r < 0.08:
            # a write to an offset of the manager's page that holds no register: nothing may change
            sw.append([t, "w", rng.choice(["stray_a", "stray_b", "stray_c"]), rng.getrandbits(min(n, bw)) | 1])
        elif r < 0.45:
            sw.append([t, "w", "pending", rng.getrandbits(n) if rng.random() < 0.7 else (1 << rng.randrange(n))])
        elif r < 0.7:
            sw.append([t, "w", "enable", rng.getrandbits(n)])
        else:
            sw.append([t, "r", rng.choice(["pending", "status", "enable"])])
        t += rng.choice([3, 4, 6, 10, 25]) + (2 if n > bw else 0)
    scn = {"family": family, "params": {"kinds": kinds, "busword": bw}, "waves": waves, "sw": sw, "ncyc": ncyc}
    if family == "shared":
        k2 = [rng.choice(KINDS) for _ in range(rng.randint(1, 3))]
        scn["params"]["kinds2"] = k2
        scn["waves2"] = [waveform(rng, ncyc, k) for k in k2]
        scn["sw2"] = [[t_ + 1, a, b_, *rest] for t_, a, b_, *rest in sw if b_ != "status"][:10]
        # further managers on the same shared line (2 to 11 in all): one source each, enabled once, acknowledged now and then
        more = []
        for j in range(rng.choice([0, 0, 1, 3, 5, 6, 9])):
            kj = [rng.choice(KINDS)]
            swj, tj = [[2 + j % 3, "w", "enable", 1]], rng.randint(8, 40)
            while tj < ncyc - 10:
                swj.append([tj, "w", "pending", 1])
                tj += rng.choice([9, 17, 40, 90])
            more.append({"kinds": kj, "waves": [waveform(rng, ncyc, kj[0])], "sw": swj})
        scn["more"] = more
    return scn


def generate(family, rng, tier):
    return generate_indexed(family, rng.randrange(10 ** 6), rng, tier)


def make_ev(kinds):
    from litex.soc.interconnect import csr_eventmanager as em
    ev = em.EventManager()
    srcs = []
    for i, k in enumerate(kinds):
        if k == "pulse":
            s = em.EventSourcePulse(name="e%d" % i)
        elif k == "level":
            s = em.EventSourceLevel(name="e%d" % i)
        else:
            s = em.EventSourceProcess(name="e%d" % i, edge=k)
        setattr(ev, "e%d" % i, s)
        srcs.append(s)
    ev.finalize()
    return ev, srcs


class Env(Agent):
    """Drives triggers from literal change lists and performs the software accesses word by word."""

    def __init__(self, srcs, waves, bus, sw, regmap, bw):
        self.srcs, self.bus, self.bw = srcs, bus, bw
        self.changes = {}
        for i, wv in enumerate(waves):
            for t, v in wv:
                self.changes.setdefault(t, []).append((i, v))
        self.queue = []     # pending bus word accesses: (kind, adr, value)
        self.sw = {}
        for op in sw:
            self.sw.setdefault(op[0], []).append(op)
        self.regmap = regmap
        self.reads = ()
        self.t = 0
        self.bus_log = []   # (cycle, kind, reg, word index i, value)

    def done(self):
        return True

    def step(self, v, t, w):
        self.t = t
        for i, val in self.changes.get(t, ()):
            w(self.srcs[i].trigger, val)
        for op in self.sw.get(t, ()):
            base, nw = self.regmap[op[2]]
            for k in range(nw):            # big ordering: address base+k holds word i = nw-1-k
                i = nw - 1 - k
                if op[1] == "w":
                    self.queue.append(("w", base + k, (op[3] >> (i * self.bw)) & ((1 << self.bw) - 1), op[2], i))
                else:
                    self.queue.append(("r", base + k, 0, op[2], i))
        b = self.bus
        w(b.we, 0)
        w(b.re, 0)
        if self.queue:
            kind, adr, val, reg, i = self.queue.pop(0)
            w(b.adr, adr)
            if kind == "w":
                w(b.we, 1)
                w(b.dat_w, val)
            else:
                w(b.re, 1)
            self.bus_log.append((t + 1, kind, reg, i, val))


def run(scn):
    if scn.get("family") == "gpio":
        from props import c15_gpio
        return c15_gpio.run(scn)
    from migen import Module
    from litex.soc.interconnect import csr_bus
    from litex.soc.interconnect.csr_eventmanager import SharedIRQ
    p = scn["params"]
    bw = p["busword"]
    top = Module()
    managers = []
    for mi, (kinds, waves, sw) in enumerate([(p["kinds"], scn["waves"], scn["sw"])] +
                                            ([(p["kinds2"], scn["waves2"], scn["sw2"])] if "kinds2" in p else []) +
                                            [(x["kinds"], x["waves"], x["sw"]) for x in scn.get("more", [])]):
        ev, srcs = make_ev(kinds)
        top.submodules += ev
        bus = csr_bus.Interface(data_width=bw, address_width=14)
        bank = csr_bus.CSRBank(ev.get_csrs(), address=0, bus=bus, ordering="big")
        top.submodules += bank
        n = len(kinds)
        nw = -(-n // bw)
        regmap = {"status": (0, nw), "pending": (nw, nw), "enable": (2 * nw, nw),
                  "stray_a": (3 * nw + 2, 1), "stray_b": (4 * nw + 1, 1), "stray_c": (8 * nw + 2 * nw, 1)}
        managers.append({"ev": ev, "srcs": srcs, "bus": bus, "regmap": regmap, "kinds": kinds, "waves": waves, "sw": sw, "n": n, "nw": nw})
    shared = None
    if len(managers) > 1:
        top.submodules.shared = shared = SharedIRQ(*[m["ev"] for m in managers])
    bench = Bench(wrap_top(top), max_cycles=scn["ncyc"] + 8, tail=2, fingerprint=False)
    envs, recs = [], []

    class End(Agent):
        reads = ()

        def __init__(s_):
            s_.t = 0

        def done(s_):
            return s_.t >= scn["ncyc"]

        def step(s_, v, t, w):
            s_.t = t
    bench.add(End())
    for m in managers:
        m["env"] = bench.add(Env(m["srcs"], m["waves"], m["bus"], m["sw"], m["regmap"], bw))
        sigs = []
        for s in m["srcs"]:
            sigs += [s.trigger, s.pending, s.status, s.clear]
        sigs += [m["ev"].irq, m["ev"].enable.storage, m["bus"].dat_r]
        if shared is not None:
            sigs.append(shared.irq)
        m["rows"] = []
        bench.add(PortRecorder(sigs, (lambda t, row, m=m: m["rows"].append(row))))
    bench.run()
    viols = []

    def V(cls, obs, msg, cycle=None):
        if len(viols) < 4:
            viols.append({"prop": "C15", "cls": cls, "observable": obs, "msg": msg, "cycle": cycle})
    checks = 0
    near = 0
    irq_toggles = 0
    for mi, m in enumerate(managers):
        n, nw, kinds, rows = m["n"], m["nw"], m["kinds"], m["rows"]
        P = [0] * n
        TD = [0] * n
        enable = 0
        blog = {}
        for e in m["env"].bus_log:
            blog.setdefault(e[0], []).append(e)
        # expected clear pulses: a pending write whose LAST word (i == 0) is on the bus in cycle c -> clear in c+1 (<= c+2)
        pend_r = 0
        outstanding = []     # [deadline row, mask still to be cleared, mask written]
        exp_read = None
        prev_irq = None
        for k, row in enumerate(rows):
            trig = [row[4 * i] for i in range(n)]
            pend = [row[4 * i + 1] for i in range(n)]
            stat = [row[4 * i + 2] for i in range(n)]
            clr = [row[4 * i + 3] for i in range(n)]
            irq, en_sig, dat_r = row[4 * n], row[4 * n + 1], row[4 * n + 2]
            bad = False
            for i in range(n):
                kind = kinds[i]
                ep = trig[i] if kind == "level" else P[i]
                es = 0 if kind == "pulse" else trig[i]
                checks += 2
                if pend[i] != ep:
                    V("pending_wrong", "m%d.e%d(%s)" % (mi, i, kind), "cycle %d: pending=%d expected %d (trigger=%d clear=%d)" % (k, pend[i], ep, trig[i], clr[i]), k)
                    bad = True
                if stat[i] != es:
                    V("status_wrong", "m%d.e%d(%s)" % (mi, i, kind), "cycle %d: status=%d expected %d" % (k, stat[i], es), k)
                    bad = True
            checks += 2
            if en_sig != enable:
                V("enable_wrong", "m%d.enable" % mi, "cycle %d: enable.storage=%#x expected %#x" % (k, en_sig, enable), k)
                bad = True
            pmask = sum(pend[i] << i for i in range(n))
            if irq != int(bool(pmask & en_sig)):
                V("irq_wrong", "m%d.irq" % mi, "cycle %d: irq=%d, pending=%#x enable=%#x" % (k, irq, pmask, en_sig), k)
                bad = True
            if prev_irq is not None and irq != prev_irq:
                irq_toggles += 1
            prev_irq = irq
            if shared is not None:
                sh = row[4 * n + 3]
                others = [mm["rows"][k][4 * mm["n"]] for mm in managers if len(mm["rows"]) > k]
                checks += 1
                if sh != int(any(others)):
                    V("shared_irq", "shared.irq", "cycle %d: shared irq=%d, manager irqs=%s" % (k, sh, others), k)
                    bad = True
            if exp_read is not None:
                checks += 1
                if dat_r != exp_read[0]:
                    V("read_data", "m%d.%s" % (mi, exp_read[1]), "cycle %d: read of %s returned %#x expected %#x" % (k, exp_read[1], dat_r, exp_read[0]), k)
                    bad = True
                exp_read = None
            # clear pulses must be explained
            cmask = sum(clr[i] << i for i in range(n))
            checks += 1
            rest = cmask
            for ent in outstanding:
                take = ent[1] & rest
                ent[1] &= ~take
                rest &= ~take
            if rest:
                V("clear_pulse", "m%d.clear" % mi, "cycle %d: clear pulse on sources %#x that software did not write a one to (recent pending writes: %s)"
                  % (k, rest, [hex(e[2]) for e in outstanding]), k)
                bad = True
            for ent in outstanding:
                if ent[0] < k and ent[1]:
                    V("clear_missing", "m%d.clear" % mi, "cycle %d: software wrote ones %#x to pending, sources %#x got no clear pulse within two cycles" % (k, ent[2], ent[1]), k)
                    bad = True
            outstanding[:] = [e for e in outstanding if e[0] >= k and e[1]]
            if bad:
                break
            # ---- bus accesses visible in this cycle
            for (_, kind, reg, i, val) in blog.get(k, ()):
                if kind == "w" and reg == "pending":
                    pend_r = pend_r & ~(((1 << bw) - 1) << (i * bw)) | (val << (i * bw))
                    if i == 0:
                        msk = pend_r & ((1 << n) - 1)
                        outstanding.append([k + 2, msk, msk])
                elif kind == "w" and reg == "enable":
                    new_en = enable & ~(((1 << bw) - 1) << (i * bw)) | (val << (i * bw))
                    new_en &= (1 << n) - 1
                    m.setdefault("en_next", {})[k + 1] = new_en
                    enable_pending = new_en
                elif kind == "r":
                    src = {"pending": pmask, "status": sum(stat[j] << j for j in range(n)), "enable": en_sig}[reg]
                    exp_read = ((src >> (i * bw)) & ((1 << bw) - 1), reg)
            # ---- next state of the per-source model (clear = observed clear input, set wins)
            for i in range(n):
                kind = kinds[i]
                if kind == "pulse":
                    ev_ = trig[i]
                elif kind == "rising":
                    ev_ = trig[i] and not TD[i]
                elif kind == "falling":
                    ev_ = (not trig[i]) and TD[i]
                else:
                    ev_ = 0
                if clr[i] and (trig[i] if kind == "pulse" else ev_):
                    near += 1
                elif clr[i] and k > 0 and rows[k - 1][4 * i] != trig[i]:
                    near += 1
                if ev_:
                    P[i] = 1
                elif clr[i]:
                    P[i] = 0
                TD[i] = trig[i]
            if "en_next" in m and (k + 1) in m["en_next"]:
                pass
            # enable is a plain (non-atomic) storage: each word lands one cycle after its write
            for (_, kind, reg, i, val) in blog.get(k, ()):
                if kind == "w" and reg == "enable":
                    enable = (enable & ~(((1 << bw) - 1) << (i * bw)) | (val << (i * bw))) & ((1 << n) - 1)
        # the clear pulse is expected exactly one cycle after the last word: re-key want_clear (k+2 above is the row index
        # at which the pulse is visible: write visible in row k, re registered in k+1, clear comb in k+1) -> see note below
    stats = {"cycles": bench.cycle["sys"], "checks": checks, "nontrivial": bool(near and irq_toggles),
             "faults": {"clear_meets_trigger": near}, "probes": {"irq_toggles": irq_toggles}}
    if "offset" in scn:
        stats["probes"]["offset_%d" % scn["offset"]] = 1
    return {"violations": viols, "digest": bench.digest() if bench.log else __import__("hashlib").sha256(repr([m["rows"] for m in managers]).encode()).hexdigest()[:16],
            "stats": stats}
