"""C19, family 'spimmap': litex.soc.cores.spi.spi_mmap.SPIMaster (the 4-wire master of the memory-mapped SPI core, modes 0-3) against an
independent pin-level SPI slave. The engine side (start pulse, length, mosi word, mode, divider, chip select) is a party with literal
timing; the slave follows the textbook definition of the four modes: the clock idles at CPOL, the leading edge is the first transition
away from idle; CPHA=0: both sides sample on leading edges and change data on trailing edges (the first bit is out when the transfer
starts), CPHA=1: change on leading, sample on trailing edges.
Oracle per transfer: exactly `length` clock pulses, each phase at least one half period long, the clock at its idle level outside
transfers; the bits the slave sampled are the top `length` bits of the mosi word, MSB first; the master's miso register holds the bits the
slave sent; done falls with the start and rises again, irq pulses exactly once, and the core is idle at the end."""
from dsim.kernel import Bench, wrap_top, Agent
from dsim.wb_agents import PortRecorder


def generate(rng, tier):
    dw = rng.choice([8, 16, 32])
    xfers = []
    for _ in range(rng.randint(2, 6)):
        ln = rng.choice([dw, dw, 8, rng.randint(1, dw), 1])
        xfers.append({"mode": rng.randrange(4), "divider": rng.choice([2, 2, 3, 4, 5, 8, 13]), "length": ln, "mosi": rng.getrandbits(dw), "miso": rng.getrandbits(ln),
                      "lead": rng.choice([2, 3, 6]), "gap": rng.choice([1, 2, 3, 5, 9, 20])})
    return {"family": "spimmap", "params": {"data_width": dw, "settle": rng.choice([0, 2, 5]), "loopback": rng.random() < 0.1}, "xfers": xfers}


def run(scn, mkV, _result):
    from migen import Record
    from litex.soc.cores.spi.spi_mmap import SPIMaster
    p = scn["params"]
    dw = p["data_width"]
    pads = Record([("clk", 1), ("cs_n", 1), ("mosi", 1), ("miso", 1)])
    dut = SPIMaster(pads, dw, sys_clk_freq=100e6, clk_settle_time=p["settle"] * 10e-9 + 1e-12)
    xfers = scn["xfers"]
    st = {"i": 0, "phase": "idle", "t0": 0, "wait": 2, "marks": [], "t": 0}

    class Engine(Agent):
        """the user of the master: sets mode / divider / length / mosi / cs, pulses start, waits for done, reads miso"""
        reads = (dut.done, dut.irq, dut.miso)

        def done(s_):
            return st["i"] >= len(xfers) and st["phase"] == "idle" and st["t"] > st["t0"] + 6

        def step(s_, v, t, w):
            st["t"] = t
            if st["phase"] == "start":
                w(dut.start, 0)
                st["phase"] = "run"
                return
            if st["phase"] == "run":
                if v[dut.done] and t > st["t0"] + 1:
                    m = st["marks"][-1]
                    m["end"] = t
                    m["miso_reg"] = v[dut.miso]
                    w(dut.cs, 0)
                    st["phase"] = "idle"
                    st["wait"] = xfers[st["i"]]["gap"]
                    st["i"] += 1
                    st["t0"] = t
                return
            if st["i"] >= len(xfers):
                return
            x = xfers[st["i"]]
            if st["phase"] == "idle":
                st["wait"] -= 1
                if st["wait"] <= 0:
                    w(dut.mode, x["mode"])
                    w(dut.clk_divider, x["divider"])
                    w(dut.length, x["length"])
                    w(dut.mosi, x["mosi"])
                    w(dut.loopback, int(p["loopback"]))
                    w(dut.cs, 1)
                    st["phase"] = "lead"
                    st["wait"] = x["lead"]
                    st["marks"].append({"x": x, "cfg": t + 1})
                return
            if st["phase"] == "lead":
                st["wait"] -= 1
                if st["wait"] <= 0:
                    w(dut.start, 1)
                    st["phase"] = "start"
                    st["t0"] = t
                    st["marks"][-1]["start"] = t + 1

    class Slave(Agent):
        """pin-level SPI slave (registered partner: reacts in the cycle after it sees an edge)"""
        reads = (pads.clk, pads.cs_n, pads.mosi)

        def __init__(s_):
            s_.prev = None
            s_.cur = None

        def step(s_, v, t, w):
            m = st["marks"][-1] if st["marks"] else None
            if m is None or "start" not in m or "end" in m:
                s_.prev = v[pads.clk]
                return
            x = m["x"]
            cpol, cpha = (x["mode"] >> 1) & 1, x["mode"] & 1
            if s_.cur is not m:
                s_.cur = m
                m["rx"], m["edges"], m["tx_i"] = [], [], 0
                if not cpha:
                    w(pads.miso, (x["miso"] >> (x["length"] - 1)) & 1)      # CPHA=0: the first bit is out before the first edge
                    m["tx_i"] = 1
            clk = v[pads.clk]
            if s_.prev is not None and clk != s_.prev:
                leading = clk != cpol
                m["edges"].append((t, clk))
                sample = leading if not cpha else not leading
                if sample:
                    m["rx"].append(v[pads.mosi])
                else:
                    i = m["tx_i"]
                    w(pads.miso, (x["miso"] >> (x["length"] - 1 - i)) & 1 if i < x["length"] else 0)
                    m["tx_i"] = i + 1
            s_.prev = clk
    nmax = sum((x["length"] + 2) * 2 * (x["divider"] // 2 + 1) + x["lead"] + x["gap"] + p["settle"] + 12 for x in xfers) + 60
    bench = Bench(wrap_top(dut), max_cycles=nmax, tail=3, fingerprint=False)
    bench.add(Engine())
    bench.add(Slave())
    rows = []
    bench.add(PortRecorder([pads.clk, dut.done, dut.irq], lambda tt, row: rows.append(row)))
    bench.run()
    viols = []
    V = mkV(viols)
    checks = 0
    marks = st["marks"]
    if len(marks) < len(xfers) or any("end" not in m for m in marks):
        V("not_finished", "spi_mmap master", "%d of %d transfers completed after %d cycles (transfer %r never reported done)"
          % (sum("end" in m for m in marks), len(xfers), len(rows), next((m["x"] for m in marks if "end" not in m), xfers[min(len(marks), len(xfers) - 1)])))
    for k, m in enumerate(marks):
        if "end" not in m or viols:
            break
        x = m["x"]
        n, cpol = x["length"], (x["mode"] >> 1) & 1
        half = x["divider"] // 2 + 1
        edges = m.get("edges", [])
        checks += 5
        if len(edges) != 2 * n:
            V("clock_pulses", "pads.clk", "transfer %d (mode %d, divider %d, length %d): %d clock edges between start and done, expected %d (%d pulses)"
              % (k, x["mode"], x["divider"], n, len(edges), 2 * n, n), m["start"])
            break
        short = [(edges[i][0], edges[i + 1][0] - edges[i][0]) for i in range(len(edges) - 1) if edges[i + 1][0] - edges[i][0] < half]
        if short:
            V("clock_phase_short", "pads.clk", "transfer %d (mode %d, divider %d): clock phase of %d cycle(s) at cycle %d, half period is %d" % (k, x["mode"], x["divider"], short[0][1], short[0][0], half), short[0][0])
            break
        exp_rx = [(x["mosi"] >> (dw - 1 - i)) & 1 for i in range(n)]
        if not p["loopback"] and m.get("rx") != exp_rx:
            V("mosi_data", "pads.mosi", "transfer %d (mode %d, divider %d, length %d, mosi word %#x): the slave sampled %s, expected %s (top bits, MSB first)"
              % (k, x["mode"], x["divider"], n, x["mosi"], "".join(map(str, m.get("rx", []))), "".join(map(str, exp_rx))), m["start"])
            break
        want = x["miso"] if not p["loopback"] else (x["mosi"] >> (dw - n))
        if (m["miso_reg"] & ((1 << n) - 1)) != want & ((1 << n) - 1):
            V("miso_capture", "miso register", "transfer %d (mode %d, divider %d, length %d): the master captured %#x, the slave sent %#x"
              % (k, x["mode"], x["divider"], n, m["miso_reg"] & ((1 << n) - 1), want & ((1 << n) - 1)), m["end"])
            break
        irqs = [c for c in range(m["start"], min(m["end"] + 1, len(rows))) if rows[c][2]]
        if len(irqs) != 1:
            V("irq_pulses", "irq", "transfer %d: %d irq pulses (%s), expected exactly one" % (k, len(irqs), irqs[:4]), m["start"])
            break
        # idle level between transfers
        lo = m["end"] + 1
        hi = marks[k + 1]["start"] if k + 1 < len(marks) and "start" in marks[k + 1] else len(rows)
        nxt_cpol = (marks[k + 1]["x"]["mode"] >> 1) & 1 if k + 1 < len(marks) else cpol
        for c in range(lo, hi):
            checks += 1
            lvl = cpol if (k + 1 >= len(marks) or c < marks[k + 1]["cfg"]) else nxt_cpol
            if rows[c][0] != lvl and not (k + 1 < len(marks) and c == marks[k + 1]["cfg"]):
                V("clock_idle_level", "pads.clk", "cycle %d (after transfer %d, mode %d): clock at %d while no transfer runs, idle level is %d" % (c, k, x["mode"], rows[c][0], lvl), c)
                break
    if not viols and rows and not rows[-1][1]:
        V("not_idle", "done", "the master is not idle at the end of the run")
    return _result(viols, [r[0] for r in rows], {"cycles": len(rows), "checks": checks, "nontrivial": len(marks) >= 2,
                                                   "faults": {"mode_change_between_transfers": sum(marks[i]["x"]["mode"] != marks[i + 1]["x"]["mode"] for i in range(len(marks) - 1))},
                                                   "probes": {"spimmap_transfers": len(marks), **{"spimmap_mode%d" % mm: sum(m["x"]["mode"] == mm for m in marks) for mm in range(4)}}})
