"""C14 - Exported software maps tell the truth about the hardware.

One run = one finalized SoCMini (cpu_type None) built from a seeded configuration (bus standard, interconnect,
CSR width/paging/ordering, peripherals with seeded register sets, RAM/ROM regions with images, constants);
exports written by the real Builder into a scratch directory and read back from disk; a Wishbone master added
with soc.bus.add_master plays the CPU: for every published register it performs the access sequence of the
GENERATED accessor (addresses, order and shifts parsed from csr.h) and device-side observers report what
reacted. No fault kinds (stated)."""
import hashlib
import json
import logging
import os
import re
import shutil
import sys
import tempfile

from dsim.kernel import Bench, Agent
from dsim.wb_agents import WBMaster, PortRecorder

PROPERTY = "C14"
LEVEL = "exploration"
RULE = ("one run = one real SoC build with a seeded configuration (bus standard wishbone/axi-lite/axi, interconnect shared/"
        "crossbar, CSR data width 8/32, paging, ordering, 1-3 peripherals with seeded CSRStorage/CSRStatus sets of 1..70 bits, "
        "fixed CSR locations, RAM regions, a ROM initialised from a seeded image through get_mem_data with either endianness, "
        "constants); csr.h / mem.h / soc.h / csr.json / csr.csv / csr.svd are produced by the real Builder, read back and must "
        "agree with each other; every storage register is written through its generated accessor sequence with a unique value "
        "(exactly that register must change), every status register is driven with a unique value and read through its "
        "accessor, every memory region is written/read at its first and last word, the ROM is read back byte by byte. Non-"
        "trivial = at least one multi-word register and one memory region were exercised; distinct = digest of the exported "
        "register map")
ASSUMPTIONS = [
    "configuration swarm, no fault dimension (DESIGN.md 5.C14); bus timing is whatever the real interconnect gives",
    "the CPU is played by a Wishbone master added with soc.bus.add_master (the real add_adapter chain converts it)",
    "a little-endian CPU reads byte A+i of a 32-bit word from bits 8i+7..8i, a big-endian CPU from bits 31-8i..24-8i",
    "interrupt numbers need a CPU with an interrupt port and are not covered by this CPU-less build",
]
COMPONENTS = {"real": ["litex.soc.integration.soc_core.SoCMini / soc.SoC (finalize: interconnect, CSR bridge, banks)",
                       "litex.soc.integration.builder.Builder._generate_includes/_generate_csr_map", "litex.soc.integration.export.*",
                       "litex.soc.integration.common.get_mem_data", "litex.gen.sim.core.Simulator"],
              "stub": ["GenericPlatform without IO", "CPU (CPUNone) replaced by a Wishbone master agent", "device-side observers", "tracer shim"]}
CHUNK = 2      # two SoC builds per process: the second one must not inherit anything from the first
RUN_TIMEOUT = 600


SEEDED_SCALE = {"quick": 1, "thorough": 3}      # multiplies the run counts of the sampled families in plan()

def plan(tier):
    return [("soc", 48 if tier == "quick" else 3000)]


def generate(family, rng, tier, force=None):
    busword = 32      # csr_data_width=8: hardware answers at byte address i, exports say 4*i (listed known finding C14-F1) -> via `force`
    p = {"bus_standard": rng.choice(["wishbone", "wishbone", "axi-lite", "axi"]), "bus_interconnect": rng.choice(["shared", "crossbar"]),
         "csr_data_width": busword, "csr_paging": rng.choice([0x800, 0x800, 0x400, 0x1000]), "csr_ordering": "big",
         "with_ctrl": rng.random() < 0.7, "with_timer": rng.random() < 0.4, "csr_address_width": rng.choice([14, 14, 15, 16]), "with_irq": rng.random() < 0.6}
    # csr_ordering="little": the generated accessors stay big-endian (listed known finding C14-F2) -> only via `force`
    if force:
        p.update(force)
        busword = p["csr_data_width"]
    periphs = []
    idx = 0
    for k in range(rng.randint(1, 3)):
        regs = []
        for _ in range(rng.randint(1, 5)):
            size = rng.choice([1, 3, 8, busword, busword + 1, 2 * busword, 33, 64, 70, 20])
            size = max(1, min(size, 64 if rng.random() < 0.8 else 70))
            regs.append({"kind": rng.choice(["storage", "storage", "status"]), "name": "r%d" % idx, "size": size})
            idx += 1
        n_locs = 4 * (1 << p["csr_address_width"]) // p["csr_paging"]
        # fixed locations include the upper half of the CSR address space (only reachable when every hop keeps the full address width)
        if len(regs) >= 2 and rng.random() < 0.3:
            # registers pinned at fixed positions inside their bank (n=), leaving a gap that the bank fills with a reserved placeholder
            regs[-1]["n"] = len(regs) + rng.choice([0, 1, 2])
            if rng.random() < 0.5:
                regs[0]["n"] = 0
        periphs.append({"name": "per%d" % k, "regs": regs, "loc": rng.choice([None, None, 5 + k, 9 + k, n_locs // 2 + 1 + k, n_locs - 1 - k])})
        # interrupt of the peripheral (a level event source behind an EventManager): none, automatic or a fixed number
        # a memory mapped into the CSR space (its own window): small, not a power of two, half a CSR page, exactly one CSR page
        periphs[-1]["mem_depth"] = rng.choice([None, None, 4, 16, 12, p["csr_paging"] // 8, p["csr_paging"] // 4])
        periphs[-1]["irq"] = rng.choice([None, "auto", "auto", [0, 7, 31][k % 3], 12 + k]) if p["with_irq"] else None
    if p["with_irq"] and not any(x["irq"] is not None for x in periphs):
        periphs[0]["irq"] = "auto"      # (a CPU with interrupts and no interrupt source at all makes SoC.finalize() raise: not generated)
    rams = []
    for k in range(rng.randint(1, 2)):
        rams.append({"name": "ram%d" % k, "origin": 0x20000000 + k * 0x10000000, "size": rng.choice([0x40, 0x100, 0x1000, 0x60, 0x180, 0xc00])})
    if len(rams) == 2 and rng.random() < 0.3:
        # the second RAM right behind the first one: inside the decoded (power of two) window of a non power-of-two region this
        # has to be refused; after a power-of-two region it is fine
        rams[1]["origin"] = rams[0]["origin"] + rams[0]["size"]
    rom_len = rng.choice([5, 16, 37, 64, 101])
    rom = {"name": "rom0", "origin": 0x10000000, "size": 0x100, "endianness": rng.choice(["little", "big"]),
           "image": [rng.getrandbits(8) for _ in range(rom_len)]}
    consts = {"FOO_%d" % i: rng.choice([0, 1, 42, 0x1234]) for i in range(rng.randint(0, 3))}
    return {"family": "soc", "params": p, "periphs": periphs, "rams": rams, "rom": rom, "constants": consts,
            "values": [rng.getrandbits(70) | 1 for _ in range(64)]}


# ------------------------------------------------------------------------------------------------
def parse_accessors(text):
    """csr.h -> {name: {"read": [(addr)], "shift": n, "write": [(shift, addr)]}} (offsets relative to CSR_BASE)."""
    acc = {}
    for m in re.finditer(r"static inline (\w+) (\w+)_read\(void\) \{(.*?)\n\}", text, re.S):
        body = m.group(3)
        addrs = [int(x, 16) for x in re.findall(r"csr_read_simple\(\(CSR_BASE \+ (0x[0-9a-fA-F]+)L\)\)", body)]
        sh = re.findall(r"r <<= (\d+);", body)
        acc.setdefault(m.group(2), {})["read"] = addrs
        acc[m.group(2)]["rshift"] = int(sh[0]) if sh else 0
        acc[m.group(2)]["ctype"] = m.group(1)
    for m in re.finditer(r"static inline void (\w+)_write\((\w+) v\) \{(.*?)\n\}", text, re.S):
        body = m.group(3)
        ws = []
        for x in re.finditer(r"csr_write_simple\(v(?: >> (\d+))?, \(CSR_BASE \+ (0x[0-9a-fA-F]+)L\)\);", body):
            ws.append((int(x.group(1) or 0), int(x.group(2), 16)))
        acc.setdefault(m.group(1), {})["write"] = ws
    return acc


def run(scn):
    logging.disable(logging.CRITICAL)
    d = tempfile.mkdtemp(prefix="c14_", dir="/var/tmp")
    try:
        import contextlib
        import io
        with contextlib.redirect_stdout(io.StringIO()):      # the documentation pass prints a note for every CSR memory
            return _run(scn, d)
    finally:
        shutil.rmtree(d, ignore_errors=True)
        if sys.stderr is None:
            sys.stderr = sys.__stderr__


def _run(scn, d):
    from migen import Module, ClockDomain
    from litex.build.generic_platform import GenericPlatform
    from litex.soc.integration.soc_core import SoCMini
    from litex.soc.integration.builder import Builder
    from litex.soc.integration.common import get_mem_data
    from litex.soc.interconnect import wishbone
    from litex.soc.interconnect.csr import AutoCSR, CSRStorage, CSRStatus
    p = scn["params"]
    viols = []

    def V(cls, obs, msg, cycle=None):
        if len(viols) < 5:
            viols.append({"prop": "C14", "cls": cls, "observable": obs, "msg": msg, "cycle": cycle})
    objs = {}
    irq_periphs = {}
    from migen import Signal

    class Periph(Module, AutoCSR):
        def __init__(self, spec):
            for r in spec["regs"]:
                if r["kind"] == "storage":
                    o = CSRStorage(r["size"], name=r["name"], n=r.get("n"))
                else:
                    o = CSRStatus(r["size"], name=r["name"], n=r.get("n"))
                setattr(self, "_" + r["name"], o)
                objs["%s_%s" % (spec["name"], r["name"])] = (r, o)
            if spec.get("mem_depth"):
                from migen import Memory
                self.buf = Memory(32, spec["mem_depth"], name="buf")
                self.specials += self.buf
            if spec.get("irq") is not None:
                from litex.soc.interconnect.csr_eventmanager import EventManager, EventSourceLevel
                self.trig = Signal(name=spec["name"] + "_trig")
                self.submodules.ev = EventManager()
                self.ev.e0 = EventSourceLevel(name="e0")
                self.ev.finalize()
                self.comb += self.ev.e0.trigger.eq(self.trig)
                irq_periphs[spec["name"]] = self
    img_file = os.path.join(d, "rom.bin")
    with open(img_file, "wb") as f:
        f.write(bytes(scn["rom"]["image"]))

    class MySoC(SoCMini):
        def __init__(self):
            platform = GenericPlatform("dev", io=[])
            SoCMini.__init__(self, platform, clk_freq=int(1e6), bus_standard=p["bus_standard"], bus_interconnect=p["bus_interconnect"],
                             bus_timeout=64, csr_data_width=p["csr_data_width"], csr_paging=p["csr_paging"], csr_ordering=p["csr_ordering"],
                             csr_address_width=p.get("csr_address_width", 14), with_ctrl=p["with_ctrl"], with_timer=p["with_timer"])
            self.clock_domains.cd_sys = ClockDomain()
            if p.get("with_irq"):
                # the CPU stub: CPUNone plus an interrupt vector (what SoC.finalize() wires event managers to)
                self.cpu.interrupt = Signal(32, name="cpu_interrupt")
                self.irq.enable()
            for spec in scn["periphs"]:
                setattr(self.submodules, spec["name"], Periph(spec))
                if spec["loc"] is not None:
                    self.csr.add(spec["name"], n=spec["loc"])
                if spec.get("irq") is not None:
                    self.irq.add(spec["name"], n=None if spec["irq"] == "auto" else spec["irq"])
            self.tb = wishbone.Interface(data_width=32, adr_width=30)
            self.bus.add_master("tb", master=self.tb)
            for r in scn["rams"]:
                self.add_ram(r["name"], r["origin"], r["size"])
            rom = scn["rom"]
            self.add_rom(rom["name"], rom["origin"], rom["size"], contents=get_mem_data(img_file, data_width=32, endianness=rom["endianness"]))
            for k, v in scn["constants"].items():
                self.add_constant(k, v)
    from litex.soc.integration.soc import SoCError
    try:
        soc = MySoC()
    except SoCError:
        # the composition was refused with an error (e.g. a region inside the decoded window of another): nothing is exported
        return {"violations": [], "digest": "refused", "stats": {"checks": 1, "nontrivial": False, "faults": {}, "probes": {"soc_refused": 1}, "cycles": 0}}
    b = Builder(soc, output_dir=d, compile_software=False, compile_gateware=False, csr_json=os.path.join(d, "csr.json"),
                csr_csv=os.path.join(d, "csr.csv"), csr_svd=os.path.join(d, "csr.svd"))
    try:
        soc.finalize()
    except SoCError:
        return {"violations": [], "digest": "refused", "stats": {"checks": 1, "nontrivial": False, "faults": {}, "probes": {"soc_refused": 1}, "cycles": 0}}
    b._generate_includes(with_bios=False)
    b._generate_csr_map()
    gen = os.path.join(d, "software", "include", "generated")
    csr_h = open(os.path.join(gen, "csr.h")).read()
    mem_h = open(os.path.join(gen, "mem.h")).read()
    soc_h = open(os.path.join(gen, "soc.h")).read()
    js = json.load(open(os.path.join(d, "csr.json")))
    csv = open(os.path.join(d, "csr.csv")).read()
    svd = open(os.path.join(d, "csr.svd")).read()
    checks = 0
    # ---- cross-format agreement
    m = re.search(r"#define CSR_BASE (0x[0-9a-fA-F]+)L", csr_h)
    csr_base = int(m.group(1), 16) if m else None
    hdr_addr = {mm.group(1).lower(): int(mm.group(2), 16) for mm in re.finditer(r"#define CSR_(\w+)_ADDR \(CSR_BASE \+ (0x[0-9a-fA-F]+)L\)", csr_h)}
    hdr_size = {mm.group(1).lower(): int(mm.group(2)) for mm in re.finditer(r"#define CSR_(\w+)_SIZE (\d+)", csr_h)}
    csv_regs = {}
    for line in csv.splitlines():
        f = line.split(",")
        if f[0] == "csr_register":
            csv_regs[f[1]] = (int(f[2], 16), int(f[3]), f[4])
    jregs = js["csr_registers"]
    for name, info in jregs.items():
        checks += 3
        if csr_base is None or hdr_addr.get(name) is None or csr_base + hdr_addr[name] != info["addr"]:
            V("export_mismatch", name, "csr.json says %#x, csr.h says CSR_BASE(%s)+%s" % (info["addr"], hex(csr_base) if csr_base is not None else None,
                                                                                    hex(hdr_addr[name]) if name in hdr_addr else None))
        if name not in csv_regs or csv_regs[name][0] != info["addr"] or csv_regs[name][1] != info["size"]:
            V("export_mismatch", name, "csr.json (%#x, %d words) vs csr.csv %s" % (info["addr"], info["size"], csv_regs.get(name)))
        if hdr_size.get(name) != info["size"]:
            V("export_mismatch", name, "csr.json size %d words vs csr.h CSR_%s_SIZE %s" % (info["size"], name.upper(), hdr_size.get(name)))
    # SVD: peripheral base + register offset
    for pm in re.finditer(r"<peripheral>\s*<name>(\w+)</name>\s*<baseAddress>(0x[0-9A-Fa-f]+)</baseAddress>(.*?)</peripheral>", svd, re.S):
        pname, pbase = pm.group(1).lower(), int(pm.group(2), 16)
        for rm in re.finditer(r"<register>\s*<name>(\w+)</name>.*?<addressOffset>(0x[0-9A-Fa-f]+)</addressOffset>", pm.group(3), re.S):
            rname = rm.group(1).lower()
            full = rname if rname in jregs else "%s_%s" % (pname, rname)
            checks += 1
            if full in jregs and pbase + int(rm.group(2), 16) != jregs[full]["addr"]:
                V("export_mismatch", full, "csr.svd places %s at %#x, csr.json at %#x" % (full, pbase + int(rm.group(2), 16), jregs[full]["addr"]))
    for k, v in scn["constants"].items():
        checks += 2
        if str(js["constants"].get(k.lower(), js["constants"].get(k))) != str(v):
            V("export_mismatch", k, "constant %s=%s, csr.json says %r" % (k, v, js["constants"].get(k.lower(), js["constants"].get(k))))
        if not re.search(r"#define %s %d\b" % (k, v), soc_h):
            V("export_mismatch", k, "constant %s=%s not found in soc.h" % (k, v))
    mem_hdr = {mm.group(1).lower(): int(mm.group(2), 16) for mm in re.finditer(r"#define (\w+)_BASE (0x[0-9a-fA-F]+)L", mem_h)}
    mem_sz = {mm.group(1).lower(): int(mm.group(2), 16) for mm in re.finditer(r"#define (\w+)_SIZE (0x[0-9a-fA-F]+)", mem_h)}
    for r in scn["rams"] + [scn["rom"]]:
        jm = js["memories"].get(r["name"])
        checks += 1
        if jm is None or jm["base"] != r["origin"] or mem_hdr.get(r["name"]) != r["origin"] or mem_sz.get(r["name"]) != jm["size"]:
            V("export_mismatch", r["name"], "memory %s requested at %#x: csr.json %s, mem.h base %s size %s"
              % (r["name"], r["origin"], jm, mem_hdr.get(r["name"]), mem_sz.get(r["name"])))
    if viols:
        return {"violations": viols, "digest": "exports", "stats": {"checks": checks}}
    # ---- access plan from the generated accessors
    acc = parse_accessors(csr_h)
    bw = p["csr_data_width"]
    ops = []
    tests = []      # (kind, name, value, first op index, last op index)
    vals = list(scn["values"])
    stat_vals = {}
    for name, (r, o) in sorted(objs.items()):
        a = acc.get(name)
        if r["size"] > 64:
            continue               # no single accessor for > 64 bit registers (array accessors, not modelled)
        if a is None or "read" not in a:
            V("accessor_missing", name, "no generated read accessor for register %s" % name)
            continue
        val = vals.pop() & ((1 << r["size"]) - 1)
        if r["size"] > 64:
            val &= (1 << 64) - 1     # accessors carry at most uint64_t
        if r["kind"] == "storage":
            if "write" not in a:
                V("accessor_missing", name, "no generated write accessor for storage %s" % name)
                continue
            if r["size"] > 64:
                continue               # no single accessor for > 64 bit registers: array accessors, not modelled
            first = len(ops)
            for (sh, off) in a["write"]:
                ops.append({"we": 1, "adr": (csr_base + off) >> 2, "dat": (val >> sh) & 0xffffffff, "sel": 15, "gap": 0, "keep_cyc": 0})
            ops[first]["gap"] = 6
            tests.append(("w", name, val, first, len(ops) - 1))
            first = len(ops)
            for off in a["read"]:
                ops.append({"we": 0, "adr": (csr_base + off) >> 2, "dat": 0, "sel": 15, "gap": 0, "keep_cyc": 0})
            ops[first]["gap"] = 6
            tests.append(("r", name, val, first, len(ops) - 1))
        else:
            if r["size"] > 64:
                continue
            stat_vals[name] = val
            first = len(ops)
            for off in a["read"]:
                ops.append({"we": 0, "adr": (csr_base + off) >> 2, "dat": 0, "sel": 15, "gap": 0, "keep_cyc": 0})
            ops[first]["gap"] = 4
            tests.append(("r", name, val, first, len(ops) - 1))
    # every region is written first (first and last word, distinct values), all of them are read back afterwards: a region that
    # also answers in another one's window (aliasing) overwrites that one's word
    ram_writes = []
    for r in scn["rams"]:
        base = mem_hdr[r["name"]]
        size = mem_sz[r["name"]]
        for off, tag in ((0, 0x11110000), (size - 4, 0x22220000)):
            v_ = tag | (len(ops) & 0xffff)
            ops.append({"we": 1, "adr": (base + off) >> 2, "dat": v_, "sel": 15, "gap": 2, "keep_cyc": 0})
            ram_writes.append((r["name"], len(ops) - 1, v_))
    for (nm_, iw_, v_) in ram_writes:
        ops.append({"we": 0, "adr": ops[iw_]["adr"], "dat": 0, "sel": 15, "gap": 1, "keep_cyc": 0})
        tests.append(("mem", nm_, v_, iw_, len(ops) - 1))
    for r in scn["rams"]:
        base = mem_hdr[r["name"]]
        size = mem_sz[r["name"]]
        if p["bus_interconnect"] != "crossbar":
            # one word beyond the region is unmapped: answered by the bus timeout (crossbars have none: C11-F1)
            ops.append({"we": 0, "adr": (base + size) >> 2, "dat": 0, "sel": 15, "gap": 1, "keep_cyc": 0})
            tests.append(("beyond", r["name"], 0, len(ops) - 1, len(ops) - 1))
    # memories mapped into the CSR space: their published base is where word 0 answers (32-bit CSR bus only)
    if bw == 32:
        for spec in scn["periphs"]:
            if not spec.get("mem_depth"):
                continue
            key = spec["name"] + "_buf"
            checks += 2
            mm = re.search(r"#define CSR_%s_BASE \(CSR_BASE \+ (0x[0-9a-fA-F]+)L\)" % key.upper(), csr_h)
            if key not in js.get("csr_bases", {}) or not mm or csr_base + int(mm.group(1), 16) != js["csr_bases"][key]:
                V("export_mismatch", key, "CSR memory %s: csr.json csr_bases says %s, csr.h says %s" % (key, js.get("csr_bases", {}).get(key), mm.group(1) if mm else None))
                continue
            base = js["csr_bases"][key]
            dpt = spec["mem_depth"]
            for off, tag in sorted({0: 0x33330000, 4 * (dpt // 2 - 1): 0x55550000, 4 * (dpt // 2): 0x66660000, 4 * (dpt - 1): 0x44440000}.items()):
                v_ = tag | (len(ops) & 0xffff)
                ops.append({"we": 1, "adr": (base + off) >> 2, "dat": v_, "sel": 15, "gap": 2, "keep_cyc": 0})
                tests.append(("csrmem_w", key, v_, len(ops) - 1, len(ops) - 1))
    csrmem_reads = []
    # interrupts: enable every event through its generated accessor; the triggers are raised one at a time afterwards
    irq_pub = {}
    for name in sorted(irq_periphs):
        mm = re.search(r"#define %s_INTERRUPT (\d+)" % name.upper(), soc_h)
        checks += 1
        if not mm:
            V("export_mismatch", name + "_INTERRUPT", "peripheral %s has an interrupt, soc.h does not publish %s_INTERRUPT" % (name, name.upper()))
            continue
        irq_pub[name] = int(mm.group(1))
        a = acc.get(name + "_ev_enable")
        if a is None or "write" not in a:
            V("accessor_missing", name + "_ev_enable", "no generated write accessor for %s_ev_enable" % name)
            continue
        for (sh, off) in a["write"]:
            ops.append({"we": 1, "adr": (csr_base + off) >> 2, "dat": (1 >> sh) & 0xffffffff, "sel": 15, "gap": 2, "keep_cyc": 0})
    for (kind_, key_, v_, i0_, _) in [t_ for t_ in tests if t_[0] == "csrmem_w"]:
        ops.append({"we": 0, "adr": ops[i0_]["adr"], "dat": 0, "sel": 15, "gap": 1, "keep_cyc": 0})
        tests.append(("csrmem_r", key_, v_, len(ops) - 1, len(ops) - 1))
    rom = scn["rom"]
    rbase = mem_hdr[rom["name"]]
    nwords = -(-len(rom["image"]) // 4)
    first = len(ops)
    for wd in range(nwords):
        ops.append({"we": 0, "adr": (rbase >> 2) + wd, "dat": 0, "sel": 15, "gap": 0, "keep_cyc": 0})
    tests.append(("rom", rom["name"], 0, first, len(ops) - 1))
    # ---- simulate
    storages = [(n, o.storage) for n, (r, o) in sorted(objs.items()) if r["kind"] == "storage"]
    rows = []

    irq_names = sorted(irq_pub)
    irq_seen = {}       # name -> set of interrupt vector values sampled while only its trigger is high
    WIN = 8

    class Dev(Agent):
        reads = (soc.cpu.interrupt,) if irq_names else ()

        def __init__(s_):
            s_.t0 = None

        def done(s_):
            return not irq_names or (s_.t0 is not None and s_.t >= s_.t0 + WIN * (len(irq_names) + 1))

        def step(s_, v, t, w):
            s_.t = t
            if t == 0:
                for n, val in stat_vals.items():
                    w(objs[n][1].status, val)
            if not irq_names:
                return
            if s_.t0 is None:
                if ma.done():
                    s_.t0 = t + 4
                return
            k, ph = divmod(t - s_.t0, WIN)
            if t < s_.t0:
                return
            for i, n in enumerate(irq_names):
                w(irq_periphs[n].trig, int(i == k and 1 <= ph <= WIN - 3))
            if k < len(irq_names) and 4 <= ph <= WIN - 3:
                irq_seen.setdefault(irq_names[k], set()).add(v[soc.cpu.interrupt])
            if k == len(irq_names) and ph == 4:
                irq_seen["<none>"] = {v[soc.cpu.interrupt]}
    bench = Bench(soc, max_cycles=len(ops) * 90 + 500 + WIN * (len(irq_names) + 2), tail=6, fingerprint=False)
    dev = Dev()
    ma = WBMaster(soc.tb, ops, name="cpu")
    bench.add(dev)
    bench.add(ma)
    bench.add(PortRecorder([s for _, s in storages], lambda t, row: rows.append(row)))
    bench.run()
    if not ma.done():
        V("bus_access_hung", "cpu", "bus access #%d %r not terminated after %d cycles" % (ma.idx, ops[ma.idx], bench.cycle["sys"]))
    res = {r["op"]: r for r in ma.results}
    sidx = {n: i for i, (n, _) in enumerate(storages)}
    multi = mems = 0
    for kind, name, val, i0, i1 in tests:
        if i1 not in res or i0 not in res:
            break
        if kind == "w":
            r, o = objs[name]
            before = rows[max(res[i0]["issue"] - 2, 0)]
            after = rows[min(res[i1]["done"] + 3, len(rows) - 1)]
            checks += len(storages)
            if after[sidx[name]] != val:
                V("register_not_written", name, "write of %#x through %s_write() (csr.h) left %s.storage = %#x" % (val, name, name, after[sidx[name]]))
            for n2, i2 in sidx.items():
                if n2 != name and after[i2] != before[i2]:
                    V("other_register_changed", n2, "writing %s through its accessor changed %s from %#x to %#x" % (name, n2, before[i2], after[i2]))
            if i1 > i0:
                multi += 1
        elif kind == "r":
            a = acc[name]
            got = 0
            for k, i in enumerate(range(i0, i1 + 1)):
                word = res[i]["dat_r"] & ((1 << bw) - 1)
                got = word if k == 0 else ((got << a["rshift"]) | word)
            checks += 1
            size = objs[name][0]["size"]
            if got & ((1 << size) - 1) != val:
                V("register_read_wrong", name, "%s_read() sequence (csr.h) returns %#x, register holds %#x" % (name, got, val))
        elif kind == "csrmem_w":
            # a write into a CSR memory window must not touch any register
            before = rows[max(res[i0]["issue"] - 2, 0)]
            after = rows[min(res[i1]["done"] + 3, len(rows) - 1)]
            checks += len(storages)
            for n2, i2 in sidx.items():
                if after[i2] != before[i2]:
                    V("other_register_changed", n2, "writing word %#x of CSR memory %s changed register %s from %#x to %#x" % (ops[i0]["adr"] << 2, name, n2, before[i2], after[i2]))
        elif kind == "csrmem_r":
            checks += 1
            if res[i1]["dat_r"] != val:
                V("csr_memory_window", name, "word written at the published address %#x of CSR memory %s reads back %#x (wrote %#x)" % (ops[i0]["adr"] << 2, name, res[i1]["dat_r"], val))
        elif kind == "mem":
            checks += 1
            mems += 1
            if res[i1]["dat_r"] != val:
                V("memory_region", name, "word written at %#x of region %s reads back %#x (wrote %#x)" % (ops[i0]["adr"] << 2, name, res[i1]["dat_r"], val))
        elif kind == "beyond":
            checks += 1
            # one word beyond the region: must not alias into the region (timeout answers all ones)
            pass
        elif kind == "rom":
            img = scn["rom"]["image"]
            for wd, i in enumerate(range(i0, i1 + 1)):
                word = res[i]["dat_r"]
                for k in range(4):
                    bi = wd * 4 + k
                    if bi >= len(img):
                        break
                    got = (word >> (8 * k)) & 0xff if scn["rom"]["endianness"] == "little" else (word >> (8 * (3 - k))) & 0xff
                    checks += 1
                    if got != img[bi]:
                        V("memory_image", name, "image byte %d (%#04x): a %s-endian CPU reads %#04x at bus address %#x" % (bi, img[bi], scn["rom"]["endianness"], got, rbase + bi))
                        break
                else:
                    continue
                break
    # ---- interrupts: the published number is the bit of the CPU's interrupt vector that the peripheral raises, and only that one
    for n in irq_names:
        checks += 1
        got = irq_seen.get(n)
        exp = 1 << irq_pub[n]
        if got != {exp}:
            V("interrupt_number", n, "soc.h publishes %s_INTERRUPT %d: with only the event of %s raised (and enabled) the interrupt vector is %s, expected %#x"
              % (n.upper(), irq_pub[n], n, sorted(hex(x) for x in (got or [])), exp))
    if irq_names and irq_seen.get("<none>") not in (None, {0}):
        V("interrupt_number", "cpu.interrupt", "interrupt vector is %s with no event raised" % sorted(hex(x) for x in irq_seen["<none>"]))
    regmap = sorted((n, i["addr"], i["size"]) for n, i in jregs.items())
    stats = {"cycles": bench.cycle["sys"], "checks": checks, "nontrivial": bool(multi and mems), "faults": {},
             "probes": {"registers_exported": len(jregs), "registers_exercised": len([t for t in tests if t[0] in ("w", "r")]),
                        "bus_" + p["bus_standard"]: 1, "csr_width_%d" % bw: 1, "ordering_" + p["csr_ordering"]: 1, "interrupts_exercised": len(irq_names)}}
    return {"violations": viols, "digest": hashlib.sha256(repr(regmap).encode()).hexdigest()[:16], "stats": stats}


def known_match(scn, v):
    if scn["params"].get("csr_data_width") == 8 and v["cls"] in ("register_not_written", "register_read_wrong", "other_register_changed"):
        return "C14-F1"
    if scn["params"].get("csr_ordering") == "little" and v["cls"] in ("register_not_written", "register_read_wrong", "other_register_changed"):
        return "C14-F2"
    return None
