"""C09, family 'adapter': the chains that litex.soc.integration.soc.SoCBusHandler.add_adapter() builds between an
interface of one standard / addressing and the bus standard (addressing conversion, standard bridges), in both
directions (m2s: a master's interface adapted to the bus; s2m: the bus adapted to a peripheral's interface).
Data widths 16/32/64 on the interface and 32/64 on the bus (add_adapter then chains data-width converter, addressing
conversion and standard bridge); memory semantics oracle: every read
returns, per byte, the last enabled write (or the initial content), the store ends up with the written bytes, every
request gets one response, and the slave side sees only protocol-legal traffic (the agents' own monitors)."""
from dsim import prng
from dsim.kernel import Bench, wrap_top
from dsim.axil_agents import AXILMaster, AXILSlave
from dsim.axi_agents import AXIMaster, AXISlave
from dsim.wb_agents import WBMaster, WBSlave

KINDS = ["wishbone", "wishbone-byte", "axi-lite", "axi"]


def hb(b):
    return ((b * 2246822519) >> 9) & 0xff


def generate(rng, tier):
    direction = rng.choice(["m2s", "m2s", "s2m"])
    bus_std = rng.choice(["wishbone", "axi-lite", "axi"])
    iface = rng.choice([k for k in KINDS if k != bus_std])
    n = rng.randint(15, 45)
    base = rng.choice([0, 0x100, 0x400000])
    # data widths: mostly equal (no converter), otherwise the interface wider or narrower than the bus
    dw_bus = rng.choice([32, 32, 32, 64])
    dw_if = rng.choice([dw_bus, dw_bus, 16, 32, 64])
    dw_m, dw_s = (dw_if, dw_bus) if direction == "m2s" else (dw_bus, dw_if)
    if iface == "axi" and dw_m < dw_s:
        dw_if = dw_bus          # (AXIUpConverter only takes bursts that fill whole wide words: C10's subject, not single beats)
        dw_m = dw_s = dw_bus
    if iface == "wishbone-byte" and dw_if != dw_bus:
        iface = "wishbone"      # (wishbone.Converter asserts word addressing)
    nbm = dw_m // 8
    full = (1 << nbm) - 1
    ops = []
    for _ in range(n):
        word = base + rng.randrange(8)
        if rng.random() < 0.5:
            strb = full if rng.random() < 0.5 else rng.choice([rng.getrandbits(nbm), 1 << rng.randrange(nbm), full & 0x0f0f0f0f, full ^ 1])
            ops.append({"kind": "w", "word": word, "data": rng.getrandbits(dw_m), "strb": strb, "gap": rng.choice([0, 0, 1, 3])})
        else:
            ops.append({"kind": "r", "word": word, "gap": rng.choice([0, 0, 1, 3])})
    # (AXILiteUpConverter with more than one request outstanding: listed finding C09-F2)
    one = iface == "axi-lite" and dw_m < dw_s
    return {"family": "adapter", "params": {"family": "adapter", "direction": direction, "bus": bus_std, "iface": iface, "dw_if": dw_if, "dw_bus": dw_bus},
            "ops": ops, "max_out": 1 if one else rng.choice([1, 1, 2]),
            "bready": prng.pattern(rng, 300, rng.choice([1.0, 0.6, 0.3])), "rready": prng.pattern(rng, 300, rng.choice([1.0, 0.6, 0.3])),
            "slave": {"aw": prng.pattern(rng, 300, rng.choice([1.0, 0.7, 0.3])), "w": prng.pattern(rng, 300, rng.choice([1.0, 0.7, 0.3])),
                      "ar": prng.pattern(rng, 300, rng.choice([1.0, 0.7, 0.3])), "lat": [rng.choice([0, 1, 3, 7]) for _ in range(8)],
                      # (AXI -> AXI-Lite needs a one-request-at-a-time lite slave that takes the address first: listed finding C09-F4)
                      "depth": 1, "wb_lat": [rng.choice([1, 1, 2, 5]) for _ in range(8)]}}


def mk_iface(kind, dw=32):
    from litex.soc.interconnect import wishbone, axi
    if kind == "wishbone":
        return wishbone.Interface(data_width=dw, address_width=32, addressing="word")
    if kind == "wishbone-byte":
        return wishbone.Interface(data_width=dw, address_width=32, addressing="byte")
    if kind == "axi-lite":
        return axi.AXILiteInterface(data_width=dw, address_width=32)
    return axi.AXIInterface(data_width=dw, address_width=32, id_width=1)


def kind_of(iface):
    from litex.soc.interconnect import wishbone, axi
    if isinstance(iface, wishbone.Interface):
        return "wishbone-byte" if iface.addressing == "byte" else "wishbone"
    if isinstance(iface, axi.AXILiteInterface):
        return "axi-lite"
    return "axi"


def run(scn):
    import logging
    logging.disable(logging.CRITICAL)
    from migen import Module
    from litex.soc.integration.soc import SoCBusHandler
    p = scn["params"]
    viols = []

    def V(cls, obs, msg, cycle=None):
        if len(viols) < 5:
            viols.append({"prop": "C09", "cls": cls, "observable": obs, "msg": msg, "cycle": cycle})
    dw_if, dw_bus = p.get("dw_if", 32), p.get("dw_bus", 32)
    handler = SoCBusHandler(standard=p["bus"], data_width=dw_bus, address_width=32)
    iface = mk_iface(p["iface"], dw_if)
    adapted = handler.add_adapter("dut", iface, direction=p["direction"])
    top = Module()
    top.submodules.handler = handler
    m_if, s_if = (iface, adapted) if p["direction"] == "m2s" else (adapted, iface)
    mk, sk = kind_of(m_if), kind_of(s_if)
    nbm, nbs = m_if.data_width // 8, s_if.data_width // 8
    lm, ls = (nbm - 1).bit_length(), (nbs - 1).bit_length()
    fullm = (1 << nbm) - 1
    ops = scn["ops"]
    bench = Bench(wrap_top(top), max_cycles=len(ops) * 80 + 500, tail=8, fingerprint=False)
    # ---- master
    if mk.startswith("wishbone"):
        sh = lm if mk == "wishbone-byte" else 0
        mops = [{"we": int(o["kind"] == "w"), "adr": o["word"] << sh, "dat": o.get("data", 0), "sel": o.get("strb", fullm) if o["kind"] == "w" else fullm,
                 "gap": o["gap"], "keep_cyc": 0} for o in ops]
        ma = bench.add(WBMaster(m_if, mops, name="m"))
    elif mk == "axi-lite":
        mops = []
        for o in ops:
            if o["kind"] == "w":
                mops.append({"kind": "w", "addr": o["word"] * nbm, "data": o["data"], "strb": o["strb"], "aw_gap": o["gap"], "w_gap": o["gap"] // 2})
            else:
                mops.append({"kind": "r", "addr": o["word"] * nbm, "ar_gap": o["gap"]})
        ma = bench.add(AXILMaster(m_if, mops, name="m", max_out=scn["max_out"], bready=scn["bready"], rready=scn["rready"],
                                  hazard=True, word_shift=lm, hazard_key=lambda a: a >> lm))
    else:
        mops = []
        for o in ops:
            if o["kind"] == "w":
                mops.append({"kind": "w", "addr": o["word"] * nbm, "len": 0, "size": lm, "burst": 1, "id": 0, "data": [o["data"]], "strb": [o["strb"]],
                             "gap": o["gap"], "wgaps": [o["gap"] // 2]})
            else:
                mops.append({"kind": "r", "addr": o["word"] * nbm, "len": 0, "size": lm, "burst": 1, "id": 0, "gap": o["gap"]})
        ma = bench.add(AXIMaster(m_if, mops, name="m", max_out=scn["max_out"], bready=scn["bready"], rready=scn["rready"], hazard_key=lambda a: a >> lm))
    # ---- slave (memory)
    sc = scn["slave"]
    if sk.startswith("wishbone"):
        shs = ls if sk == "wishbone-byte" else 0
        sa = bench.add(WBSlave(s_if, sc["wb_lat"], name="s", init=lambda a, shs=shs: sum(hb((a >> shs) * nbs + i) << (8 * i) for i in range(nbs))))
        sa.key_shift = shs
        store_byte = lambda b_, shs=shs: (sa.read_word((b_ >> ls) << shs) >> (8 * (b_ & (nbs - 1)))) & 0xff  # noqa
    elif sk == "axi-lite":
        sa = bench.add(AXILSlave(s_if, name="s", awready="" if mk == "axi" else sc["aw"], wready=sc["w"], arready=sc["ar"], lat=sc["lat"],
                                 depth=sc["depth"], read_data=lambda a: sum(hb(a + i) << (8 * i) for i in range(nbs)), memory=True))
        store_byte = lambda b_: (sa._rdata(b_ & ~(nbs - 1)) >> (8 * (b_ & (nbs - 1)))) & 0xff  # noqa
    else:
        sa = bench.add(AXISlave(s_if, name="s", awready=sc["aw"], wready=sc["w"], arready=sc["ar"], lat=sc["lat"], depth=max(sc["depth"], 2), init=hb))
        store_byte = sa.rbyte
    bench.run()
    if bench.violation is not None:
        viols.append(dict(bench.violation.as_dict(), prop="C09"))
    # ---- results in program order
    checks = 0
    raw = 0
    ref = {}
    if not ma.done():
        V("no_response", "master", "not every request was answered after %d cycles (%s master through add_adapter(%s) to a %s %s)"
          % (bench.cycle["sys"], mk, p["direction"], sk, "bus" if p["direction"] == "m2s" else "peripheral"))
    wi = ri = 0
    for k, o in enumerate(ops):
        if mk.startswith("wishbone"):
            r = next((x for x in ma.results if x["op"] == k), None)
            if r is None:
                break
            ok, data = (not r["err"]), r["dat_r"]
        elif mk == "axi-lite":
            if o["kind"] == "w":
                if wi >= len(ma.log["b"]):
                    break
                ok, data = ma.log["b"][wi][1] == 0, None
                wi += 1
            else:
                if ri >= len(ma.log["r"]):
                    break
                ok, data = ma.log["r"][ri][2] == 0, ma.log["r"][ri][1]
                ri += 1
        else:
            if o["kind"] == "w":
                if wi >= len(ma.b_log):
                    break
                ok, data = ma.b_log[wi][1] == 0, None
                wi += 1
            else:
                if ri >= len(ma.r_log):
                    break
                beats = ma.r_log[ri]
                ok, data = (len(beats) == 1 and beats[0][2] == 0 and bool(beats[0][3])), beats[0][1] if beats else 0
                ri += 1
        checks += 1
        if not ok:
            V("error_response", "master", "op #%d (%s word %#x) answered with an error / malformed response; the slave never errs" % (k, o["kind"], o["word"]))
            break
        for i in range(nbm):
            b_ = o["word"] * nbm + i
            if o["kind"] == "w":
                if (o["strb"] >> i) & 1:
                    ref[b_] = (o["data"] >> (8 * i)) & 0xff
            else:
                exp = ref.get(b_, hb(b_))
                checks += 1
                raw += b_ in ref
                if (data >> (8 * i)) & 0xff != exp:
                    V("read_data", "master", "op #%d read of word %#x lane %d: got %#04x expected %#04x (%s)"
                      % (k, o["word"], i, (data >> (8 * i)) & 0xff, exp, "written earlier" if b_ in ref else "initial content"))
                    break
        else:
            continue
        break
    for agent, side in ((ma, "master"), (sa, "slave")):
        for (t, ch, what) in getattr(agent, "proto", [])[:2]:
            V("protocol_%s_side" % side, "%s.%s" % (side, ch), "cycle %d: %s" % (t, what), t)
    for (t, what) in getattr(sa, "errors", [])[:2]:
        V("burst_structure", "slave.w", "cycle %d: %s" % (t, what), t)
    if not viols:
        for b_, val in ref.items():
            checks += 1
            if store_byte(b_) != val:
                V("store_content", "slave memory", "store byte %#x holds %#04x, reference %#04x" % (b_, store_byte(b_), val))
                break
    stats = {"cycles": bench.cycle["sys"], "checks": checks, "nontrivial": bool(raw and len(ops) >= 10),
             "faults": {"stall_cycles": getattr(ma, "wait_cycles", 0) or (sum(ma.stall.values()) if isinstance(getattr(ma, "stall", None), dict) else getattr(ma, "stall", 0))},
             "probes": {"adapter_%s_%s_to_%s" % (p["direction"], mk, sk): 1, "read_after_write_lanes": raw,
                        "adapter_width_%s" % ("same" if nbm == nbs else "down" if nbm > nbs else "up"): 1}}
    return {"violations": viols, "digest": bench.digest(), "stats": stats}
