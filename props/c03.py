"""C03 - Stream elements deliver each token exactly once, in order, rightly transformed."""
from props import streams

PROPERTY = "C03"
LEVEL = "exploration"
RULE = ("one run = one real stream element (or 2-3 element composition) built with seeded parameters, a seeded token "
        "sequence and literal offer/accept patterns for producer(s) and consumer(s); the recorded source handshakes are "
        "compared field by field with reference(recorded sink handshakes). A run is non-trivial when the producer was "
        "stalled at least once, the consumer stalled a valid token at least once and at least one token was delivered; "
        "distinct = distinct digest of the handshake event log")
ASSUMPTIONS = [
    "producers are legal: valid and token held until accepted; payload/param/first/last are don't-care (garbage in half "
    "of the runs) while valid=0",
    "agents are registered partners (ready does not depend combinationally on valid)",
    "Gearbox/Shifter carry no first/last (masked); unloaded chunks of a flushed up-converter/Pack word are masked",
    "the tracer shim (Python 3.12 variable-name extraction) is harness code",
]
COMPONENTS = {"real": ["litex.soc.interconnect.stream.*", "litex.gen.sim.core.Simulator/Evaluator",
                       "migen.genlib.fifo.SyncFIFO/SyncFIFOBuffered"],
              "stub": ["producer/consumer/controller agents", "clock source (SeededClocks)", "tracer shim"]}
CHUNK = 8

QUICK = 250
THOROUGH = 6000


SEEDED_SCALE = {"quick": 1.5, "thorough": 2}      # multiplies the run counts of the sampled families in plan()

def plan(tier):
    n = QUICK if tier == "quick" else THOROUGH
    return [(f, n) for f in streams.FAMILIES]


def generate(family, rng, tier):
    return streams.generate(family, rng, tier)


def run(scn):
    return streams.run(scn)


def known_match(scn, v):
    return None
