"""C15, client family: litex.soc.cores.gpio.GPIOIn(with_irq=True) - per-pin interrupt mode (edge / change) and edge
polarity registers in front of an EventManager - behind a real CSRBank. Pads follow literal change lists, software
writes mode / edge / enable / pending at literal cycles. The per-cycle oracle works on the recorded values of the
core's own synchronised input, so it does not depend on the synchroniser's latency."""
from dsim.kernel import Bench, wrap_top, Agent
from dsim.wb_agents import PortRecorder


def generate(rng, tier):
    n = rng.choice([1, 2, 3, 4, 8])
    ncyc = rng.randint(80, 220)
    waves = []
    for _ in range(n):
        ev, t, v = [], rng.randint(1, 10), 0
        while t < ncyc:
            v ^= 1
            ev.append([t, v])
            t += rng.choice([1, 2, 3, 5, 9, 20])
        waves.append(ev)
    sw, t = [[1, "mode", rng.getrandbits(n)], [2, "edge", rng.getrandbits(n)], [3, "enable", rng.getrandbits(n) | 1]], rng.randint(8, 20)
    while t < ncyc - 6:
        r = rng.random()
        if r < 0.4:
            sw.append([t, "pending", rng.getrandbits(n) if rng.random() < 0.6 else (1 << rng.randrange(n))])
        elif r < 0.6:
            sw.append([t, "mode", rng.getrandbits(n)])
        elif r < 0.8:
            sw.append([t, "edge", rng.getrandbits(n)])
        else:
            sw.append([t, "enable", rng.getrandbits(n)])
        t += rng.choice([3, 5, 8, 13, 30])
    return {"family": "gpio", "params": {"n": n}, "waves": waves, "sw": sw, "ncyc": ncyc}


def run(scn):
    from migen import Module, Signal
    from litex.soc.cores.gpio import GPIOIn
    from litex.soc.interconnect import csr_bus
    n = scn["params"]["n"]
    pads = Signal(n, name="pads")
    dut = GPIOIn(pads, with_irq=True)
    top = Module()
    top.submodules.dut = dut
    bus = csr_bus.Interface(data_width=32, address_width=14)
    top.submodules.bank = bank = csr_bus.CSRBank(dut.get_csrs(), address=0, bus=bus, ordering="big")
    adr = {}
    for i, c in enumerate(bank.simple_csrs):
        adr[c.name] = i
    reg = {key: next(k for k in adr if key in k) for key in ("mode", "edge", "enable", "pending")}
    srcs = [getattr(dut.ev, "i%d" % i) for i in range(n)]
    ncyc = scn["ncyc"]
    sw = {e[0]: e for e in scn["sw"]}
    chg = {}
    for i, wv in enumerate(scn["waves"]):
        for t, v in wv:
            chg.setdefault(t, []).append((i, v))

    class Env(Agent):
        reads = ()

        def __init__(s_):
            s_.t = 0
            s_.val = 0

        def done(s_):
            return s_.t >= ncyc

        def step(s_, v, t, w):
            s_.t = t
            if t in chg:
                for i, b in chg[t]:
                    s_.val = (s_.val & ~(1 << i)) | (b << i)
                w(pads, s_.val)
            w(bus.we, 0)
            if t in sw:
                _, name, val = sw[t]
                w(bus.adr, adr[reg[name]])
                w(bus.dat_w, val)
                w(bus.we, 1)
    bench = Bench(wrap_top(top), max_cycles=ncyc + 8, tail=2, fingerprint=False)
    bench.add(Env())
    rows = []
    sigs = [dut._in.status, dut._mode.storage, dut._edge.storage, dut.ev.irq, dut.ev.enable.storage]
    for s in srcs:
        sigs += [s.trigger, s.pending, s.clear]
    bench.add(PortRecorder(sigs, lambda t, row: rows.append(row)))
    bench.run()
    viols = []

    def V(cls, obs, msg, cycle=None):
        if len(viols) < 4:
            viols.append({"prop": "C15", "cls": cls, "observable": obs, "msg": msg, "cycle": cycle})
    checks = 0
    events = lost = 0
    modes_seen = set()
    for k in range(1, len(rows)):
        st, mode, edge, irq, en = rows[k][:5]
        st_d = rows[k - 1][0]
        pmask = 0
        for i in range(n):
            trig, pend, clr = rows[k][5 + 3 * i:8 + 3 * i]
            b, bd, m, e = (st >> i) & 1, (st_d >> i) & 1, (mode >> i) & 1, (edge >> i) & 1
            # GPIO IRQ Mode: 0 = Edge, 1 = Change.  Edge: 0 = rising, 1 = falling (the event fires on the rising edge of the trigger)
            exp = (b ^ bd) if m else (b ^ e)
            checks += 1
            if trig != exp:
                V("gpio_trigger", "i%d.trigger" % i, "cycle %d: pin %d = %d (was %d), mode=%s, edge=%s: trigger is %d, expected %d"
                  % (k, i, b, bd, "change" if m else "edge", "falling" if e else "rising", trig, exp), k)
            pmask |= pend << i
            # an event (rising edge of the trigger) is pending one cycle later, whatever software clears meanwhile
            ptrig = rows[k - 1][5 + 3 * i]
            if trig and not ptrig and k + 1 < len(rows):
                events += 1
                modes_seen.add((m, e))
                checks += 1
                if not rows[k + 1][6 + 3 * i]:
                    lost += 1
                    V("event_lost", "i%d.pending" % i, "cycle %d: pin %d raised its event (mode=%s edge=%s), pending is 0 in the next cycle"
                      % (k, i, "change" if m else "edge", "falling" if e else "rising"), k)
        checks += 1
        if irq != int(bool(pmask & en)):
            V("irq_wrong", "ev.irq", "cycle %d: irq=%d, pending=%#x enable=%#x" % (k, irq, pmask, en), k)
        if viols:
            break
    stats = {"cycles": len(rows), "checks": checks, "nontrivial": events >= 3 and len(modes_seen) >= 2,
             "faults": {"sw_access": len(scn["sw"])}, "probes": {"gpio_events": events, "gpio_pins": n}}
    return {"violations": viols, "digest": bench.digest() if bench.log else __import__("hashlib").sha256(repr(rows).encode()).hexdigest()[:16], "stats": stats}
