"""C18 - ECC corrects every single-bit error and flags every double-bit error.

Simulated system: an ECC-protected store. The real ECCEncoder produces code words (one simulation),
they sit in a harness-owned memory where the fault injector flips stored bits, the real ECCDecoder
reads them back (second simulation). Fault space: every single position and every position pair
(parity bit included) - enumerated, in slices - plus enable=0 pass-through."""
import hashlib

from dsim.kernel import Bench, wrap_top, Agent

PROPERTY = "C18"
LEVEL = "fault_enumeration"
RULE = ("one run = one data width k, a list of data words and a slice [a,b) of first flip positions: the zero-flip word, "
        "every single flip at i in [a,b) and every pair (i,j), i in [a,b), j>i, are injected into the stored code word "
        "(parity bit included) and decoded by the real ECCDecoder; family 'disabled' checks enable=0 pass-through with "
        "single/double flips; family 'history' builds and sweeps 2-4 codecs of different widths one after the other in one process.  Data words: exhaustive for k<=6 (quick) / k<=10 (thorough), otherwise the linear basis "
        "(zero, all-ones, unit vectors - all of them up to 32 bits, eight spread positions beyond) plus seeded random words. Non-trivial = at least one double flip decoded; distinct = "
        "digest of (k, words, slice)")
ASSUMPTIONS = [
    "the codecs are combinational: the time axis (store, flip, read back) belongs to the harness",
    "for k>10 sufficiency of the basis rests on linearity of the code (syndrome depends on the error pattern only)",
    "position 0 of the code word is the overall parity bit (ECCEncoder.o = Cat(parity, codeword)); 'data or check bit' = any "
    "other position",
]
COMPONENTS = {"real": ["litex.soc.cores.ecc.ECCEncoder", "litex.soc.cores.ecc.ECCDecoder", "litex.gen.sim.core.Simulator"],
              "stub": ["ECC-protected store (harness memory) with bit-flip injector", "clock source"]}
CHUNK = 1
RUN_TIMEOUT = 900


def m_n(k):
    m = 1
    while 2 ** m < m + k + 1:
        m += 1
    return m, m + k


def words_for(k, rng, tier, nrand):
    if k <= (6 if tier == "quick" else 10):
        return list(range(2 ** k)), True
    units = range(k) if k <= 32 else sorted({0, 1, 2, k // 3, k // 2, k - 3, k - 2, k - 1})       # (every unit vector up to 32 bits, a spread beyond: a wide
    #                                                                                          sweep with all 128 unit vectors costs CPU-hours per width)
    ws = [0, (1 << k) - 1] + [1 << i for i in units] + [rng.getrandbits(k) for _ in range(nrand)]
    return ws, False


QUICK_K = [1, 2, 3, 4, 5, 6, 8, 11, 12, 15, 16, 26, 27, 32, 57, 58, 64]      # (2^m-m-1 and 2^m-m: the widths at which the number of check bits changes)
THOROUGH_K = list(range(1, 33)) + [40, 48, 57, 58, 64, 72, 96, 120, 121, 128]      # all widths up to 32, then the common ones (all 1..128 took > 90 min)


def _slices(k, tier):
    """Work units (k, word subset index, a, b) so that each run costs roughly the same."""
    m, n = m_n(k)
    nb = n + 1
    units = []
    if tier == "quick":
        per = 4 if k <= 16 else (8 if k <= 32 else 16)
    else:
        per = 4 if k <= 16 else (8 if k <= 40 else (16 if k <= 80 else 32))
    step = max(1, -(-nb // per))
    for a in range(0, nb, step):
        units.append((a, min(nb, a + step)))
    return units


def plan(tier):
    ks = QUICK_K if tier == "quick" else THOROUGH_K
    n = sum(len(_slices(k, tier)) for k in ks)
    return [("sweep", n), ("disabled", len(ks)), ("history", 24 if tier == "quick" else 400)]


HISTORY_K = [1, 2, 3, 4, 5, 7, 8, 11, 12, 13, 16, 20, 26, 27, 32]


def generate_indexed(family, index, rng, tier):
    ks = QUICK_K if tier == "quick" else THOROUGH_K
    if family == "history":
        # several codecs of different widths built and used one after the other in the same process (as a SoC with several ECC
        # memories does): nothing a codec computes may depend on which widths were elaborated before it
        seq = []
        for k in [rng.choice(HISTORY_K) for _ in range(rng.randint(2, 4))]:
            m, n = m_n(k)
            ws = [rng.getrandbits(k) | (1 << (k - 1)), rng.getrandbits(k)] if k <= 16 else [rng.getrandbits(k) | (1 << (k - 1))]
            seq.append({"family": "sweep", "k": k, "words": ws, "slice": [0, n + 1], "exhaustive_words": False})
        return {"family": "history", "seq": seq}
    if family == "disabled":
        k = ks[index % len(ks)]
        m, n = m_n(k)
        ws = [0, (1 << k) - 1, rng.getrandbits(k), rng.getrandbits(k)]
        flips = [[]] + [[i] for i in range(n + 1)] + [sorted(rng.sample(range(n + 1), 2)) for _ in range(min(40, n))]
        return {"family": "disabled", "k": k, "words": ws, "faults": flips}
    i = index
    for k in ks:
        sl = _slices(k, tier)
        if i < len(sl):
            a, b = sl[i]
            ws, exhaustive = words_for(k, rng, tier, 1 if tier == "quick" else 6)
            if tier == "quick" and not exhaustive:
                # three basis words per slice in quick: zero, all-ones/one unit vector, one random
                ws = [0, ws[1] if i % 2 == 0 else ws[2 + (i * 7) % max(1, len(ws) - 3)], ws[-1]]
            return {"family": "sweep", "k": k, "words": ws, "slice": [a, b], "exhaustive_words": exhaustive}
        i -= len(sl)
    raise IndexError(index)


def generate(family, rng, tier):
    return generate_indexed(family, rng.randrange(10 ** 6) % dict(plan(tier))[family], rng, tier)


class Feeder(Agent):
    """Drives a list of input vectors into comb logic, one per cycle, and records outputs."""

    def __init__(self, ins, outs, vectors):
        self.ins, self.outs, self.vectors = ins, outs, vectors
        self.reads = tuple(outs)
        self.i = 0
        self.results = []

    def done(self):
        return self.i > len(self.vectors)

    def step(self, v, t, w):
        if 0 < self.i <= len(self.vectors):
            self.results.append(tuple(v[s] for s in self.outs))
        if self.i < len(self.vectors):
            for s, val in zip(self.ins, self.vectors[self.i]):
                w(s, val)
        self.i += 1


def sim_comb(module, ins, outs, vectors):
    b = Bench(wrap_top(module), max_cycles=len(vectors) + 8, tail=0, fingerprint=False)
    f = b.add(Feeder(ins, outs, vectors))
    b.run()
    assert len(f.results) == len(vectors), (len(f.results), len(vectors))
    return f.results, b.cycle["sys"]


def run(scn):
    from dsim import boot
    from litex.soc.cores.ecc import ECCEncoder, ECCDecoder
    if scn["family"] == "history":
        out = None
        for sub in scn["seq"]:
            r = run(sub)
            if out is None:
                out = r
            else:
                out["violations"] += r["violations"]
                for key in ("cycles", "checks"):
                    out["stats"][key] += r["stats"][key]
                for key in ("faults", "probes"):
                    for a, b in r["stats"][key].items():
                        out["stats"][key][a] = out["stats"][key].get(a, 0) + b
        for v in out["violations"]:
            v["msg"] = "widths built in this process, in order: %s; %s" % ([x["k"] for x in scn["seq"]], v["msg"])
        out["violations"] = out["violations"][:3]
        out["stats"]["probes"]["history_runs"] = 1
        out["digest"] = hashlib.sha256(repr([(x["k"], x["words"]) for x in scn["seq"]]).encode()).hexdigest()[:16]
        return out
    k = scn["k"]
    m, n = m_n(k)
    nb = n + 1
    viol = []

    def V(cls, obs, msg):
        if len(viol) < 3:
            viol.append({"prop": "C18", "cls": cls, "observable": obs, "msg": msg, "cycle": None})
    enc = ECCEncoder(k)
    if len(enc.o) != nb:
        V("codeword_width", "encoder.o", "k=%d: code word has %d bits, expected n+1=%d" % (k, len(enc.o), nb))
    cws, c1 = sim_comb(enc, [enc.i], [enc.o], [[w] for w in scn["words"]])
    cws = [c[0] for c in cws]
    boot.reset_globals()
    dec = ECCDecoder(k)
    cases = []      # (word index, flips)
    if scn["family"] == "sweep":
        a, b = scn["slice"]
        for wi in range(len(scn["words"])):
            cases.append((wi, ()))
            for i in range(a, b):
                cases.append((wi, (i,)))
                for j in range(i + 1, nb):
                    cases.append((wi, (i, j)))
        enable = 1
    else:
        for wi in range(len(scn["words"])):
            for fl in scn["faults"]:
                cases.append((wi, tuple(fl)))
        enable = 0
    vectors = []
    for wi, fl in cases:
        x = cws[wi]
        for p in fl:
            x ^= 1 << p
        vectors.append([x, enable])
    probes = []
    if not enable:
        probes = [[1 << p, 0] for p in range(nb)]
    res, c2 = sim_comb(dec, [dec.i, dec.enable], [dec.o, dec.sec, dec.ded], vectors + probes)
    checks = 0
    nf = {0: 0, 1: 0, 2: 0}
    if enable:
        for (wi, fl), (o, sec, ded) in zip(cases, res):
            w_ = scn["words"][wi]
            checks += 1
            nf[len(fl)] += 1
            if len(fl) == 0:
                if o != w_ or sec or ded:
                    V("clean_word_wrong", "decoder", "k=%d data=%#x no flip: o=%#x sec=%d ded=%d" % (k, w_, o, sec, ded))
            elif len(fl) == 1:
                want_sec = int(fl[0] != 0)
                if o != w_:
                    V("single_not_corrected", "decoder.o", "k=%d data=%#x flip@%d: o=%#x" % (k, w_, fl[0], o))
                elif ded:
                    V("single_flagged_ded", "decoder.ded", "k=%d data=%#x flip@%d: ded=1" % (k, w_, fl[0]))
                elif sec != want_sec:
                    V("sec_flag_wrong", "decoder.sec", "k=%d data=%#x flip@%d: sec=%d, expected %d" % (k, w_, fl[0], sec, want_sec))
            else:
                if not ded or sec:
                    V("double_not_flagged", "decoder.ded", "k=%d data=%#x flips@%s: sec=%d ded=%d o=%#x" % (k, w_, list(fl), sec, ded, o))
    else:
        # learn the data-bit map from one-hot probes (enable=0), then demand pass-through
        pmap = {}
        for p, (o, sec, ded) in zip(range(nb), res[len(cases):]):
            pmap[p] = o
        data_pos = [p for p in range(nb) if pmap[p]]
        checks += 1
        if len(data_pos) != k or sorted(pmap[p] for p in data_pos) != [1 << i for i in range(k)]:
            V("passthrough_map", "decoder.o", "k=%d: enable=0 does not map exactly k code word positions one-to-one to data bits: %r"
              % (k, {p: pmap[p] for p in data_pos}))
        else:
            for (wi, fl), (o, sec, ded) in zip(cases, res):
                w_ = scn["words"][wi]
                exp = w_
                for p in fl:
                    exp ^= pmap[p]
                checks += 1
                nf[min(len(fl), 2)] += 1
                if o != exp or sec or ded:
                    V("disabled_not_passthrough", "decoder", "k=%d data=%#x flips@%s enable=0: o=%#x (stored data bits %#x) sec=%d ded=%d"
                      % (k, w_, list(fl), o, exp, sec, ded))
                    break
    stats = {"cycles": c1 + c2, "checks": checks, "nontrivial": nf[2] > 0,
             "faults": {"bit_flip_0": nf[0], "bit_flip_1": nf[1], "bit_flip_2": nf[2]},
             "probes": {"k_%d" % k: 1}}
    dg = hashlib.sha256(repr((scn["family"], k, scn["words"][:8], len(scn["words"]), scn.get("slice"))).encode()).hexdigest()[:16]
    return {"violations": viol, "digest": dg, "stats": stats}


def extra_coverage(results):
    ks = set()
    for r in results:
        for p in r.get("stats", {}).get("probes", {}):
            if p.startswith("k_"):
                ks.add(int(p[2:]))
    return {"data_widths_covered": sorted(ks),
            "exhaustive": False,
            "enumeration_note": "per covered k: every single flip position and every position pair of the code word were "
                                "injected for each listed data word (the union of the slices covers [0,n+1)); data words are "
                                "exhaustive only for small k (see rule)"}
