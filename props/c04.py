"""C04 - Stream elements keep the handshake contract and never stall forever (same runs as C03
plus the packet blocks of C16; separate oracle: online stability monitor and bounded progress)."""
from props import streams, c03

PROPERTY = "C04"
LEVEL = "exploration"
RULE = ("same simulations as C03 (every stream element and 2-3 element compositions, seeded parameters, literal "
        "offer/accept patterns, garbage while idle) and as C16 for the packet blocks; online monitor on every source: "
        "valid & ~ready at t implies valid and an unchanged token at t+1 (armed while the producer and the control "
        "inputs were steady); bounded progress: after the pattern horizon producer and consumer cooperate (consumer "
        "ready every k-th cycle, k drawn from 1,2,3,7) and every token must be accepted and delivered within the "
        "bound. Non-trivial = both sides stalled at least once and a token was delivered; distinct = distinct "
        "handshake-log digest")
ASSUMPTIONS = c03.ASSUMPTIONS + [
    "progress bound B = horizon + 2*k*(tokens*ratio + 64) + 64 cycles (k = consumer period in the tail)",
    "elements that pass valid combinationally are checked under a steady producer and steady control inputs",
]
COMPONENTS = c03.COMPONENTS
CHUNK = 8


SEEDED_SCALE = {"quick": 1, "thorough": 1.5}      # multiplies the run counts of the sampled families in plan()

def plan(tier):
    from props import c16
    return c03.plan(tier) + [("pkt:" + f, n) for f, n in c16.plan(tier)]


def generate(family, rng, tier):
    if family.startswith("pkt:"):
        from props import c16
        scn = c16.generate(family[4:], rng, tier)
        scn["family"] = family
        return scn
    return c03.generate(family, rng, tier)


def run(scn):
    if scn["family"].startswith("pkt:"):
        from props import c16
        s2 = dict(scn)
        s2["family"] = scn["family"][4:]
        return c16.run(s2)
    return c03.run(scn)


def known_match(scn, v):
    return None
