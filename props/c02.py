"""C02 - Verilog identifiers are unique, legal and reproducible.

No clock and no fault here (stated in DESIGN.md): what the property quantifies over is the ORDER in which
names are requested from a shared stateful allocator (SignalNamespace.counts/sigs) and the interpreter's
hash order between two runs. Families: ns (real build_signal_namespace + get_name under seeded request
orders on signal sets with explicit back-traces / related chains / overrides / reserved words), convert
(real convert() on small designs: declarations unique, legal, not reserved; text identical in fresh
interpreters under different PYTHONHASHSEED)."""
import hashlib
import json
import os
import re
import subprocess
import sys

PROPERTY = "C02"
LEVEL = "exploration"
RULE = ("ns: one run = one seeded signal set (hierarchical back-traces of depth 1-5 with repeated (name, index) steps, siblings "
        "with equal leaf names, related-signal chains, name overrides colliding with each other / with generated names / with "
        "generated suffixed names such as x_1 / with reserved words / differing only in a trailing digit) and a literal "
        "request order with repeats; after every request the map signal->name must be injective and stable, names legal and "
        "not reserved. convert: one run = a batch of small designs converted by the real backend in three fresh interpreters "
        "(PYTHONHASHSEED 0/1/12345, same program): declarations unique/legal/not reserved and texts identical apart "
        "from the date lines. Non-trivial = the set contains at least one collision candidate (equal leaf names, override "
        "clash or reserved word); distinct = digest of the resulting name table")
ASSUMPTIONS = [
    "reserved words are checked against the harness's own list (typed from IEEE 1364-2005 / 1800-2017 keywords the author is "
    "certain of), not against the list of the code under test",
    "explicit back-traces are set on Signal.backtrace (the check does not depend on the bytecode tracer)",
    "no time axis and no fault kinds (DESIGN.md 5.C02)",
]
COMPONENTS = {"real": ["litex.gen.fhdl.namer.build_signal_namespace/SignalNamespace", "litex.gen.fhdl.verilog.convert"],
              "stub": ["name requesters (emitters/back-ends) as a literal request order", "fresh interpreters with chosen PYTHONHASHSEED"]}
CHUNK = 50

KEYWORDS = """always and assign automatic begin buf bufif0 bufif1 case casex casez cell cmos config deassign default defparam design
disable edge else end endcase endconfig endfunction endgenerate endmodule endprimitive endspecify endtable endtask event for force forever
fork function generate genvar highz0 highz1 if ifnone incdir include initial inout input instance integer join large liblist library
localparam macromodule medium module nand negedge nmos nor noshowcancelled not notif0 notif1 or output parameter pmos posedge primitive
pull0 pull1 pulldown pullup pulsestyle_onevent pulsestyle_ondetect rcmos real realtime reg release repeat rnmos rpmos rtran rtranif0
rtranif1 scalared showcancelled signed small specify specparam strong0 strong1 supply0 supply1 table task time tran tranif0 tranif1 tri
tri0 tri1 triand trior trireg unsigned use uwire vectored wait wand weak0 weak1 while wire wor xnor xor
alias always_comb always_ff always_latch assert assume before bind bins binsof bit break byte chandle class clocking const constraint
context continue cover covergroup coverpoint cross dist do endclass endclocking endgroup endinterface endpackage endprogram endproperty
endsequence enum expect export extends extern final first_match foreach forkjoin iff ignore_bins illegal_bins import inside int interface
intersect join_any join_none local logic longint matches modport new null package packed priority program property protected pure rand
randc randcase randsequence ref return sequence shortint shortreal solve static string struct super tagged this throughout timeprecision
timeunit type typedef union unique var virtual void wait_order wildcard with within""".split()
KW = set(KEYWORDS)
IDENT = re.compile(r"^[A-Za-z_][A-Za-z0-9_$]*$")


SEEDED_SCALE = {"quick": 5, "thorough": 10}      # multiplies the run counts of the sampled families in plan()

def plan(tier):
    if tier == "quick":
        return [("ns", 3000), ("clash", 3000), ("convert", 16), ("convert_off", 8)]
    return [("ns", 200000), ("clash", 100000), ("convert", 600), ("convert_off", 300)]


ATTRS = [["keep", "true"], ["mark_debug", "true"], ["async_reg", "true"], ["dont_touch", "true"], ["ram_style", "block"], ["max_fanout", 16], "no_retiming"]


def gen_signals(rng, n):
    names = ["x", "y", "data", "valid", "x_1", "x1", "x_", "q", rng.choice(KEYWORDS), rng.choice(["repeat", "union", "uwire", "wire", "reg"])]
    mods = ["m", "sub", "fifo", "core", "x"]
    sigs = []
    for i in range(n):
        depth = rng.randint(1, 5)
        bt = []
        for d_ in range(depth - 1):
            bt.append([rng.choice(mods), rng.choice([0, 0, 1, 2])])
        bt.append([rng.choice(names), rng.choice([0, 0, 0, 1])])
        ov = None
        r = rng.random()
        if r < 0.2:
            ov = rng.choice(names + ["x_1", "x_2", "y_1", "data_1", "valid"])
        rel = rng.randrange(i) if (i > 0 and rng.random() < 0.15) else None
        sigs.append({"bt": bt, "override": ov, "related": rel, "width": rng.choice([1, 1, 4, 8])})
    return sigs


def generate(family, rng, tier):
    if family == "ns":
        n = rng.randint(2, 14)
        sigs = gen_signals(rng, n)
        order = [rng.randrange(n) for _ in range(rng.randint(n, 3 * n))]
        for i in range(n):
            if i not in order:
                order.insert(rng.randrange(len(order) + 1), i)
        return {"family": family, "signals": sigs, "order": order}
    if family == "clash":
        # top-level signals around ONE base name: several holders of the bare name plus owners of its numbered forms, so the
        # allocator has to skip more than one taken candidate (x, x, x_1, x_2, x_1_1, ...)
        base = rng.choice(["x", "data", "wire", "q_1"])
        pool = [base, base, base, base + "_1", base + "_2", base + "_3", base + "_1_1", base + "_2_1", base + "_1"]
        n = rng.randint(3, 8)
        sigs = []
        for i in range(n):
            nm = rng.choice(pool)
            if rng.random() < 0.6:
                sigs.append({"bt": [["s%d" % i, 0]], "override": nm, "related": None, "width": 1})
            else:
                sigs.append({"bt": [[nm, 0]], "override": None, "related": None, "width": 1})
        order = list(range(n))
        rng.shuffle(order)
        for _ in range(rng.randint(0, n)):
            order.insert(rng.randrange(len(order) + 1), rng.randrange(n))
        return {"family": family, "signals": sigs, "order": order}
    if family == "convert_off":
        # same designs, different amounts of unrelated prior allocation (DUID offset) in each interpreter. Only designs whose
        # equal names come from IDENTICAL back-traces (disambiguated by the namer itself in creation order) or from sliced
        # expressions (proxy signals); equal names reached through different paths are the listed finding C02-F3.
        designs = []
        for _ in range(8):
            sigs = []
            leafs = ["a", "b", "c", "d", "e", "f", "g", "h"]
            rng.shuffle(leafs)
            for k in range(rng.randint(2, 5)):
                depth = rng.randint(1, 3)
                bt = [[rng.choice(["m", "sub", "core"]), rng.choice([0, 1, 2])] for _ in range(depth - 1)] + [[leafs[k], 0]]
                w = rng.choice([4, 8])
                for _ in range(rng.choice([1, 1, 2, 3, 4]) if k else 1):
                    sigs.append({"bt": bt, "override": None, "related": None, "width": w, "io": False, "sync": rng.random() < 0.4})
            if rng.random() < 0.6:
                # sibling instances: the same path and leaf name under two or three instances of one class, told apart by the rank of
                # their tracer indices (sub0_s, sub1_s, sub2_s)
                mod, w = rng.choice(["m", "sub", "core", "stage"]), rng.choice([1, 4, 8])
                pre = [["top", 0]] if rng.random() < 0.3 else []
                for j in rng.sample([0, 1, 2], rng.choice([2, 3, 3])):
                    sigs.append({"bt": pre + [[mod, j], ["s", 0]], "override": None, "related": None, "width": w + j, "io": False, "sync": rng.random() < 0.4})
            rest = sigs[1:]
            rng.shuffle(rest)
            sigs = sigs[:1] + rest
            sigs[0]["io"] = True        # ports get name overrides (convert() does that): only the uniquely named input is one
            designs.append({"signals": sigs, "duid_offset": 0, "slices": rng.randint(0, 6)})
        # "noffs": the tracer indices (the numbers in the back-traces) are shifted as well, as if earlier builds in the same process had
        # used the same class / attribute names: sibling numbering goes by rank, not by the absolute indices
        return {"family": family, "designs": designs, "offsets": [0, 3, 250], "noffs": [0, 7, 6], "preconv": [0, 1, 3]}
    if family == "convert":
        designs = []
        for _ in range(8):
            n = rng.randint(3, 10)
            sigs = gen_signals(rng, n)
            for s in sigs:
                s["io"] = rng.random() < 0.3
                s["sync"] = rng.random() < 0.4
                if rng.random() < 0.25:
                    # synthesis attributes: (name, value) pairs are printed as they are, in an order that must not depend on the
                    # interpreter's string hashing
                    s["attrs"] = rng.sample(ATTRS, rng.randint(1, 4))
            mems = []
            if rng.random() < 0.5:
                # memories with synchronous read ports: their port registers are named <memory>_adr<n> / <memory>_dat<n> by the
                # backend and must not collide with signals that happen to carry exactly those names
                for mi in range(rng.randint(1, 2)):
                    nm = rng.choice(["data", "x", "q", "mem", "table", "reg", "buf", "wire"])
                    mems.append({"name": nm, "mode": rng.choice(["wf", "rf"]), "width": rng.choice([4, 8])})
                    for suffix in ("_adr0", "_dat0", "_adr1", "_dat1", ""):
                        if rng.random() < 0.4 and sigs:
                            t = rng.choice(sigs)
                            if rng.random() < 0.5:
                                t["override"] = nm + suffix
                            else:
                                t["bt"] = [[nm + suffix, 0]]
                                t["override"] = None
            insts = []
            if rng.random() < 0.4:
                # instances: named after their module type unless given a name; the identifier must be legal, not reserved
                # and different from every signal / memory identifier (and from other instances of the same type)
                for ii in range(rng.randint(1, 3)):
                    insts.append({"of": rng.choice(["CELL", "CELL", "buf", "and", "FD"]), "name": rng.choice([None, None, "u0", "table", "x", "data", "q_1"]),
                                  "attrs": rng.sample(ATTRS, rng.randint(2, 4)) if rng.random() < 0.4 else []})
            designs.append({"signals": sigs, "duid_offset": 0, "mems": mems, "insts": insts, "reuse": rng.choice([0, 0, 1, 2, 3])})
            if not any(s["io"] for s in sigs):
                sigs[0]["io"] = True
        # the same program in every interpreter (same DUIDs): only the interpreter's hash seed differs
        return {"family": family, "designs": designs, "offsets": [0, 0, 0]}
    raise KeyError(family)


def build_signals(specs):
    from migen import Signal
    objs = []
    for s in specs:
        sig = Signal(s["width"], name_override=s["override"]) if s["override"] else Signal(s["width"])
        sig.backtrace = [tuple(x) for x in s["bt"]]
        objs.append(sig)
    for s, sig in zip(specs, objs):
        if s["related"] is not None:
            sig.related = objs[s["related"]]
    return objs


def check_names(names_by_sig, V, where):
    """names_by_sig: list of (index, name)."""
    seen = {}
    checks = 0
    for i, nm in names_by_sig:
        checks += 3
        if nm in seen and seen[nm] != i:
            V("duplicate_identifier", where, "signals #%d and #%d both get the identifier %r" % (seen[nm], i, nm))
        seen.setdefault(nm, i)
        if not IDENT.match(nm or ""):
            V("illegal_identifier", where, "signal #%d gets %r which is not a legal Verilog identifier" % (i, nm))
        if nm in KW:
            V("reserved_identifier", where, "signal #%d gets the reserved word %r" % (i, nm))
    return checks


def run(scn):
    if scn["family"] in ("ns", "clash"):
        return run_ns(scn)
    return run_convert(scn)


def mkV(viols):
    def V(cls, obs, msg):
        if len(viols) < 4 and not any(v["cls"] == cls for v in viols):
            viols.append({"prop": "C02", "cls": cls, "observable": obs, "msg": msg, "cycle": None})
    return V


def run_ns(scn):
    from litex.gen.fhdl.namer import build_signal_namespace
    from litex.gen.fhdl import verilog
    viols = []
    V = mkV(viols)
    objs = build_signals(scn["signals"])
    ns = build_signal_namespace(set(objs), verilog._ieee_1800_2017_verilog_reserved_keywords)
    got = {}
    checks = 0
    for i in scn["order"]:
        nm = ns.get_name(objs[i])
        checks += 1
        if i in got and got[i] != nm:
            V("unstable_identifier", "get_name", "signal #%d was named %r, asked again it is %r" % (i, got[i], nm))
        got[i] = nm
        checks += check_names(sorted(got.items()), V, "get_name")
        if viols:
            break
    specs = scn["signals"]
    leafs = [s["override"] or s["bt"][-1][0] for s in specs]
    cand = len(set(leafs)) < len(leafs) or any(l in KW for l in leafs) or any(re.search(r"_\d+$", l) for l in leafs)
    table = sorted(got.items())
    return {"violations": viols, "digest": hashlib.sha256(repr(table).encode()).hexdigest()[:16],
            "stats": {"checks": checks, "nontrivial": bool(cand), "faults": {"req_order": len(scn["order"])}, "probes": {}, "cycles": 0}}


WORKER = r'''
import sys, json, re
sys.path.insert(0, %(verif)r)
from dsim import boot
boot.boot()
from migen import Module, Signal, ClockDomain
from migen.fhdl.structure import DUID
from litex.gen.fhdl import verilog
import props.c02 as c02
batch = json.load(sys.stdin)
out = []
for _ in range(batch.get("preconv", 0)):
    # earlier, unrelated conversions in the same process (with sliced expressions): they must leave nothing behind that shows in later texts
    mp = Module()
    mp.clock_domains.cd_sys = ClockDomain("sys")
    pa, pb, po = Signal(8, name_override="pa"), Signal(8, name_override="pb"), Signal(3, name_override="po")
    mp.comb += po.eq((pa + pb)[2:5] ^ (pa - pb)[1:4])
    verilog.convert(mp, ios={pa, pb, po}, name="pre")
for d in batch["designs"]:
    boot.reset_globals()
    for _ in range(batch["offset"]):
        DUID()
    noff = batch.get("noff", 0)
    if noff:
        # as if earlier builds in the same process had consumed that many tracer indices of every name
        for s_ in d["signals"]:
            s_["bt"] = [[n_, k_ + noff] for n_, k_ in s_["bt"]]
    objs = c02.build_signals(d["signals"])
    for s_, sig_ in zip(d["signals"], objs):
        for a_ in s_.get("attrs", []):
            sig_.attr.add(tuple(a_) if isinstance(a_, list) else a_)
    m = Module()
    m.clock_domains.cd_sys = ClockDomain("sys")
    ios = set()
    prev = None
    for s, sig in zip(d["signals"], objs):
        if prev is None:
            ios.add(sig)                 # the first signal is an input
        else:
            src = prev if prev is not None else 0
            (m.sync if s["sync"] else m.comb).__iadd__(sig.eq(src ^ 1) if prev is not None else sig.eq(1))
            if s["io"]:
                ios.add(sig)
        prev = sig
    mems_built = []
    for mi, ms in enumerate(d.get("mems", [])):
        from migen import Memory
        from migen.fhdl.specials import WRITE_FIRST, READ_FIRST
        mem = Memory(ms["width"], 4, name=ms["name"])
        port = mem.get_port(write_capable=True, mode=WRITE_FIRST if ms["mode"] == "wf" else READ_FIRST)
        m.specials += mem, port
        mems_built.append(mem)
        o = Signal(ms["width"])
        o.backtrace = [("mo%%d" %% mi, 0)]
        m.comb += [port.adr.eq(objs[0][:2]), port.dat_w.eq(objs[0]), port.we.eq(objs[0][0]), o.eq(port.dat_r)]
        ios.add(o)
    specials = []
    for ii, ins in enumerate(d.get("insts", [])):
        from migen import Instance
        o = Signal()
        o.backtrace = [("io%%d" %% ii, 0)]
        inst = Instance(ins["of"], i_a=objs[0], o_b=o, **({"name": ins["name"]} if ins["name"] else {}))
        for a_ in ins.get("attrs", []):
            inst.attr.add(tuple(a_) if isinstance(a_, list) else a_)
        m.specials += inst
        specials.append(inst)
        ios.add(o)
    for k in range(d.get("slices", 0)):
        a, b = objs[k %% len(objs)], objs[(k + 1) %% len(objs)]
        o = Signal(2)
        o.backtrace = [("slo%%d" %% k, 0)]
        m.comb += o.eq((a + b)[1:3])
        ios.add(o)
    try:
        r = verilog.convert(m, ios=ios, name="top")
        text = r.main_source
        names = [r.ns.get_name(sig) for sig in objs]
        snames = [r.ns.get_name(x) for x in mems_built + specials]
        err = None
    except Exception as e:
        text, names, snames, err = "", [], [], "%%s: %%s" %% (type(e).__name__, e)
    text = "\n".join(l for l in text.splitlines() if "auto-generated" not in l.lower() and "date" not in l.lower())
    text2 = None
    if d.get("reuse") and err is None:
        # a second netlist in the same process that reuses Signal objects of the first one: what were its ports are internal signals
        # now, next to new ports that carry the same names (a core generated standalone first and then inside a wrapper)
        m2 = Module()
        m2.clock_domains.cd_sys = ClockDomain("sys")
        ios2 = set()
        k2 = 0
        for sig in objs:
            if sig in ios and k2 < d["reuse"]:
                nm = r.ns.get_name(sig)
                pin = Signal(len(sig), name_override=nm)
                pout = Signal(len(sig))
                pout.backtrace = [("ro%%d" %% k2, 0)]
                m2.comb += [sig.eq(pin ^ 1), pout.eq(sig)]
                ios2 |= {pin, pout}
                k2 += 1
        try:
            text2 = verilog.convert(m2, ios=ios2, name="wrapper").main_source if k2 else None
        except Exception as e:
            text2 = "ERROR %%s: %%s" %% (type(e).__name__, e)
        if text2:
            text2 = "\n".join(l for l in text2.splitlines() if "auto-generated" not in l.lower() and "date" not in l.lower())
    out.append({"text": text, "names": names, "snames": snames, "err": err, "text2": text2})
json.dump(out, sys.stdout)
'''


def run_convert(scn):
    from dsim import boot
    viols = []
    V = mkV(viols)
    outs = []
    for k_, (hs, off) in enumerate(zip(("0", "1", "12345"), scn["offsets"])):
        env = dict(os.environ)
        env["PYTHONHASHSEED"] = hs
        env["PYTHONPATH"] = boot.VERIF
        env["VERIF_REPO"] = boot.REPO
        p = subprocess.run([sys.executable, "-c", WORKER % {"verif": boot.VERIF}], input=json.dumps({"designs": scn["designs"], "offset": off, "noff": (scn.get("noffs") or [0, 0, 0])[k_], "preconv": (scn.get("preconv") or [0, 0, 0])[k_]}),
                           capture_output=True, text=True, env=env, timeout=300)
        if p.returncode != 0:
            raise RuntimeError("convert worker failed: " + p.stderr[-1500:])
        outs.append(json.loads(p.stdout))
    checks = 0
    for di, d in enumerate(scn["designs"]):
        a = outs[0][di]
        if a["err"]:
            V("convert_failed", "design #%d" % di, "convert() raised %s" % a["err"])
            continue
        # signals, then memories, then instances: one identifier space
        checks += check_names(list(enumerate(a["names"] + a.get("snames", []))), V, "design #%d ns" % di)
        nm_, ni_ = len(d.get("mems", [])), len(d.get("insts", []))
        for k, ins in enumerate(d.get("insts", [])):
            # the identifier the text really uses for the instance: "<of> <identifier>(" on one line
            got = re.findall(r"^%s ([^\s(]+)\($" % re.escape(ins["of"]), a["text"], re.M)
            checks += 1
            for g in got:
                if g in KW or not IDENT.match(g):
                    V("reserved_identifier", "design #%d text" % di, "instance of %s is emitted under the identifier %r" % (ins["of"], g))
        decl = re.findall(r"^\s*(?:input|output|inout)?\s*(?:wire|reg)\s+(?:signed\s+)?(?:\[[^\]]+\]\s+)?([A-Za-z_][A-Za-z0-9_$]*)", a["text"], re.M)
        # instance identifiers as the text has them ("<module type> <identifier>(" on one line): unique among themselves and against every
        # declared signal / memory
        inst_ids = []
        for of_ in sorted({ins["of"] for ins in d.get("insts", [])}):
            inst_ids += re.findall(r"^%s ([^\s(]+)\($" % re.escape(of_), a["text"], re.M)
        checks += len(inst_ids)
        dup_i = sorted({x for x in inst_ids if inst_ids.count(x) > 1 or x in decl})
        if dup_i:
            V("duplicate_identifier", "design #%d text" % di, "instance identifier(s) %s used more than once (instances %s, requested names %s)"
              % (dup_i, inst_ids, [ins["name"] for ins in d.get("insts", [])]))
        checks += len(decl)
        dup = sorted({x for x in decl if decl.count(x) > 1})
        if dup:
            V("duplicate_declaration", "design #%d text" % di, "identifier(s) %s declared more than once in the emitted Verilog" % dup)
        bad = [x for x in decl if x in KW]
        if bad:
            V("reserved_identifier", "design #%d text" % di, "reserved word(s) %s declared as signal names" % bad)
        if a.get("text2"):
            t2 = a["text2"]
            checks += 2
            if t2.startswith("ERROR "):
                V("convert_failed", "design #%d wrapper" % di, "convert() of a second netlist reusing the signals of the first raised %s" % t2[6:])
            else:
                decl2 = re.findall(r"^\s*(?:input|output|inout)?\s*(?:wire|reg)\s+(?:signed\s+)?(?:\[[^\]]+\]\s+)?([A-Za-z_][A-Za-z0-9_$]*)", t2, re.M)
                dup2 = sorted({x for x in decl2 if decl2.count(x) > 1})
                if dup2:
                    V("duplicate_declaration", "design #%d wrapper" % di, "identifier(s) %s declared more than once in a second netlist that reuses signals of the first (ports there, internal here)" % dup2)
                used = set(re.findall(r"[A-Za-z_][A-Za-z0-9_$]*", "\n".join(l for l in t2.splitlines() if ("assign " in l or "<=" in l) and "//" not in l)))
                undeclared = sorted(x for x in used if x not in decl2 and x not in KW and x not in ("assign", "d", "b", "h", "sd", "sb", "sh", "signed") and not re.fullmatch(r"[0-9]+.*", x)
                                    and not re.fullmatch(r"[dbh][0-9a-fA-F_xz]+|s[dbh][0-9a-fA-F_xz]+", x))
                if undeclared:
                    V("undeclared_identifier", "design #%d wrapper" % di, "identifier(s) %s used but never declared in the second netlist" % undeclared[:4])
                # every signal of the wrapper is its own net: no input port is assigned, no net is driven by two continuous assignments
                inputs2 = set(re.findall(r"^\s*input\s+(?:wire\s+)?(?:signed\s+)?(?:\[[^\]]+\]\s+)?([A-Za-z_][A-Za-z0-9_$]*)", t2, re.M))
                lhs2 = re.findall(r"^\s*assign\s+([A-Za-z_][A-Za-z0-9_$]*)\s*=", t2, re.M)
                checks += 2
                if set(lhs2) & inputs2:
                    V("duplicate_identifier", "design #%d wrapper" % di, "input port(s) %s of the second netlist are assigned inside it: an internal signal is printed under the port's identifier"
                      % sorted(set(lhs2) & inputs2))
                twice = sorted({x for x in lhs2 if lhs2.count(x) > 1})
                if twice:
                    V("duplicate_identifier", "design #%d wrapper" % di, "net(s) %s driven by several continuous assignments in the second netlist: two signals share one identifier" % twice)
            for k in (1, 2):
                checks += 1
                if outs[k][di].get("text2") != t2:
                    V("not_reproducible", "design #%d wrapper" % di, "text of the second netlist differs between interpreters")
        for k in (1, 2):
            checks += 1
            if outs[k][di]["text"] != a["text"]:
                al, bl = a["text"].splitlines(), outs[k][di]["text"].splitlines()
                diff = next(((x, y) for x, y in zip(al, bl) if x != y), (len(al), len(bl)))
                V("not_reproducible", "design #%d" % di, "text differs between interpreters (hash seed / prior allocation): %r vs %r" % diff)
    dg = hashlib.sha256(repr([o["names"] for o in outs[0]]).encode()).hexdigest()[:16]
    return {"violations": viols, "digest": dg, "stats": {"checks": checks, "nontrivial": True, "faults": {"hash_seed": 3, "req_order": len(scn["designs"])},
                                                          "probes": {"designs": len(scn["designs"])}, "cycles": 0}}


def known_match(scn, v):
    # C02-F3: only the canonical scenario uses different prior allocation on designs with equal names reached through different paths
    if scn.get("family") == "convert" and scn.get("offsets") not in (None, [0, 0, 0]) and v["cls"] == "not_reproducible":
        return "C02-F3"
    return None
