"""C19, family 'spislave': litex.soc.cores.spi.spi_slave.SPISlave (mode 0) against a pin-level SPI master model.
The master drives cs_n / clk / mosi with a literal half period, lead / trail times and per-edge jitter (in system cycles) and
samples miso at its rising edges. Oracle per transfer: exactly one start pulse and one irq pulse, length = number of clock
pulses, the received register holds the bits sent (MSB first, last data_width bits), the bits the master sampled are the
`miso` word loaded at the start, MSB first (zeros after data_width bits), done is high exactly while idle, and the core is
idle at the end. In loopback mode the master must read back its own bits."""
from dsim.kernel import Bench, wrap_top, Agent
from dsim.wb_agents import PortRecorder


def generate(rng, tier):
    dw = rng.choice([8, 8, 16, 24, 32])
    half = rng.choice([5, 6, 8, 11])          # system cycles per half SPI clock period (the inputs pass a two-flop synchroniser
    #                                            and an edge detector: the reply needs 4 cycles)
    xfers = []
    for _ in range(rng.randint(2, 6)):
        nbits = rng.choice([dw, dw, dw, rng.randint(1, dw), 1, dw + rng.randint(1, 4)])
        xfers.append({"nbits": nbits, "mosi": rng.getrandbits(nbits), "miso_word": rng.getrandbits(dw), "lead": rng.choice([3, 4, 6, 9]),
                      "trail": rng.choice([half, half + 2, 3 * half]), "gap": rng.choice([3, 4, 7, 20]),
                      "jitter": [rng.choice([0, 0, 0, 1]) for _ in range(7)]})
    return {"family": "spislave", "params": {"data_width": dw, "half": half, "loopback": rng.random() < 0.15}, "xfers": xfers}


def run(scn, mkV, _result):
    from migen import Record
    from litex.soc.cores.spi.spi_slave import SPISlave
    p = scn["params"]
    dw, half = p["data_width"], p["half"]
    pads = Record(SPISlave.pads_layout)
    pads.cs_n.reset = 1
    dut = SPISlave(pads, dw)
    # ---- literal pin schedule
    sched = {}          # cycle -> list of (signal name, value)
    marks = []          # per transfer: dict(cs_low, rises [cycles], cs_high)
    t = 4
    for x in scn["xfers"]:
        m = {"cs_low": t, "rises": [], "falls": [], "x": x}
        sched.setdefault(t, []).append(("cs_n", 0))
        sched.setdefault(t, []).append(("mosi", (x["mosi"] >> (x["nbits"] - 1)) & 1))
        sched.setdefault(max(t - 2, 0), []).append(("miso_word", x["miso_word"]))      # the word to send is stable before the start
        t += x["lead"]
        for k in range(x["nbits"]):
            j = x["jitter"][k % len(x["jitter"])]
            sched.setdefault(t + j, []).append(("clk", 1))
            m["rises"].append(t + j)
            t += half
            sched.setdefault(t, []).append(("clk", 0))
            m["falls"].append(t)
            if k + 1 < x["nbits"]:
                sched.setdefault(t, []).append(("mosi", (x["mosi"] >> (x["nbits"] - 2 - k)) & 1))
            t += half
        t += x["trail"] - half
        sched.setdefault(t, []).append(("cs_n", 1))
        m["cs_high"] = t
        marks.append(m)
        t += x["gap"]
    end = t + 12
    sig = {"cs_n": pads.cs_n, "clk": pads.clk, "mosi": pads.mosi, "miso_word": dut.miso}

    class Master(Agent):
        reads = ()

        def __init__(s_):
            s_.t = 0

        def done(s_):
            return s_.t >= end

        def step(s_, v, tt, w):
            s_.t = tt
            if tt == 0:
                w(dut.loopback, int(p["loopback"]))
            for name, val in sched.get(tt + 1, []):      # written now, visible in cycle tt+1
                w(sig[name], val)
    bench = Bench(wrap_top(dut), max_cycles=end + 8, tail=2, fingerprint=False)
    bench.add(Master())
    rows = []
    bench.add(PortRecorder([pads.miso, dut.start, dut.irq, dut.done, dut.length, dut.mosi], lambda tt, row: rows.append(row)))
    bench.run()
    viols = []
    V = mkV(viols)
    checks = 0
    n = len(rows)
    starts = [k for k in range(n) if rows[k][1]]
    irqs = [k for k in range(n) if rows[k][2]]
    checks += 2
    if len(starts) != len(marks) or len(irqs) != len(marks):
        V("spislave_framing", "start/irq", "%d transfers: %d start pulses at %s, %d irq pulses at %s" % (len(marks), len(starts), starts[:8], len(irqs), irqs[:8]))
    else:
        for i, m in enumerate(marks):
            x = m["x"]
            nb = x["nbits"]
            lo, hi = m["cs_low"], m["cs_high"]
            checks += 4
            if not (lo <= starts[i] <= lo + 4) or not (hi <= irqs[i] <= hi + 4):
                V("spislave_framing", "start/irq", "transfer %d: cs low at %d, start pulse at %d; cs high at %d, irq pulse at %d" % (i, lo, starts[i], hi, irqs[i]), lo)
                break
            k_end = irqs[i]
            length, rx = rows[k_end][4], rows[k_end][5]
            if length != nb:
                V("spislave_length", "length", "transfer %d: %d clock pulses, length reads %d at the irq pulse" % (i, nb, length), k_end)
                break
            exp_rx = x["mosi"] & ((1 << min(nb, dw)) - 1)
            if rx & ((1 << min(nb, dw)) - 1) != exp_rx:
                V("spislave_rx_data", "mosi register", "transfer %d: master sent %d bits %#x (MSB first), the received register holds %#x (low %d bits %#x)"
                  % (i, nb, x["mosi"], rx, min(nb, dw), rx & ((1 << min(nb, dw)) - 1)), k_end)
                break
            # what the master samples at its rising edges (the level during the cycle in which clk rises)
            got = [rows[r][0] for r in m["rises"] if r < n]
            if p["loopback"]:
                exp = [(x["mosi"] >> (nb - 1 - k)) & 1 for k in range(nb)]
            else:
                exp = [((x["miso_word"] >> (dw - 1 - k)) & 1) if k < dw else 0 for k in range(nb)]
            if got != exp:
                V("spislave_tx_data", "miso", "transfer %d (%d bits, word to send %#x, data width %d): master sampled %s, expected %s"
                  % (i, nb, x["miso_word"], dw, "".join(map(str, got)), "".join(map(str, exp))), lo)
                break
            # mode 0: the output moves after a falling clock edge (or at the start) only - never around the master's sampling edge
            if not p["loopback"]:
                allowed = set()
                for f in [lo] + m["falls"]:
                    allowed.update(range(f + 1, f + 5))
                for c in range(lo + 1, min(hi, n)):
                    checks += 1
                    if rows[c][0] != rows[c - 1][0] and c not in allowed:
                        V("spislave_tx_timing", "miso", "transfer %d: miso changes in cycle %d, which is not within 4 cycles after the start (%d) or a falling clock edge %s"
                          % (i, c, lo, [f for f in m["falls"] if f < c][-2:]), c)
                        break
                if viols:
                    break
            # done: low from the start pulse to the irq pulse
            if any(rows[k][3] for k in range(starts[i] + 1, irqs[i])):
                V("spislave_done", "done", "transfer %d: done is high inside the transfer" % i, lo)
                break
    checks += 1
    if rows and not rows[-1][3]:
        V("not_idle", "done", "the core is not idle at the end of the run")
    return _result(viols, [r[0] for r in rows], {"cycles": n, "checks": checks, "nontrivial": len(marks) >= 2,
                                                   "faults": {"edge_jitter": sum(sum(x["jitter"]) for x in scn["xfers"]), "short_transfer": sum(x["nbits"] < dw for x in scn["xfers"]),
                                                              "long_transfer": sum(x["nbits"] > dw for x in scn["xfers"])},
                                                   "probes": {"spislave_transfers": len(marks), "spislave_loopback": int(p["loopback"])}})
