"""Stream families shared by C03 (exactly-once / order / function) and C04 (stability, progress).

One run = real stream element(s) under the real simulator, one Producer per sink, one Consumer per
source, optional Controller for sel/enable/shift; literal offer/accept patterns. Oracles:
reference function over the *recorded* sink handshakes (C03), online stability monitor and bounded
progress in the cooperative tail (C04)."""
import copy

from dsim import boot, prng
from dsim.kernel import Bench, wrap_top, Agent
from dsim.stream_agents import Producer, Consumer, Controller, ep_fields

# ------------------------------------------------------------------------------------------------
# helpers
# ------------------------------------------------------------------------------------------------


def draw_layout(rng, maxf=3, wide=False):
    n = rng.choice([1, 1, 2, 3][:maxf + 1])
    out = []
    for i in range(n):
        w = rng.choice([1, 2, 3, 5, 8, 8, 12, 16] + ([33, 64] if wide else []))
        out.append(["f%d" % i, w])
    return out


def draw_params_layout(rng):
    n = rng.choice([0, 0, 1, 2])
    return [["p%d" % i, rng.choice([1, 4, 8])] for i in range(n)]


def lay(l):
    return [(n, w) for n, w in l]


def rand_val(rng, w):
    r = rng.random()
    if r < 0.1:
        return 0
    if r < 0.2:
        return (1 << w) - 1
    return rng.getrandbits(w)


def gen_tokens(rng, n, payload, params, mode="packets", maxlen=9, group=1):
    """mode: packets (first/last framing, params constant per packet), random (first/last random
    bits), none (first=last=0). group: packet lengths are multiples of group when mode=='aligned'."""
    toks = []
    while len(toks) < n:
        if mode == "random":
            t = {"first": int(rng.random() < 0.25), "last": int(rng.random() < 0.25)}
            for f, w in payload:
                t[f] = rand_val(rng, w)
            for f, w in params:
                t[f] = rand_val(rng, w)
            toks.append(t)
            continue
        ln = rng.choice([1, 1, 2, 3, 4, 5, maxlen, rng.randint(1, maxlen)])
        if mode == "aligned":
            ln = max(1, ln // group) * group if ln >= group else group
        pv = {f: rand_val(rng, w) for f, w in params}
        for i in range(ln):
            t = {"first": int(i == 0), "last": int(i == ln - 1)}
            if mode == "none":
                t = {"first": 0, "last": 0}
            for f, w in payload:
                t[f] = rand_val(rng, w)
            t.update(pv)
            toks.append(t)
    return toks


def draw_rates(rng):
    return rng.choice([0.1, 0.5, 0.9, 1.0, 0.5, 0.9]), rng.choice([0.1, 0.5, 0.9, 1.0, 0.5, 0.9])


class Probe(Agent):
    """Records the value of control inputs at every edge (what the DUT sees in that cycle)."""

    def __init__(self, signals):
        self.reads = tuple(signals)
        self.hist = []

    def step(self, v, t, w):
        self.hist.append(tuple(v[s] for s in self.reads))


class Built:
    def __init__(self, dut, sinks, sources, ctl=(), extra=()):
        self.dut = dut
        self.sinks = sinks
        self.sources = sources
        self.ctl = list(ctl)
        self.extra = extra


# ------------------------------------------------------------------------------------------------
# families
# ------------------------------------------------------------------------------------------------

class Family:
    name = "?"
    n_tokens = (20, 60)
    ratio_cost = 1       # cycles per token in the cooperative tail (for the progress bound)
    token_mode = ("packets", "packets", "random")

    def draw(self, rng):
        raise NotImplementedError

    def build(self, p):
        raise NotImplementedError

    def sink_layouts(self, p):
        """[(payload layout, param layout)] per sink."""
        return [(lay(p["payload"]), lay(p.get("param", [])))]

    def tokens(self, rng, p):
        out = []
        for pl, pr in self.sink_layouts(p):
            n = rng.randint(*self.n_tokens)
            out.append(gen_tokens(rng, n, pl, pr, mode=rng.choice(self.token_mode)))
        return out

    def ctl_events(self, rng, p, horizon):
        return []

    def reference(self, p, acc, ctl_hist, got):
        """acc: per sink list of (cycle, token). Returns per source list of (expected token,
        dontcare{name: mask})."""
        raise NotImplementedError

    def stability_premise_ok(self, p):
        return True

    def known_region(self, p):
        return None

    def simpler(self, p):
        return []


def ident(toks):
    return [(dict(t), {}) for t in toks]


class FPipeValid(Family):
    name = "PipeValid"

    def draw(self, rng):
        return {"payload": draw_layout(rng, wide=True), "param": draw_params_layout(rng)}

    def build(self, p):
        from litex.soc.interconnect import stream
        d = stream.PipeValid(stream.EndpointDescription(lay(p["payload"]), lay(p["param"])))
        return Built(d, [d.sink], [d.source])

    def reference(self, p, acc, ctl, got):
        return [ident([t for _, t in acc[0]])]


class FPipeReady(FPipeValid):
    name = "PipeReady"

    def build(self, p):
        from litex.soc.interconnect import stream
        d = stream.PipeReady(stream.EndpointDescription(lay(p["payload"]), lay(p["param"])))
        return Built(d, [d.sink], [d.source])


class FBuffer(FPipeValid):
    name = "Buffer"

    def draw(self, rng):
        p = FPipeValid.draw(self, rng)
        p["pipe_valid"] = rng.random() < 0.7
        p["pipe_ready"] = rng.random() < 0.6
        return p

    def build(self, p):
        from litex.soc.interconnect import stream
        d = stream.Buffer(stream.EndpointDescription(lay(p["payload"]), lay(p["param"])),
                          pipe_valid=p["pipe_valid"], pipe_ready=p["pipe_ready"])
        return Built(d, [d.sink], [d.source])


class FDelay(FPipeValid):
    name = "Delay"

    def draw(self, rng):
        p = FPipeValid.draw(self, rng)
        p["n"] = rng.choice([0, 1, 2, 3, 4])
        return p

    def build(self, p):
        from litex.soc.interconnect import stream
        d = stream.Delay(stream.EndpointDescription(lay(p["payload"]), lay(p["param"])), p["n"])
        return Built(d, [d.sink], [d.source])


class FSyncFIFO(FPipeValid):
    name = "SyncFIFO"

    def draw(self, rng):
        p = FPipeValid.draw(self, rng)
        p["depth"] = rng.choice([0, 1, 2, 3, 4, 5, 8, 16])
        p["buffered"] = rng.random() < 0.5
        return p

    def build(self, p):
        from litex.soc.interconnect import stream
        d = stream.SyncFIFO(stream.EndpointDescription(lay(p["payload"]), lay(p["param"])),
                            p["depth"], buffered=p["buffered"])
        return Built(d, [d.sink], [d.source])


class FConverter(Family):
    name = "Converter"
    token_mode = ("packets", "packets", "random", "none")

    def draw(self, rng):
        base = rng.choice([1, 4, 8, 8, 16])
        ratio = rng.choice([1, 2, 2, 3, 4, 8])
        up = rng.random() < 0.5
        return {"nbits_from": base if up else base * ratio, "nbits_to": base * ratio if up else base,
                "reverse": rng.random() < 0.4, "report": rng.random() < 0.4}

    def sink_layouts(self, p):
        return [([("data", p["nbits_from"])], [])]

    def build(self, p):
        from litex.soc.interconnect import stream
        d = stream.Converter(p["nbits_from"], p["nbits_to"], reverse=p["reverse"],
                             report_valid_token_count=p["report"])
        return Built(d, [d.sink], [d.source])

    def reference(self, p, acc, ctl, got):
        toks = [t for _, t in acc[0]]
        return [convert_ref(toks, p["nbits_from"], p["nbits_to"], p["reverse"], p["report"])]


def convert_ref(toks, nf, nt, reverse, report, field="data"):
    out = []
    if nf == nt:
        for t in toks:
            e = {"first": t["first"], "last": t["last"], field: t[field]}
            if report:
                e["valid_token_count"] = 1
            out.append((e, {}))
    elif nf > nt:
        ratio = nf // nt
        for t in toks:
            for i in range(ratio):
                n = ratio - i - 1 if reverse else i
                e = {"first": t["first"] & int(i == 0), "last": t["last"] & int(i == ratio - 1),
                     field: (t[field] >> (n * nt)) & ((1 << nt) - 1)}
                if report:
                    e["valid_token_count"] = int(i == ratio - 1)
                out.append((e, {}))
    else:
        ratio = nt // nf
        grp = []
        for t in toks:
            grp.append(t)
            if len(grp) == ratio or t["last"]:
                word = 0
                care = 0
                for i, g in enumerate(grp):
                    n = ratio - i - 1 if reverse else i
                    word |= g[field] << (n * nf)
                    care |= ((1 << nf) - 1) << (n * nf)
                e = {"first": int(any(g["first"] for g in grp)), "last": int(any(g["last"] for g in grp)),
                     field: word}
                if report:
                    e["valid_token_count"] = len(grp)
                out.append((e, {field: ((1 << nt) - 1) & ~care}))
                grp = []
        # incomplete trailing group is never emitted
    return out


class FStride(Family):
    name = "StrideConverter"
    token_mode = ("packets", "packets", "random")

    def draw(self, rng):
        ratio = rng.choice([1, 2, 2, 3, 4])
        up = rng.random() < 0.5
        narrow = draw_layout(rng)
        wide = [[n, w * ratio] for n, w in narrow]
        return {"from": narrow if up else wide, "to": wide if up else narrow, "ratio": ratio, "up": up,
                "reverse": rng.random() < 0.4, "param": draw_params_layout(rng)}

    def sink_layouts(self, p):
        return [(lay(p["from"]), lay(p["param"]))]

    def build(self, p):
        from litex.soc.interconnect import stream
        d = stream.StrideConverter(stream.EndpointDescription(lay(p["from"]), lay(p["param"])),
                                   stream.EndpointDescription(lay(p["to"]), lay(p["param"])),
                                   reverse=p["reverse"])
        return Built(d, [d.sink], [d.source])

    def reference(self, p, acc, ctl, got):
        toks = [t for _, t in acc[0]]
        ratio, rev = p["ratio"], p["reverse"]
        out = []
        pn = [n for n, _ in p["param"]]
        if ratio == 1:
            return [ident(toks)]
        if not p["up"]:
            for t in toks:
                for i in range(ratio):
                    n = ratio - i - 1 if rev else i
                    e = {"first": t["first"] & int(i == 0), "last": t["last"] & int(i == ratio - 1)}
                    for (f, w) in p["to"]:
                        e[f] = (t[f] >> (n * w)) & ((1 << w) - 1)
                    for f in pn:
                        e[f] = t[f]
                    out.append((e, {}))
        else:
            grp = []
            for t in toks:
                grp.append(t)
                if len(grp) == ratio or t["last"]:
                    e = {"first": int(any(g["first"] for g in grp)), "last": int(any(g["last"] for g in grp))}
                    dc = {}
                    for (f, w) in p["from"]:
                        word, care = 0, 0
                        for i, g in enumerate(grp):
                            n = ratio - i - 1 if rev else i
                            word |= g[f] << (n * w)
                            care |= ((1 << w) - 1) << (n * w)
                        e[f] = word
                        dc[f] = ((1 << (w * ratio)) - 1) & ~care
                    for f in pn:
                        e[f] = grp[-1][f]
                    out.append((e, dc))
                    grp = []
        return [out]


class FGearbox(Family):
    name = "Gearbox"
    token_mode = ("none",)
    n_tokens = (30, 80)

    def draw(self, rng):
        i_dw, o_dw = rng.choice([(10, 2), (10, 4), (20, 32), (32, 20), (8, 8), (3, 5), (5, 3), (7, 8),
                                 (8, 7), (1, 4), (4, 1), (12, 16), (16, 12), (2, 3), (64, 66), (66, 64),
                                 (8, 16), (16, 8), (8, 32), (32, 8), (2, 4), (4, 2), (16, 64), (64, 16), (40, 32), (32, 40)])
        return {"i_dw": i_dw, "o_dw": o_dw, "msb_first": rng.random() < 0.5}

    def sink_layouts(self, p):
        return [([("data", p["i_dw"])], [])]

    def build(self, p):
        from litex.soc.interconnect import stream
        d = stream.Gearbox(p["i_dw"], p["o_dw"], msb_first=p["msb_first"])
        return Built(d, [d.sink], [d.source])

    def reference(self, p, acc, ctl, got):
        bits = []
        i_dw, o_dw = p["i_dw"], p["o_dw"]
        for _, t in acc[0]:
            d = t["data"]
            if p["msb_first"]:
                bits.extend((d >> (i_dw - 1 - k)) & 1 for k in range(i_dw))
            else:
                bits.extend((d >> k) & 1 for k in range(i_dw))
        out = []
        for j in range(len(bits) // o_dw):
            ch = bits[j * o_dw:(j + 1) * o_dw]
            if p["msb_first"]:
                w = 0
                for b in ch:
                    w = (w << 1) | b
            else:
                w = sum(b << k for k, b in enumerate(ch))
            out.append(({"data": w}, {"first": 1, "last": 1}))
        return [out]

    def expected_count_slack(self, p):
        return True


class FPack(Family):
    name = "Pack"

    def draw(self, rng):
        return {"payload": draw_layout(rng), "param": draw_params_layout(rng), "n": rng.choice([2, 2, 3, 4, 5]),
                "reverse": rng.random() < 0.4}

    def build(self, p):
        from litex.soc.interconnect import stream
        d = stream.Pack(stream.EndpointDescription(lay(p["payload"]), lay(p["param"])), p["n"],
                        reverse=p["reverse"])
        return Built(d, [d.sink], [d.source])

    def reference(self, p, acc, ctl, got):
        n, rev = p["n"], p["reverse"]
        out, grp = [], []
        for _, t in acc[0]:
            grp.append(t)
            if len(grp) == n or t["last"]:
                e = {"first": int(any(g["first"] for g in grp)), "last": int(any(g["last"] for g in grp))}
                dc = {}
                for c in range(n):
                    for f, w in p["payload"]:
                        dc["chunk%d.%s" % (c, f)] = (1 << w) - 1
                        e["chunk%d.%s" % (c, f)] = 0
                for i, g in enumerate(grp):
                    c = n - i - 1 if rev else i
                    for f, w in p["payload"]:
                        e["chunk%d.%s" % (c, f)] = g[f]
                        dc["chunk%d.%s" % (c, f)] = 0
                for f, _ in p["param"]:
                    e[f] = grp[-1][f]
                out.append((e, dc))
                grp = []
        return [out]


class FUnpack(Family):
    name = "Unpack"

    def draw(self, rng):
        return {"payload": draw_layout(rng), "param": draw_params_layout(rng), "n": rng.choice([2, 2, 3, 4, 5]),
                "reverse": rng.random() < 0.4}

    def sink_layouts(self, p):
        pl = [("chunk%d.%s" % (c, f), w) for c in range(p["n"]) for f, w in p["payload"]]
        return [(pl, lay(p["param"]))]

    def build(self, p):
        from litex.soc.interconnect import stream
        d = stream.Unpack(p["n"], stream.EndpointDescription(lay(p["payload"]), lay(p["param"])),
                          reverse=p["reverse"])
        return Built(d, [d.sink], [d.source])

    def reference(self, p, acc, ctl, got):
        n, rev = p["n"], p["reverse"]
        out = []
        for _, t in acc[0]:
            for i in range(n):
                c = n - i - 1 if rev else i
                e = {"first": t["first"] & int(i == 0), "last": t["last"] & int(i == n - 1)}
                for f, _ in p["payload"]:
                    e[f] = t["chunk%d.%s" % (c, f)]
                for f, _ in p["param"]:
                    e[f] = t[f]
                out.append((e, {}))
        return [out]


class FPackUnpack(Family):
    """Round trip through one shared EndpointDescription object (Pack -> Unpack == identity on
    complete groups)."""
    name = "PackUnpack"
    token_mode = ("aligned",)

    def draw(self, rng):
        return {"payload": draw_layout(rng), "param": draw_params_layout(rng), "n": rng.choice([2, 2, 3, 4]),
                "reverse": rng.random() < 0.4, "shared_desc": rng.random() < 0.5}

    def tokens(self, rng, p):
        n = rng.randint(*self.n_tokens)
        return [gen_tokens(rng, n, lay(p["payload"]), lay(p["param"]), mode="aligned", group=p["n"])]

    def build(self, p):
        from migen import Module
        from litex.soc.interconnect import stream
        desc = stream.EndpointDescription(lay(p["payload"]), lay(p["param"]))
        desc2 = desc if p["shared_desc"] else stream.EndpointDescription(lay(p["payload"]), lay(p["param"]))
        m = Module()
        m.submodules.pack = pack = stream.Pack(desc, p["n"], reverse=p["reverse"])
        m.submodules.unpack = unpack = stream.Unpack(p["n"], desc2, reverse=p["reverse"])
        try:
            m.comb += pack.source.connect(unpack.sink)
            got = [n for n, _ in ep_fields(unpack.source)[0]]
            want = [n for n, _ in p["payload"]]
            if got != want:
                raise ValueError("Unpack source fields %r, description says %r" % (got, want))
        except Exception as e:  # noqa
            # the two blocks were built from the documented arguments; if they do not fit together the
            # round trip is broken before the first token
            raise RefViolation("roundtrip_layout_mismatch", "Pack->Unpack",
                               "Pack(desc, n) -> Unpack(n, desc) cannot be connected: %s: %s" % (type(e).__name__, e))
        return Built(m, [pack.sink], [unpack.source])

    def reference(self, p, acc, ctl, got):
        toks = [t for _, t in acc[0]]
        n = p["n"]
        out = []
        # complete groups only; first/last of a group are ORed by Pack and re-split by Unpack
        for g0 in range(0, len(toks) - len(toks) % n if n > 1 else len(toks), n):
            grp = toks[g0:g0 + n]
            if any(t["last"] for t in grp[:-1]):
                return None  # generator guarantees aligned packets; otherwise not applicable
            for i, t in enumerate(grp):
                e = dict(t)
                e["first"] = int(any(g["first"] for g in grp)) & int(i == 0)
                e["last"] = int(any(g["last"] for g in grp)) & int(i == n - 1)
                for f, _ in p["param"]:
                    e[f] = grp[-1][f]
                out.append((e, {}))
        return [out]


class FCast(Family):
    name = "Cast"

    def draw(self, rng):
        total = rng.choice([8, 12, 16, 24])

        def split(t):
            parts = []
            while t > 0:
                w = rng.randint(1, t)
                parts.append(w)
                t -= w
            return parts
        return {"from": [["a%d" % i, w] for i, w in enumerate(split(total))],
                "to": [["b%d" % i, w] for i, w in enumerate(split(total))] if rng.random() < 0.8 else total,
                "rf": rng.random() < 0.3, "rt": rng.random() < 0.3}

    def sink_layouts(self, p):
        return [(lay(p["from"]), [])]

    def build(self, p):
        from litex.soc.interconnect import stream
        to = p["to"] if isinstance(p["to"], int) else lay(p["to"])
        d = stream.Cast(lay(p["from"]), to, reverse_from=p["rf"], reverse_to=p["rt"])
        return Built(d, [d.sink], [d.source])

    def reference(self, p, acc, ctl, got):
        out = []
        fr = list(p["from"])
        if p["rf"]:
            fr = fr[::-1]
        to = [["rawbits", p["to"]]] if isinstance(p["to"], int) else list(p["to"])
        if p["rt"]:
            to = to[::-1]
        for _, t in acc[0]:
            word, sh = 0, 0
            for f, w in fr:
                word |= t[f] << sh
                sh += w
            e = {"first": t["first"], "last": t["last"]}
            sh = 0
            for f, w in to:
                e[f] = (word >> sh) & ((1 << w) - 1)
                sh += w
            out.append((e, {}))
        return [out]


class FMux(Family):
    name = "Multiplexer"
    n_tokens = (10, 30)

    def draw(self, rng):
        return {"payload": draw_layout(rng), "param": draw_params_layout(rng), "n": rng.choice([1, 2, 3, 4, 5])}

    def sink_layouts(self, p):
        return [(lay(p["payload"]), lay(p["param"]))] * p["n"]

    def build(self, p):
        from litex.soc.interconnect import stream
        d = stream.Multiplexer(stream.EndpointDescription(lay(p["payload"]), lay(p["param"])), p["n"])
        return Built(d, [getattr(d, "sink%d" % i) for i in range(p["n"])], [d.source], ctl=[d.sel])

    def ctl_events(self, rng, p, horizon):
        ev, t = [], 0
        nsel = max(p["n"], 2)
        maxsel = (1 << (nsel - 1).bit_length()) - 1
        while t < horizon:
            ev.append([t, 0, rng.randint(0, maxsel) if rng.random() < 0.15 else rng.randint(0, p["n"] - 1)])
            t += rng.choice([1, 2, 5, 10, 30, 60])
        # make sure every sink gets a long turn in the tail
        for i in range(p["n"]):
            ev.append([horizon + i * 1, 0, i])
        return ev

    def tail_schedule(self, p, horizon, per):
        return [[horizon + i * per, 0, i] for i in range(p["n"])]

    def reference(self, p, acc, ctl, got):
        # combinational: a sink handshake at cycle t must be sink[sel(t)] and appears at the source at t
        merged = []
        for i, a in enumerate(acc):
            for t, tok in a:
                merged.append((t, i, tok))
        merged.sort(key=lambda x: (x[0], x[1]))
        exp = []
        for t, i, tok in merged:
            sel = ctl[t][0] if t < len(ctl) else None
            if sel != i:
                raise RefViolation("misrouted", "sink%d" % i, "sink %d accepted at cycle %d while sel=%s" % (i, t, sel))
            exp.append((dict(tok), {}, t))
        return [exp]


class FDemux(Family):
    name = "Demultiplexer"

    def draw(self, rng):
        return {"payload": draw_layout(rng), "param": draw_params_layout(rng), "n": rng.choice([1, 2, 3, 4, 5])}

    def build(self, p):
        from litex.soc.interconnect import stream
        d = stream.Demultiplexer(stream.EndpointDescription(lay(p["payload"]), lay(p["param"])), p["n"])
        return Built(d, [d.sink], [getattr(d, "source%d" % i) for i in range(p["n"])], ctl=[d.sel])

    def ctl_events(self, rng, p, horizon):
        ev, t = [], 0
        nsel = max(p["n"], 2)
        maxsel = (1 << (nsel - 1).bit_length()) - 1
        while t < horizon:
            ev.append([t, 0, rng.randint(0, maxsel) if rng.random() < 0.15 else rng.randint(0, p["n"] - 1)])
            t += rng.choice([1, 2, 5, 10, 30, 60])
        ev.append([horizon, 0, rng.randint(0, p["n"] - 1)])
        return ev

    def reference(self, p, acc, ctl, got):
        exp = [[] for _ in range(p["n"])]
        for t, tok in acc[0]:
            sel = ctl[t][0] if t < len(ctl) else None
            if sel is None or sel >= p["n"]:
                raise RefViolation("misrouted", "sink", "token accepted at cycle %d with sel=%s (no such source)" % (t, sel))
            exp[sel].append((dict(tok), {}, t))
        return exp


class FGate(Family):
    name = "Gate"

    def draw(self, rng):
        return {"payload": draw_layout(rng), "param": draw_params_layout(rng), "srwd": rng.random() < 0.5}

    def build(self, p):
        from litex.soc.interconnect import stream
        d = stream.Gate(stream.EndpointDescription(lay(p["payload"]), lay(p["param"])),
                        sink_ready_when_disabled=p["srwd"])
        return Built(d, [d.sink], [d.source], ctl=[d.enable])

    def ctl_events(self, rng, p, horizon):
        ev, t = [[0, 0, 1]], 0
        while t < horizon:
            t += rng.choice([1, 2, 5, 10, 30])
            ev.append([t, 0, rng.randint(0, 1)])
        ev.append([horizon, 0, 1])
        return ev

    def reference(self, p, acc, ctl, got):
        exp = []
        for t, tok in acc[0]:
            en = ctl[t][0] if t < len(ctl) else 1
            if en:
                exp.append((dict(tok), {}, t))
            elif not p["srwd"]:
                raise RefViolation("accepted_while_disabled", "sink", "token accepted at cycle %d with enable=0" % t)
        return [exp]


class FPipelinedActor(Family):
    name = "PipelinedActor"

    def draw(self, rng):
        return {"latency": rng.choice([1, 2, 3]), "w": rng.choice([4, 8, 16])}

    def sink_layouts(self, p):
        return [([("data", p["w"])], [])]

    def build(self, p):
        from migen import Signal, If
        from litex.soc.interconnect import stream

        class Act(stream.PipelinedActor):
            def __init__(self, w, latency):
                self.sink = stream.Endpoint([("data", w)])
                self.source = stream.Endpoint([("data", w)])
                stream.PipelinedActor.__init__(self, latency)
                d = self.sink.data
                for i in range(latency):
                    n = Signal(w)
                    self.sync += If(self.pipe_ce, n.eq(d))
                    d = n
                self.comb += self.source.data.eq(d)
        d = Act(p["w"], p["latency"])
        return Built(d, [d.sink], [d.source])

    def reference(self, p, acc, ctl, got):
        return [ident([t for _, t in acc[0]])]


class FShifter(Family):
    name = "Shifter"
    token_mode = ("packets", "none")

    def draw(self, rng):
        return {"dw": rng.choice([4, 8, 16]), "shift": 0}

    def sink_layouts(self, p):
        return [([("data", p["dw"])], [])]

    def build(self, p):
        from litex.soc.interconnect import stream
        d = stream.Shifter(p["dw"])
        return Built(d, [d.sink], [d.source], ctl=[d.shift])

    def ctl_events(self, rng, p, horizon):
        return [[0, 0, p["shift"]]]

    def draw_post(self, rng, p):
        p["shift"] = rng.randint(0, p["dw"] - 1)

    def reference(self, p, acc, ctl, got):
        out = []
        dw, sh = p["dw"], p["shift"]
        for _, t in acc[0]:
            e = {"first": t["first"], "last": t["last"], "data": t["data"] >> sh}
            # the upper `shift` bits come from whatever the sink presents next (valid or not)
            out.append((e, {"data": (((1 << sh) - 1) << (dw - sh)) if sh else 0}))
        return [out]


ELEMENTS_IDENT = ["PipeValid", "PipeReady", "Buffer", "Delay", "SyncFIFO"]


class FPipeline(Family):
    """2-3 identity elements (+ optional down/up converter pair) composed with stream.Pipeline or
    BufferizeEndpoints."""
    name = "Pipeline"

    def draw(self, rng):
        k = rng.choice([2, 2, 3])
        w = rng.choice([4, 8, 16])
        stages = []
        for _ in range(k):
            kind = rng.choice(ELEMENTS_IDENT + ["ConvPair"])
            if kind == "Buffer":
                stages.append({"kind": kind, "pipe_valid": rng.random() < 0.7, "pipe_ready": rng.random() < 0.6})
            elif kind == "Delay":
                stages.append({"kind": kind, "n": rng.choice([0, 1, 2])})
            elif kind == "SyncFIFO":
                stages.append({"kind": kind, "depth": rng.choice([0, 1, 2, 3, 4]), "buffered": rng.random() < 0.5})
            elif kind == "ConvPair":
                stages.append({"kind": kind, "ratio": rng.choice([2, 3, 4]), "down_first": rng.random() < 0.5,
                               "reverse": rng.random() < 0.3})
            else:
                stages.append({"kind": kind})
        return {"w": w, "stages": stages, "bufferize": rng.choice([None, "sink", "source", "both"]),
                "br_pipe_ready": rng.random() < 0.5}

    def sink_layouts(self, p):
        return [([("data", p["w"])], [])]

    def tokens(self, rng, p):
        g = 1
        for s in p["stages"]:
            if s["kind"] == "ConvPair":
                g = g * s["ratio"]
        n = rng.randint(*self.n_tokens)
        return [gen_tokens(rng, n, [("data", p["w"])], [], mode="aligned", group=g, maxlen=max(9, 2 * g))]

    def build(self, p):
        from migen import Module
        from litex.soc.interconnect import stream
        w = p["w"]
        layout = [("data", w)]
        mods = []
        for s in p["stages"]:
            k = s["kind"]
            if k == "PipeValid":
                mods.append(stream.PipeValid(layout))
            elif k == "PipeReady":
                mods.append(stream.PipeReady(layout))
            elif k == "Buffer":
                mods.append(stream.Buffer(layout, pipe_valid=s["pipe_valid"], pipe_ready=s["pipe_ready"]))
            elif k == "Delay":
                mods.append(stream.Delay(layout, s["n"]))
            elif k == "SyncFIFO":
                mods.append(stream.SyncFIFO(layout, s["depth"], buffered=s["buffered"]))
            elif k == "ConvPair":
                r = s["ratio"]
                a = stream.Converter(w, w * r, reverse=s["reverse"])
                b = stream.Converter(w * r, w, reverse=s["reverse"])
                if s["down_first"]:   # variant: a small FIFO between the two converters
                    mods.extend([a, stream.SyncFIFO([("data", w * r)], 2), b])
                else:
                    mods.extend([a, b])
        m = Module()
        for x in mods:
            m.submodules += x
        if p["bufferize"]:
            d = {}
            if p["bufferize"] in ("sink", "both"):
                d["sink"] = stream.DIR_SINK
            if p["bufferize"] in ("source", "both"):
                d["source"] = stream.DIR_SOURCE
            last = mods[-1]
            first = mods[0]
            # BufferizeEndpoints wraps a module exposing sink/source
            inner = Module()
            pipe = stream.Pipeline(*mods)
            inner.submodules += pipe
            inner.sink, inner.source = pipe.sink, pipe.source
            top = stream.BufferizeEndpoints(d, pipe_valid=True, pipe_ready=p["br_pipe_ready"])(inner)
            m.submodules += top
            return Built(m, [top.sink], [top.source], extra=("lazy",))
        pipe = stream.Pipeline(*mods)
        m.submodules += pipe
        return Built(m, [pipe.sink], [pipe.source])

    def reference(self, p, acc, ctl, got):
        toks = [t for _, t in acc[0]]
        g = 1
        for s in p["stages"]:
            if s["kind"] == "ConvPair":
                g = max(g, s["ratio"])
        # ConvPair(up then down) regroups: first/last of a group are ORed onto its ends
        cur = toks
        for s in p["stages"]:
            if s["kind"] != "ConvPair":
                continue
            r = s["ratio"]
            nxt = []
            grp = []
            for t in cur:
                grp.append(t)
                if len(grp) == r or t["last"]:
                    if len(grp) != r:
                        return None  # partial group: stale chunks would be re-split (not generated)
                    f = int(any(x["first"] for x in grp))
                    l = int(any(x["last"] for x in grp))
                    for i, x in enumerate(grp):
                        y = dict(x)
                        y["first"] = f & int(i == 0)
                        y["last"] = l & int(i == r - 1)
                        nxt.append(y)
                    grp = []
            cur = nxt
        return [ident(cur)]


class RefViolation(Exception):
    def __init__(self, cls, observable, msg):
        Exception.__init__(self, msg)
        self.cls, self.observable, self.msg = cls, observable, msg


FAMILIES = {f.name: f for f in [FPipeValid(), FPipeReady(), FBuffer(), FDelay(), FSyncFIFO(), FConverter(),
                                FStride(), FGearbox(), FPack(), FUnpack(), FPackUnpack(), FCast(), FMux(),
                                FDemux(), FGate(), FPipelinedActor(), FShifter(), FPipeline()]}

# ------------------------------------------------------------------------------------------------
# generate / run
# ------------------------------------------------------------------------------------------------


def generate(family, rng, tier, known=True):
    fam = FAMILIES[family]
    for _ in range(50):
        p = fam.draw(rng)
        if hasattr(fam, "draw_post"):
            fam.draw_post(rng, p)
        if not known or fam.known_region(p) is None:
            break
    toks = fam.tokens(rng, p)
    horizon = rng.choice([60, 150, 300])
    ps, pd = draw_rates(rng)
    style = rng.random()
    scn = {"family": family, "params": p, "tokens": toks, "horizon": horizon}
    scn["src_patterns"] = [prng.pattern(rng, horizon, ps) for _ in range(len(toks))]
    nsrc = p.get("n", 1) if family == "Demultiplexer" else 1
    scn["dst_patterns"] = [prng.pattern(rng, horizon, pd) for _ in range(nsrc)]
    if style < 0.15:
        # directed coincidence patterns: single-cycle bubbles / single-cycle stalls
        k = rng.randint(2, 7)
        scn["src_patterns"] = [("1" * (k - 1) + "0") * (horizon // k) for _ in range(len(toks))]
        k2 = rng.randint(2, 7)
        scn["dst_patterns"] = [("1" * (k2 - 1) + "0") * (horizon // k2) for _ in range(nsrc)]
    elif style < 0.25:
        k = rng.randint(2, 9)
        scn["dst_patterns"] = [("0" * (k - 1) + "1") * (horizon // k) for _ in range(nsrc)]
    scn["garbage"] = [rng.getrandbits(16) for _ in range(97)] if rng.random() < 0.5 else None
    scn["dst_tail"] = rng.choice([1, 1, 1, 2, 3, 7])
    scn["ctl"] = fam.ctl_events(rng, p, horizon)
    return scn


def expected_total(fam, p, toks):
    return None


def run(scn, want_fingerprints=True):
    fam = FAMILIES[scn["family"]]
    p = scn["params"]
    try:
        b = fam.build(p)
    except RefViolation as e:
        return {"violations": [{"prop": "C03", "cls": e.cls, "observable": e.observable, "msg": e.msg, "cycle": None}],
                "digest": "build", "stats": {"checks": 1}}
    toks = scn["tokens"]
    horizon = scn["horizon"]
    ntok = sum(len(t) for t in toks)
    ratio = max(p.get("ratio", 1), p.get("n", 1) if scn["family"] in ("Unpack",) else 1)
    if scn["family"] == "Converter":
        ratio = max(p["nbits_from"] // p["nbits_to"], 1)
    if scn["family"] == "Gearbox":
        ratio = max(1, -(-p["i_dw"] // p["o_dw"]))
    if scn["family"] == "Pipeline":
        ratio = 1
        for s in p["stages"]:
            if s["kind"] == "ConvPair":
                ratio = max(ratio, s["ratio"])
    tailk = scn.get("dst_tail", 1)
    bound = horizon + (ntok * ratio + 64) * tailk * 2 + 64
    if scn["family"] in ("Multiplexer",):
        bound = horizon + (ntok + 16) * 2 * tailk + 64
    bench = Bench(wrap_top(b.dut), max_cycles=bound, tail=6)
    prods, conss = [], []
    for i, ep in enumerate(b.sinks):
        prods.append(bench.add(Producer(ep, toks[i], scn["src_patterns"][i], scn.get("garbage"), name="sink%d" % i,
                                  coop_from=horizon)))
    ctl_changed = [False]
    for i, ep in enumerate(b.sources):
        pat = scn["dst_patterns"][i % len(scn["dst_patterns"])]
        if tailk > 1:
            pat = pat + ("0" * (tailk - 1) + "1") * ((bound - len(pat)) // tailk + 1)
        c = Consumer(ep, pat, name="source%d" % i)
        c.quiet = 8 * tailk + 40
        conss.append(c)
    probe = None
    if b.ctl:
        probe = bench.add(Probe(b.ctl))
        ev = list(scn.get("ctl", []))
        if scn["family"] == "Multiplexer":
            # every sink gets a turn long enough to drain in the tail
            per = (max(len(t) for t in toks) + 8) * tailk
            ev = [e for e in ev if e[0] < horizon] + [[horizon + i * per, 0, i] for i in range(p["n"])]
        elif scn["family"] == "Gate":
            ev = [e for e in ev if e[0] < horizon] + [[horizon, 0, 1]]      # cooperative tail: enabled
        elif scn["family"] == "Demultiplexer":
            ev = [e for e in ev if e[0] < horizon] + [[horizon, 0, p.get("tail_sel", 0) % p["n"]]]
        bench.add(Controller(b.ctl, ev))
        # stability premise: the control input did not change between the two cycles compared
        for c in conss:
            c.premise = (lambda pr=probe: len(pr.hist) < 2 or pr.hist[-1] == pr.hist[-2])
    for c in conss:
        bench.add(c)
    # expected number of tokens unknown up front for some families: run until producers done and quiet
    bench.run()
    viol = []
    stats = {"cycles": bench.cycle["sys"], "faults": {}, "probes": dict(bench.probes)}
    if bench.violation is not None:
        d = bench.violation.as_dict()
        d["prop"] = "C04"
        viol.append(d)
    acc = [[(t, pr.tokens[i]) for t, i in pr.accepted] for pr in prods]
    got = [c.got for c in conss]
    ctl_hist = probe.hist if probe else []
    checks = 0
    # --- C03: reference ---
    try:
        exp = fam.reference(p, acc, ctl_hist, got)
    except RefViolation as e:
        exp = None
        viol.append({"prop": "C03", "cls": e.cls, "observable": e.observable, "msg": e.msg, "cycle": None})
    all_accepted = all(pr.done() for pr in prods)
    if exp is not None:
        for si, (e_list, g_list) in enumerate(zip(exp, got)):
            name = "source%d" % si
            for k, (tg, g) in enumerate(g_list):
                if k >= len(e_list):
                    viol.append({"prop": "C03", "cls": "token_invented", "observable": name,
                                 "msg": "token #%d delivered at cycle %d but only %d expected: %r" % (k, tg, len(e_list), g),
                                 "cycle": tg})
                    break
                e = e_list[k]
                et, dc = e[0], e[1]
                bad = []
                for f, val in et.items():
                    if f not in g:
                        continue
                    m = dc.get(f, 0)
                    if (g[f] ^ val) & ~m:
                        bad.append((f, val, g[f]))
                    checks += 1
                if len(e) > 2 and e[2] != tg:
                    bad.append(("cycle", e[2], tg))
                if bad:
                    viol.append({"prop": "C03", "cls": "token_mismatch", "observable": name,
                                 "msg": "token #%d at cycle %d: %s (field, expected, got)" % (k, tg, bad[:4]),
                                 "cycle": tg})
                    break
            else:
                if len(g_list) < len(e_list):
                    # tokens accepted by the element but not delivered within the bound
                    if True:
                        viol.append({"prop": "C03", "cls": "token_missing", "observable": name,
                                     "msg": "%d of %d expected tokens delivered after %d cycles (cooperative tail from %d)"
                                     % (len(g_list), len(e_list), bench.cycle["sys"], horizon), "cycle": None})
                        viol.append({"prop": "C04", "cls": "no_progress", "observable": name,
                                     "msg": "%d of %d expected tokens delivered after %d cycles (cooperative tail from %d)"
                                     % (len(g_list), len(e_list), bench.cycle["sys"], horizon), "cycle": None})
    # --- C04: sink progress: every token must have been accepted within the bound ---
    if not all_accepted:
        blocked_ok = scn["family"] in ("Gate",) and False
        if not blocked_ok:
            for i, pr in enumerate(prods):
                if not pr.done():
                    viol.append({"prop": "C04", "cls": "sink_blocked", "observable": "sink%d" % i,
                                 "msg": "%d of %d tokens accepted after %d cycles (cooperative tail from %d)"
                                 % (pr.idx, len(pr.tokens), bench.cycle["sys"], horizon), "cycle": None})
                    break
    checks += sum(c.stability_armed for c in conss)
    stalled_src = sum(pr.stalled_cycles for pr in prods)
    stalled_dst = sum(c.stall_cycles for c in conss)
    stats["checks"] = checks
    stats["nontrivial"] = bool(stalled_src > 0 and stalled_dst > 0 and sum(len(g) for g in got) > 0)
    stats["faults"] = {"stall_src": sum(pr.paused_cycles for pr in prods), "stall_dst": stalled_dst}
    if scn.get("garbage"):
        stats["faults"]["garbage_idle"] = sum(pr.gpos for pr in prods)
    stats["probes"]["stability_armed"] = sum(c.stability_armed for c in conss)
    stats["probes"]["stability_disarmed"] = sum(c.stability_disarmed for c in conss)
    stats["probes"]["tokens_delivered"] = sum(len(g) for g in got)
    stats["fingerprints"] = sorted(bench.fingerprints)[:300]
    return {"violations": viol, "digest": bench.digest(), "stats": stats}
