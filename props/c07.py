"""C07 - Wishbone adapters and memories are transparent to the master.

DUTs: wishbone.DownConverter/UpConverter/Converter, Cache, Remapper, Wishbone2CSR (+ csr_bus.SRAM), SRAM
(classic + registered-feedback bursts, read_only, init, narrow memory), and chains of two. One master
issues a literal history; the backing store is a memory agent with literal latencies (or the real SRAM).
Oracle: reference byte memory over the (translated) backing-store byte addresses."""
from dsim import prng
from dsim.kernel import Bench, wrap_top, Agent
from dsim.wb_agents import WBMaster, WBSlave, PortRecorder, CombSlave

PROPERTY = "C07"
LEVEL = "exploration"
RULE = ("one run = one real adapter/memory (family down/up/cache/remap/sram/wb2csr/chain with seeded widths, ratios 2/4/8, "
        "cache geometry, remap windows, burst capability) and a literal master history (reads/writes, arbitrary byte selects "
        "incl. 0 and non-contiguous, classic cycles and constant/incrementing/wrapping bursts, gaps, cyc held or dropped, "
        "bursts cut short) over a memory agent with literal latencies; every read lane with sel set is compared with a "
        "reference byte memory, each transfer must be acknowledged once, the backing store is compared with the reference "
        "after a flush, slave-side requests must stay stable until acknowledged. Non-trivial = the history contains a read "
        "of a byte written earlier through a different access shape or after an eviction/aliasing, and the store inserted "
        "wait states; distinct = distinct event-log digest")
ASSUMPTIONS = [
    "the master is a legal Wishbone master; burst beats follow the registered-feedback rules (cti/bte, address advanced by the "
    "master, last beat cti=7) unless the burst is cut short by dropping cyc",
    "Cache: the backing store's initial content is zero where the address tag is 0 (no valid bits: listed known finding C07-F1); "
    "word order inside a wider backing word follows the documented `reverse` parameter",
    "Wishbone2CSR: accesses are whole words (sel all ones or zero): the CSR bus has no byte enables by design",
    "memories wrap modulo their depth (address bits above the memory size are ignored by SRAM by design)",
]
COMPONENTS = {"real": ["litex.soc.interconnect.wishbone.DownConverter/UpConverter/Converter/Cache/Remapper/SRAM/Wishbone2CSR",
                       "litex.soc.interconnect.csr_bus.SRAM", "litex.gen.sim.core.Simulator"],
              "stub": ["Wishbone master agent", "backing-store memory agent", "clock source"]}
CHUNK = 4
FAMS = ["down", "up", "cache", "remap", "sram", "wb2csr", "chain"]


SEEDED_SCALE = {"quick": 3, "thorough": 4}      # multiplies the run counts of the sampled families in plan()

def plan(tier):
    n = 150 if tier == "quick" else 4000
    return [(f, n) for f in FAMS]


def hbyte(b):
    return ((b * 2654435761) >> 7) & 0xff


# ------------------------------------------------------------------------------------------------
# generate
# ------------------------------------------------------------------------------------------------
def gen_ops(rng, n, nsel, addrs, bursts=False, full_sel=False, wrap_words=None):
    """addrs: callable rng -> word address."""
    ops = []
    dwbits = nsel * 8
    while len(ops) < n:
        if bursts and rng.random() < 0.35:
            kind = rng.choice(["incr", "incr", "wrap", "const"])
            ln = rng.randint(2, 8)
            wait_states = rng.random() < 0.4
            a0 = addrs(rng)
            we = int(rng.random() < 0.5)
            bte = 0
            if kind == "wrap":
                bte = rng.choice([1, 2, 3])
                ln = rng.choice([2, 4, 8, 16])
                ln = min(ln, 4 << (bte - 1))      # longer than the wrap modulus: listed known finding C07-F2
            cut = False   # cutting a registered-feedback burst short (no cti=7 beat) is not legal for the master
            for k in range(ln):
                if kind == "const":
                    a, cti = a0, 1
                elif kind == "incr":
                    a, cti = a0 + k, 2
                else:
                    msk = (4 << (bte - 1)) - 1
                    a, cti = (a0 & ~msk) | ((a0 + k) & msk), 2
                last = k == ln - 1
                ops.append({"we": we, "adr": a, "dat": rng.getrandbits(dwbits), "sel": (1 << nsel) - 1 if rng.random() < 0.8 else rng.getrandbits(nsel),
                            # (a master wait state inside a burst now and then: stb low for a cycle or two with cyc and cti held)
                            "gap": rng.choice([0, 1, 3]) if k == 0 else (rng.choice([1, 2]) if wait_states and rng.random() < 0.25 else 0),
                            "keep_cyc": int(k > 0),
                            "cti": 7 if (last and not cut) else cti, "bte": bte})
            if cut:
                # burst cut short: the next op must start after cyc was dropped
                ops.append({"we": 0, "adr": addrs(rng), "dat": 0, "sel": (1 << nsel) - 1, "gap": 2, "keep_cyc": 0, "cti": 0, "bte": 0})
            continue
        we = int(rng.random() < 0.5)
        r = rng.random()
        if full_sel:
            sel = (1 << nsel) - 1 if r < 0.9 else 0
        elif r < 0.5:
            sel = (1 << nsel) - 1
        elif r < 0.6:
            sel = 0
        else:
            sel = rng.getrandbits(nsel)
        gap = rng.choice([0, 0, 1, 2, 6])
        ops.append({"we": we, "adr": addrs(rng), "dat": rng.getrandbits(dwbits), "sel": sel, "gap": gap,
                    "keep_cyc": int(gap > 0 and rng.random() < 0.4), "cti": 0, "bte": 0})
    return ops


def generate(family, rng, tier):
    p = {"family": family}
    n = rng.randint(30, 120)
    lat = [rng.choice([1, 1, 1, 2, 4]) for _ in range(16)]
    if family in ("down", "up"):
        ratio = rng.choice([2, 2, 4, 8])
        narrow = rng.choice([8, 16, 32]) if ratio < 8 else 8
        if family == "down":
            p.update(dw_m=narrow * ratio, dw_s=narrow)
        else:
            p.update(dw_m=narrow, dw_s=narrow * ratio)
        p["wrapper"] = rng.random() < 0.5
        base = rng.randrange(0, 64)
        ops = gen_ops(rng, n, p["dw_m"] // 8, lambda r: base + r.randrange(8), bursts=False)
    elif family == "cache":
        dw_m, dw_s = rng.choice([(32, 32), (32, 64), (32, 128), (64, 32), (32, 32), (64, 8), (128, 16), (64, 16)])      # (slave up to 8x narrower / 4x wider)
        cachesize = rng.choice([4, 8, 16, 64])       # in 32-bit words
        cachesize = max(cachesize, max(dw_s // dw_m, 1) * 2 if dw_s > dw_m else 4)
        p.update(dw_m=dw_m, dw_s=dw_s, cachesize=cachesize, reverse=rng.random() < 0.6)
        # master word addresses: a few lines, a few tags (conflicts -> evictions)
        nlines_words = cachesize
        tags = [0, 1, 2, 5]
        # (in four runs out of ten some accesses go to the upper half of the master's address space as well: same line, same low tag bits)
        hi = (1 << 19) if rng.random() < 0.4 else 0
        ops = gen_ops(rng, n, dw_m // 8, lambda r: r.choice(tags) * nlines_words + r.randrange(min(nlines_words, 8)) +
                      (hi if r.random() < 0.3 else 0))
        p["tags"], p["span"] = tags, nlines_words
    elif family == "remap":
        p.update(dw_m=32, dw_s=32, origin=rng.choice([0, 0x1000, 0x40000000]), size=rng.choice([None, 0x100, 0x1000, 0x10000]),
                 regions=[])
        if rng.random() < 0.6:
            k = rng.randint(1, 2)
            srcs, dsts, o = [], [], p["origin"]
            for i in range(k):
                s_o = o + 0x40 * (2 * i + 1)
                srcs.append([s_o, 0x20])
                dsts.append([rng.choice([0x2000, 0x800000, 0x100]) + 0x100 * i, 0x20])
            p["regions"] = [srcs, dsts]
        ops = gen_ops(rng, n, 4, lambda r: (r.choice([0, 0x10, 0x18, 0x30, 0x38, 0x400, 0x4000]) + r.randrange(8)))
    elif family == "sram":
        bursting = rng.random() < 0.6
        depth = rng.choice([8, 16, 32, 64])
        ro = rng.random() < 0.25
        narrow = ro and rng.random() < 0.4
        p.update(dw_m=32, depth=depth, bursting=bursting, read_only=ro, mem_width=rng.choice([8, 16]) if narrow else 32,
                 init=[rng.getrandbits(32) for _ in range(rng.choice([0, depth // 2, depth]))])
        if not narrow and rng.random() < 0.25:
            p["hint"] = [rng.getrandbits(1), rng.choice([None, False, True])]      # [bus_read_only hint on the Memory, read_only argument]
        ops = gen_ops(rng, n, 4, lambda r: r.randrange(depth) + (depth * r.choice([0, 0, 1, 4])), bursts=bursting)
    elif family == "wb2csr":
        p.update(dw_m=32, register=rng.random() < 0.5, depth=rng.choice([8, 16, 64]))
        ops = gen_ops(rng, n, 4, lambda r: r.randrange(p["depth"]), full_sel=True)
    elif family == "chain":
        kind = rng.choice(["down_up", "up_down", "cache_down", "down_sram"])
        p.update(kind=kind, dw_m=32, ratio=rng.choice([2, 4]), cachesize=rng.choice([4, 8, 16]), reverse=rng.random() < 0.5)
        if kind == "cache_down":
            ops = gen_ops(rng, n, 4, lambda r: r.choice([0, 1, 3]) * p["cachesize"] + r.randrange(min(p["cachesize"], 8)))
        elif kind == "down_sram":
            ops = gen_ops(rng, n, 4, lambda r: r.randrange(16))
        else:
            ops = gen_ops(rng, n, 4, lambda r: 0x20 + r.randrange(8))
    scn = {"family": family, "params": p, "ops": [ops], "lat": lat, "errs": []}
    if rng.random() < 0.3:
        # the backing store is a zero-wait-state memory (combinational ack in the cycle of the request) with literal wait cycles
        scn["comb_slave"] = prng.pattern(rng, 400, rng.choice([1.0, 1.0, 0.8, 0.5]))
    return scn


# ------------------------------------------------------------------------------------------------
# build: returns (top, master bus, slave bus or None, xlate(master byte addr)->store byte addr or None (unmapped),
#                  flush ops, info)
# ------------------------------------------------------------------------------------------------
def build(p):
    from migen import Module, Memory
    from litex.soc.interconnect import wishbone, csr_bus
    fam = p["family"]
    m = Module()
    info = {"store": "agent", "init": None, "read_only": False, "store_bytes": None}
    flush = []
    if fam in ("down", "up"):
        mb = wishbone.Interface(data_width=p["dw_m"], adr_width=30 - (p["dw_m"] // 8).bit_length() + 1)
        sb = wishbone.Interface(data_width=p["dw_s"], adr_width=30 - (p["dw_s"] // 8).bit_length() + 1)
        if p["wrapper"]:
            m.submodules.dut = wishbone.Converter(mb, sb)
        elif fam == "down":
            m.submodules.dut = wishbone.DownConverter(mb, sb)
        else:
            m.submodules.dut = wishbone.UpConverter(mb, sb)
        return m, mb, sb, (lambda b: b), flush, info
    if fam == "cache":
        dw_m, dw_s = p["dw_m"], p["dw_s"]
        mb = wishbone.Interface(data_width=dw_m, adr_width=20)
        ratio_up = max(dw_s // dw_m, 1)
        ratio_dn = max(dw_m // dw_s, 1)
        sb = wishbone.Interface(data_width=dw_s, adr_width=20 - (ratio_up.bit_length() - 1) + (ratio_dn.bit_length() - 1))
        m.submodules.dut = wishbone.Cache(p["cachesize"], mb, sb, reverse=p["reverse"])
        bm, bs = dw_m // 8, dw_s // 8

        def xl(b):
            if ratio_up == 1:
                return b
            A, lane = b // bm, b % bm
            sw, pos = A // ratio_up, A % ratio_up
            if p["reverse"]:
                pos = ratio_up - 1 - pos
            return sw * bs + pos * bm + lane
        # flush: read every line with a tag nobody used -> dirty lines are written back
        span = p["span"]
        line_words = ratio_up       # master words per line
        nl = p["cachesize"]          # master words per cache image (linebits = log2(cachesize) - offsetbits)
        for w_ in range(0, nl, line_words):
            flush.append({"we": 0, "adr": 9 * nl + w_, "dat": 0, "sel": (1 << bm) - 1, "gap": 0, "keep_cyc": 0})
        info["cache_words"] = nl
        return m, mb, sb, xl, flush, info
    if fam == "remap":
        from litex.soc.integration.soc import SoCRegion
        mb = wishbone.Interface(data_width=32, adr_width=30)
        sb = wishbone.Interface(data_width=32, adr_width=30)
        srcs = [SoCRegion(origin=o, size=s) for o, s in (p["regions"][0] if p["regions"] else [])]
        dsts = [SoCRegion(origin=o, size=s) for o, s in (p["regions"][1] if p["regions"] else [])]
        m.submodules.dut = wishbone.Remapper(mb, sb, origin=p["origin"], size=p["size"], src_regions=srcs, dst_regions=dsts)

        def xl(b):
            size = p["size"] if p["size"] is not None else 1 << 32
            a = (p["origin"] | (b & (size - 1))) & 0xffffffff
            a = ((p["origin"] >> 2) | ((b >> 2) & ((size >> 2) - 1))) << 2 | (b & 3)
            for (so, ss), (do, ds) in zip(*(p["regions"] or [[], []])):
                if so <= (a & ~3) < so + ss:
                    return (do + (a & ~3) - so) & 0xffffffff | (a & 3)
            return a
        return m, mb, sb, xl, flush, info
    if fam == "sram":
        mb = wishbone.Interface(data_width=32, adr_width=30, bursting=p["bursting"])
        if p["mem_width"] != 32:
            mem = Memory(p["mem_width"], p["depth"], init=[x & ((1 << p["mem_width"]) - 1) for x in p["init"]])
            m.submodules.dut = wishbone.SRAM(mem, read_only=True, bus=mb)
        elif p.get("hint") is not None:
            # a Memory object that carries the bus_read_only hint, with the read_only argument None / False / True: the argument wins, the
            # hint only decides when the argument is None
            mem = Memory(32, p["depth"], init=p["init"] or None)
            mem.bus_read_only = bool(p["hint"][0])
            m.submodules.dut = wishbone.SRAM(mem, read_only=p["hint"][1], bus=mb)
        else:
            m.submodules.dut = wishbone.SRAM(p["depth"] * 4, read_only=p["read_only"], init=p["init"] or None, bus=mb)
        depth = p["depth"]
        ro_eff = p["read_only"]
        if p.get("hint") is not None and p["mem_width"] == 32:
            ro_eff = bool(p["hint"][0]) if p["hint"][1] is None else bool(p["hint"][1])
        info.update(store="dut", read_only=ro_eff or p["mem_width"] != 32)
        mw = p["mem_width"]
        init = list(p["init"]) + [0] * (depth - len(p["init"]))

        def initb(b):
            w_ = init[(b // 4) % depth] & ((1 << mw) - 1)
            return (w_ >> (8 * (b % 4))) & 0xff
        info["init"] = initb
        return m, mb, None, (lambda b: ((b // 4) % depth) * 4 + (b % 4)), flush, info
    if fam == "wb2csr":
        mb = wishbone.Interface(data_width=32, adr_width=30)
        cb = csr_bus.Interface(data_width=32, address_width=14)
        m.submodules.bridge = wishbone.Wishbone2CSR(bus_wishbone=mb, bus_csr=cb, register=p["register"])
        mem = Memory(32, p["depth"], name="m")
        m.submodules.sram = csr_bus.SRAM(mem, 0, bus=cb)
        info.update(store="dut", init=lambda b: 0)
        depth = p["depth"]
        return m, mb, None, (lambda b: ((b // 4) % depth) * 4 + (b % 4)), flush, info
    if fam == "chain":
        kind = p["kind"]
        mb = wishbone.Interface(data_width=32, adr_width=28)
        r = p["ratio"]
        if kind == "down_up":
            mid = wishbone.Interface(data_width=32 // r, adr_width=28 + (r.bit_length() - 1))
            sb = wishbone.Interface(data_width=32, adr_width=28)
            m.submodules.a = wishbone.Converter(mb, mid)
            m.submodules.b = wishbone.Converter(mid, sb)
            return m, mb, sb, (lambda b: b), flush, info
        if kind == "up_down":
            mid = wishbone.Interface(data_width=32 * r, adr_width=28 - (r.bit_length() - 1))
            sb = wishbone.Interface(data_width=32, adr_width=28)
            m.submodules.a = wishbone.Converter(mb, mid)
            m.submodules.b = wishbone.Converter(mid, sb)
            return m, mb, sb, (lambda b: b), flush, info
        if kind == "cache_down":
            mid = wishbone.Interface(data_width=32, adr_width=28)
            sb = wishbone.Interface(data_width=32 // r, adr_width=28 + (r.bit_length() - 1))
            m.submodules.a = wishbone.Cache(p["cachesize"], mb, mid, reverse=p["reverse"])
            m.submodules.b = wishbone.Converter(mid, sb)
            for w_ in range(p["cachesize"]):
                flush.append({"we": 0, "adr": 9 * p["cachesize"] + w_, "dat": 0, "sel": 15, "gap": 0, "keep_cyc": 0})
            info["cache_words"] = p["cachesize"]
            return m, mb, sb, (lambda b: b), flush, info
        if kind == "down_sram":
            mid = wishbone.Interface(data_width=32 // r, adr_width=28 + (r.bit_length() - 1))
            m.submodules.a = wishbone.Converter(mb, mid)
            m.submodules.b = wishbone.SRAM(64, bus=mid)
            info.update(store="dut", init=lambda b: 0)
            return m, mb, None, (lambda b: b % 64), flush, info
    raise KeyError(fam)


def run(scn):
    p = scn["params"]
    fam = p["family"]
    top, mb, sb, xl, flush, info = build(p)
    nsel = len(mb.sel)
    ops = list(scn["ops"][0])
    # read back everything written (through the adapter), then flush, appended by the harness
    written = []
    for op in ops:
        if op["we"] and op["adr"] not in written:
            written.append(op["adr"])
    tail = [{"we": 0, "adr": a, "dat": 0, "sel": (1 << nsel) - 1, "gap": 0, "keep_cyc": 0, "cti": 0, "bte": 0} for a in written[-12:]]
    allops = ops + tail + [dict(f, cti=0, bte=0) for f in flush]
    bench = Bench(wrap_top(top), max_cycles=len(allops) * 40 + 300, tail=6)
    ma = bench.add(WBMaster(mb, allops, name="m"))
    sa = None
    cache_tag0 = fam == "cache" or (fam == "chain" and p.get("kind") == "cache_down")
    if sb is not None:
        bs = len(sb.sel)
        cw = info.get("cache_words")
        zero_below = None
        if cache_tag0 and not p.get("nonzero_tag0"):
            # master words [0, cache_words) have tag 0 -> their store bytes start as zero
            zero_below = set(xl(b) for b in range(cw * nsel))

        def init_word(a, bs=bs):
            w_ = 0
            for i in range(bs):
                b = a * bs + i
                if zero_below is not None and b in zero_below:
                    continue
                w_ |= hbyte(b) << (8 * i)
            return w_
        comb_bits = None
        if scn.get("comb_slave"):
            top_word = max(xl(op["adr"] * nsel + i) // bs for op in allops for i in range(nsel))
            if top_word < 4096:
                comb_bits = max(1, top_word.bit_length())
        if comb_bits is not None:
            sa = bench.add(CombSlave(top, sb, comb_bits, init_word, scn["comb_slave"]))
        else:
            sa = bench.add(WBSlave(sb, scn["lat"], name="s", init=init_word, errs=()))
        initb = lambda b: 0 if (zero_below is not None and b in zero_below) else hbyte(b)  # noqa
        # slave-side protocol monitor: request stable until acknowledged, stb only with cyc
        prev = [None]
        st = {"armed": 0}

        def mon(t, row):
            cyc, stb, we, adr, dat_w, sel, ack, err = row
            if stb and not cyc:
                bench.violate("stb_without_cyc", "slave side", "cycle %d: stb high while cyc low" % t)
            if prev[0] is not None:
                st["armed"] += 1
                pc = prev[0]
                cur = (cyc, stb, we, adr, sel, dat_w if we else 0)
                if cur != pc:
                    bench.violate("request_changed", "slave side", "cycle %d: request changed before ack: %r -> %r (cyc,stb,we,adr,sel,dat_w)" % (t, pc, cur))
            prev[0] = (cyc, stb, we, adr, sel, dat_w if we else 0) if (cyc and stb and not ack and not err) else None
        bench.add(PortRecorder([sb.cyc, sb.stb, sb.we, sb.adr, sb.dat_w, sb.sel, sb.ack, sb.err], mon))
    else:
        initb = info["init"]
        st = {"armed": 0}
    bench.run()
    viols = []

    def V(cls, obs, msg, cycle=None):
        viols.append({"prop": "C07", "cls": cls, "observable": obs, "msg": msg, "cycle": cycle})
    if bench.violation is not None:
        viols.append(dict(bench.violation.as_dict(), prop="C07"))
    if not ma.done():
        V("no_ack", "master", "operation #%d %r not acknowledged after %d cycles" % (ma.idx, allops[ma.idx], bench.cycle["sys"]))
    ref = {}
    checks = 0
    raw = 0          # reads of bytes written earlier
    ro = info.get("read_only")
    for r in ma.results:
        op = allops[r["op"]]
        if r["err"]:
            V("unexpected_err", "master", "op #%d %r answered with err" % (r["op"], op))
            break
        for i in range(nsel):
            if not (op["sel"] >> i) & 1:
                continue
            b = xl(op["adr"] * nsel + i)
            if op["we"]:
                if not ro:
                    ref[b] = (op["dat"] >> (8 * i)) & 0xff
            else:
                exp = ref.get(b, initb(b))
                got = (r["dat_r"] >> (8 * i)) & 0xff
                checks += 1
                raw += b in ref
                if got != exp:
                    V("read_data", "master", "op #%d read %#x lane %d (store byte %#x): got %#04x expected %#04x (%s)"
                      % (r["op"], op["adr"], i, b, got, exp, "written earlier" if b in ref else "initial content"), r["done"])
                    break
        else:
            continue
        break
    # backing store equals the reference after the flush
    if sa is not None and not viols:
        bs = len(sb.sel)
        for b, val in ref.items():
            w_ = sa.read_word(b // bs)
            checks += 1
            if (w_ >> (8 * (b % bs))) & 0xff != val:
                V("store_content", "backing store", "store byte %#x holds %#04x, reference %#04x after flush" % (b, (w_ >> (8 * (b % bs))) & 0xff, val))
                break
        # the adapter never writes store bytes that no write enabled
        for x in sa.log:
            if x["we"]:
                for i in range(bs):
                    b = x["adr"] * bs + i
                    if (x["sel"] >> i) & 1 and b not in ref:
                        if ((x["dat_w"] >> (8 * i)) & 0xff) != initb(b):
                            V("stray_write", "backing store", "store byte %#x (never written by the master) overwritten with %#04x (initial %#04x)"
                              % (b, (x["dat_w"] >> (8 * i)) & 0xff, initb(b)))
                            break
                else:
                    continue
                break
    waits = ma.wait_cycles
    stats = {"cycles": bench.cycle["sys"], "checks": checks + st["armed"], "nontrivial": bool(raw and waits),
             "faults": {"lat_slave": len(sa.log) if sa else 0, "zero_wait_slave": int(bool(sa is not None and hasattr(sa, "allow"))),
                        "burst_wait_state": sum(1 for o in ops if o.get("cti") in (2, 7, 1) and o.get("keep_cyc") and o.get("gap"))},
             "probes": {"read_after_write_lanes": raw, "bursts": sum(1 for o in ops if o.get("cti") == 7),
                        "store_writes": sum(1 for x in sa.log if x["we"]) if sa else 0, "fam_" + fam: 1},
             "fingerprints": sorted(bench.fingerprints)[:200]}
    return {"violations": viols, "digest": bench.digest(), "stats": stats}


def known_match(scn, v):
    p = scn.get("params", {})
    if p.get("nonzero_tag0") and v["cls"] == "read_data" and "initial content" in v["msg"]:
        return "C07-F1"
    if p.get("family") == "sram" and p.get("bursting"):
        # wrap burst longer than its modulus somewhere in the history
        run_ = 0
        for op in scn["ops"][0]:
            if op.get("bte") and op.get("cti") in (2, 7):
                run_ += 1
                if run_ > (4 << (op["bte"] - 1)):
                    return "C07-F2"
            if op.get("cti") in (0, 7) or not op.get("bte"):
                run_ = 0 if op.get("cti") != 7 else 0
    return None
