"""C06 - Wishbone interconnect routes each cycle to one slave and answers only its master.

DUTs: wishbone.Arbiter, Decoder, InterconnectPointToPoint, InterconnectShared, Crossbar (timeout None),
1-3 masters x 1-3 slaves, registered or combinational decode, address predicates from the real
SoCRegion.decoder. Parties: classic-cycle masters (back-to-back, gaps with cyc held or dropped,
simultaneous starts, withdrawn requests to unmapped addresses), memory slaves with literal latencies
and occasional err. Per-cycle routing/ownership invariants + history oracle (reference memory)."""
from dsim.kernel import Bench, wrap_top
from dsim.wb_agents import WBMaster, WBSlave, PortRecorder

PROPERTY = "C06"
LEVEL = "exploration"
RULE = ("one run = one real Wishbone interconnect (kind shared/crossbar/p2p/arbiter/decoder, 1-3 masters x 1-3 slaves, "
        "registered or combinational decode, seeded disjoint address windows with holes) with a literal operation list per "
        "master (reads/writes, gaps, cyc held or dropped between transfers, back-to-back, aborted requests to unmapped "
        "addresses) and literal per-transaction slave latencies/err answers. Non-trivial = at least two masters competed "
        "(a master waited while another owned the bus) or a slave inserted wait states, and >= 10 transfers completed; "
        "distinct = distinct event-log digest")
ASSUMPTIONS = [
    "masters are legal classic-cycle masters (signals held until ack/err; stb only with cyc); a request to an unmapped address "
    "is withdrawn after a literal number of cycles because no timeout is configured here (timeouts are C11)",
    "agent slaves answer with latency >= 1 (registered partners); zero-latency answers come from a small FHDL memory slave and "
    "are used only with combinational decode (the code documents that registered decode needs slave latency)",
    "masters tag dat_w[31:28] with their number (also on reads) so that the request visible at a slave can be attributed",
    "fairness bound: a request completes after at most 2*n_masters bus cycles (cyc blocks) of other masters",
]
COMPONENTS = {"real": ["litex.soc.interconnect.wishbone.Arbiter/Decoder/InterconnectShared/Crossbar/InterconnectPointToPoint",
                       "litex.soc.integration.soc.SoCRegion.decoder", "migen.genlib.roundrobin.RoundRobin",
                       "litex.gen.sim.core.Simulator"],
              "stub": ["Wishbone master and slave agents", "FHDL zero-latency memory slave (harness)", "clock source"]}
CHUNK = 4
KINDS = ["shared", "crossbar", "shared", "crossbar", "p2p", "arbiter", "decoder"]


SEEDED_SCALE = {"quick": 10, "thorough": 10}      # multiplies the run counts of the sampled families in plan()

def plan(tier):
    return [("wb", 200 if tier == "quick" else 12000)]


def slave_init(si, a):
    return ((si + 1) << 24) | ((a * 2654435761) & 0xffffff)


def generate(family, rng, tier):
    kind = rng.choice(KINDS)
    nm = 1 if kind in ("p2p", "decoder") else rng.choice([1, 2, 2, 3, 3])
    ns = 1 if kind in ("p2p", "arbiter") else rng.choice([1, 2, 2, 3, 3])
    if rng.random() < 0.15:
        # larger systems now and then (the OR-reductions and priority chains of the decoder / arbiter see 4 to 8 operands)
        if kind not in ("p2p", "decoder"):
            nm = rng.choice([2, 4, 5])
        if kind not in ("p2p", "arbiter"):
            ns = rng.choice([4, 5, 6, 7, 8])
    register = rng.random() < 0.5 if kind in ("shared", "crossbar", "decoder") else False
    # address windows: word addresses; window i = [origin_i, origin_i + 2^k_i) words
    wins, used = [], set()
    for i in range(ns):
        for _ in range(50):
            k = rng.choice([2, 3, 4, 6])
            slot = rng.randrange(16)
            if slot not in used:
                used.add(slot)
                wins.append([slot << 8, k])    # origins 256 words apart, sizes 4..64 words
                break
    if kind in ("p2p", "arbiter"):
        wins = [[0, 30]]                       # whole address space, no decoding
    comb_slaves = (not register) and rng.random() < 0.3
    ops = []
    maxblock = 1
    for m in range(nm):
        n = rng.randint(8, 30)
        lst = []
        written = []
        style = rng.choice(["mixed", "b2b", "hold", "sparse"])
        for j in range(n):
            unmapped = kind not in ("p2p", "arbiter") and rng.random() < 0.06
            if unmapped:
                adr = ((rng.choice([s for s in range(16) if s not in used] or [15])) << 8) | rng.randrange(4)
                if (adr >> 8) in used:
                    unmapped = False
            if not unmapped:
                o, k = rng.choice(wins)
                adr = o + rng.randrange(min(1 << k, 8) if k < 30 else 64)
            we = int(rng.random() < 0.5)
            if style == "b2b":
                gap = 0
            elif style == "hold":
                gap = rng.choice([0, 1, 2])
            elif style == "sparse":
                gap = rng.choice([3, 7, 15])
            else:
                gap = rng.choice([0, 0, 1, 2, 5])
            op = {"we": we, "adr": adr, "dat": ((m + 1) << 28) | rng.getrandbits(28), "sel": rng.choice([15, 15, 15, 1, 6, 8, 0, 5]),
                  "gap": gap, "keep_cyc": int(gap > 0 and rng.random() < (0.8 if style == "hold" else 0.3))}
            if unmapped:
                op["abort_after"] = rng.choice([3, 6, 10])
                op["unmapped"] = 1
            elif we:
                written.append(adr)
            lst.append(op)
        # read back some written words at the end
        for adr in written[-4:]:
            lst.append({"we": 0, "adr": adr, "dat": (m + 1) << 28, "sel": 15, "gap": rng.choice([0, 1]), "keep_cyc": 0})
        if rng.random() < 0.5:
            lst[0]["gap"] = 0    # simultaneous start
        ops.append(lst)
    lat = [[rng.choice([1, 1, 1, 2, 3, 6]) for _ in range(16)] for _ in range(ns)]
    errs = [sorted(rng.sample(range(40), rng.choice([0, 0, 1, 3]))) for _ in range(ns)]
    return {"family": "wb", "params": {"kind": kind, "nm": nm, "ns": ns, "register": register, "wins": wins,
                                       "comb_slaves": comb_slaves},
            "ops": ops, "lat": lat, "errs": errs,
            "garbage": [rng.getrandbits(32) for _ in range(13)] if rng.random() < 0.5 else None}


def decode(wins, adr):
    for i, (o, k) in enumerate(wins):
        if k >= 30 or (adr >> k) == (o >> k):
            return i
    return None


def build(p):
    from migen import Module, Memory, If, Signal
    from litex.soc.interconnect import wishbone
    from litex.soc.integration.soc import SoCRegion
    nm, ns = p["nm"], p["ns"]
    masters = [wishbone.Interface(data_width=32, adr_width=30) for _ in range(nm)]
    slaves = [wishbone.Interface(data_width=32, adr_width=30) for _ in range(ns)]
    m = Module()
    preds = []
    for (o, k), s in zip(p["wins"], slaves):
        if k >= 30:
            preds.append(lambda a: 1)
        else:
            preds.append(SoCRegion(origin=o * 4, size=(1 << k) * 4).decoder(s))
    kind = p["kind"]
    if kind == "p2p":
        m.submodules.ic = wishbone.InterconnectPointToPoint(masters[0], slaves[0])
    elif kind == "arbiter":
        m.submodules.ic = wishbone.Arbiter(masters, slaves[0])
    elif kind == "decoder":
        m.submodules.ic = wishbone.Decoder(masters[0], list(zip(preds, slaves)), register=p["register"])
    elif kind == "shared":
        m.submodules.ic = wishbone.InterconnectShared(masters, list(zip(preds, slaves)), register=p["register"],
                                                      timeout_cycles=None)
    else:
        m.submodules.ic = wishbone.Crossbar(masters, list(zip(preds, slaves)), register=p["register"], timeout_cycles=None)
    if p.get("comb_slaves"):
        for si, s in enumerate(slaves):
            k = min(p["wins"][si][1], 6)
            mem = Memory(32, 1 << k, init=[slave_init(si, (p["wins"][si][0] & ~((1 << p["wins"][si][1]) - 1)) + a) for a in range(1 << k)])
            rp = mem.get_port(async_read=True)
            wp = mem.get_port(write_capable=True, we_granularity=8)
            m.specials += mem, rp, wp
            m.comb += [rp.adr.eq(s.adr[:k]), s.dat_r.eq(rp.dat_r), s.ack.eq(s.cyc & s.stb),
                       wp.adr.eq(s.adr[:k]), wp.dat_w.eq(s.dat_w),
                       If(s.cyc & s.stb & s.we, wp.we.eq(s.sel))]
    return m, masters, slaves


F = ("cyc", "stb", "we", "adr", "dat_w", "sel", "ack", "err")


def run(scn):
    p = scn["params"]
    nm, ns, wins, kind = p["nm"], p["ns"], p["wins"], p["kind"]
    top, masters, slaves = build(p)
    nops = sum(len(o) for o in scn["ops"])
    bench = Bench(wrap_top(top), max_cycles=nops * 14 + 200, tail=6)
    magents = [bench.add(WBMaster(mb, scn["ops"][i], name="m%d" % i)) for i, mb in enumerate(masters)]
    sagents = []
    if not p.get("comb_slaves"):
        for i, sb in enumerate(slaves):
            sagents.append(bench.add(WBSlave(sb, scn["lat"][i], name="s%d" % i, init=(lambda a, i=i: slave_init(i, a)),
                                             errs=scn["errs"][i], idle_garbage=scn.get("garbage"))))
    sigs = []
    for b_ in masters + slaves:
        sigs.extend(getattr(b_, f) for f in F)
    nf = len(F)
    prev_owner = [None] * ns
    state = {"prev_rows": None, "contended": 0, "checks": 0}

    def viol(cls, obs, msg):
        bench.violate(cls, obs, msg)

    def check(t, row):
        M = [dict(zip(F, row[i * nf:(i + 1) * nf])) for i in range(nm)]
        S = [dict(zip(F, row[(nm + i) * nf:(nm + i + 1) * nf])) for i in range(ns)]
        state["checks"] += 1
        visible = [None] * ns
        for si, s in enumerate(S):
            if not s["cyc"]:
                continue
            mid = (s["dat_w"] >> 28) - 1
            if not (0 <= mid < nm) or not M[mid]["cyc"]:
                cands = [i for i in range(nm) if M[i]["cyc"]]
                viol("phantom_request", "s%d" % si, "cycle %d: slave sees cyc with dat_w=%#x but no such master is requesting (requesting: %s)" % (t, s["dat_w"], cands))
                continue
            m_ = M[mid]
            visible[si] = mid
            if any(s[f] != m_[f] for f in ("stb", "we", "adr", "dat_w", "sel")):
                viol("request_altered", "s%d" % si, "cycle %d: slave port differs from master %d outputs: %s" % (t, mid,
                     [(f, m_[f], s[f]) for f in ("stb", "we", "adr", "dat_w", "sel") if s[f] != m_[f]]))
            d = decode(wins, m_["adr"])
            if d != si:
                viol("misrouted", "s%d" % si, "cycle %d: master %d address %#x (decodes to %s) presented to slave %d" % (t, mid, m_["adr"], d, si))
        if kind in ("shared", "arbiter") and sum(1 for x in visible if x is not None) > 1 and len(set(x for x in visible if x is not None)) > 1:
            viol("two_owners", "shared", "cycle %d: masters %s visible at the same time on a shared bus" % (t, visible))
        # ownership
        for si in range(ns):
            po = prev_owner[si]
            if po is not None and M[po]["cyc"]:
                if kind in ("shared", "arbiter"):
                    others = [x for x in visible if x is not None and x != po]
                    if others:
                        viol("owner_changed", "shared", "cycle %d: master %d still holds cyc but master %d is on the bus" % (t, po, others[0]))
                elif decode(wins, M[po]["adr"]) == si and visible[si] != po:
                    viol("owner_changed", "s%d" % si, "cycle %d: master %d still holds cyc to this slave but %s is visible" % (t, po, visible[si]))
        if kind in ("shared", "arbiter"):
            ow = next((x for x in visible if x is not None), None)
            if ow is None:
                # the owner may be between transfers / addressing a hole: keep it while it holds cyc
                po = prev_owner[0]
                ow = po if (po is not None and M[po]["cyc"]) else None
            for si in range(ns):
                prev_owner[si] = ow
        else:
            for si in range(ns):
                if visible[si] is not None:
                    prev_owner[si] = visible[si]
                elif prev_owner[si] is not None and not (M[prev_owner[si]]["cyc"] and decode(wins, M[prev_owner[si]]["adr"]) == si):
                    prev_owner[si] = None
        if sum(1 for m_ in M if m_["cyc"]) > 1:
            state["contended"] += 1
        # terminations
        claimed = {}
        for mi, m_ in enumerate(M):
            if not (m_["ack"] or m_["err"]):
                continue
            if not m_["cyc"]:
                viol("termination_without_request", "m%d" % mi, "cycle %d: ack/err while cyc is low" % t)
                continue
            d = decode(wins, m_["adr"])
            if d is None:
                viol("terminated_unmapped", "m%d" % mi, "cycle %d: request to unmapped address %#x terminated (no timeout configured)" % (t, m_["adr"]))
                continue
            s = S[d]
            if not (s["ack"] or s["err"]):
                viol("termination_not_from_slave", "m%d" % mi, "cycle %d: master sees ack/err but addressed slave %d does not terminate" % (t, d))
            elif visible[d] != mi:
                viol("answered_wrong_master", "m%d" % mi, "cycle %d: slave %d answers master %s, master %d sees the termination" % (t, d, visible[d], mi))
            claimed.setdefault(d, []).append(mi)
        for si, s in enumerate(S):
            if (s["ack"] or s["err"]) and s["cyc"] and s["stb"] and visible[si] is not None:
                mi = visible[si]
                if not (M[mi]["ack"] or M[mi]["err"]):
                    viol("termination_lost", "m%d" % mi, "cycle %d: slave %d terminates master %d's transfer but the master sees neither ack nor err" % (t, si, mi))
                elif bool(M[mi]["err"]) != bool(s["err"]) or bool(M[mi]["ack"]) != bool(s["ack"]):
                    viol("termination_kind", "m%d" % mi, "cycle %d: slave ack=%d err=%d, master sees ack=%d err=%d" % (t, s["ack"], s["err"], M[mi]["ack"], M[mi]["err"]))
    bench.add(PortRecorder(sigs, check))
    bench.run()
    viols = []

    def V(cls, obs, msg, cycle=None):
        viols.append({"prop": "C06", "cls": cls, "observable": obs, "msg": msg, "cycle": cycle})
    if bench.violation is not None:
        viols.append(dict(bench.violation.as_dict(), prop="C06"))
    checks = state["checks"]
    # history: every op terminated exactly once (or was withdrawn), within the bound
    for mi, ma in enumerate(magents):
        if not ma.done():
            V("no_termination", "m%d" % mi, "operation #%d (%r) not terminated after %d cycles" % (ma.idx, scn["ops"][mi][ma.idx], bench.cycle["sys"]))
    # reference memory replay ordered by completion time
    evs = []
    for mi, ma in enumerate(magents):
        for r in ma.results:
            op = scn["ops"][mi][r["op"]]
            evs.append((r["done"], mi, op, r))
    evs.sort(key=lambda e: (e[0], e[1]))
    ref = {}
    per_master_done = [0] * nm
    for done, mi, op, r in evs:
        d = decode(wins, op["adr"])
        checks += 1
        if r["aborted"]:
            if d is not None:
                V("no_termination", "m%d" % mi, "mapped request %r not answered within %d cycles" % (op, op.get("abort_after", 0)))
            continue
        if d is None:
            continue
        key = (d, op["adr"])
        if r["err"]:
            continue
        if op["we"]:
            old = ref.get(key, slave_init(d, op["adr"]))
            new = old
            for i in range(4):
                if (op["sel"] >> i) & 1:
                    new = (new & ~(0xff << (8 * i))) | (op["dat"] & (0xff << (8 * i)))
            ref[key] = new
        else:
            exp = ref.get(key, slave_init(d, op["adr"]))
            if r["dat_r"] != exp:
                V("read_data", "m%d" % mi, "read of %#x (slave %d) at cycle %d returned %#x, expected %#x" % (op["adr"], d, done, r["dat_r"], exp), done)
                break
    # writes land in the addressed slave only / err answers reach the right master
    if sagents:
        for si, sa in enumerate(sagents):
            mw = [(op["adr"], op["dat"], op["sel"]) for done, mi, op, r in evs
                  if not r["aborted"] and op["we"] and decode(wins, op["adr"]) == si]
            sw = [(x["adr"], x["dat_w"], x["sel"]) for x in sa.log if x["we"]]
            checks += 1
            if sorted(mw) != sorted(sw):
                V("write_landing", "s%d" % si, "writes seen by the slave differ from the completed writes addressed to it: %d vs %d; first diff %s"
                  % (len(sw), len(mw), next((a for a in sw if a not in mw), next((a for a in mw if a not in sw), None))))
            merr = sum(1 for done, mi, op, r in evs if not r["aborted"] and r["err"] and decode(wins, op["adr"]) == si)
            serr = sum(1 for x in sa.log if x["err"])
            if merr != serr:
                V("err_routing", "s%d" % si, "slave answered %d transfers with err, masters saw %d" % (serr, merr))
    # fairness, counted in bus cycles (cyc blocks) of the other masters: a master owns the bus until it drops cyc
    block = []
    for mi in range(nm):
        b_, ids = 0, []
        for j, op in enumerate(scn["ops"][mi]):
            if j > 0 and not (op.get("gap", 0) == 0 or op.get("keep_cyc")):
                b_ += 1
            if j > 0 and scn["ops"][mi][j - 1].get("abort_after") is not None:
                b_ += 1
            ids.append(b_)
        block.append(ids)
    bound = 2 * nm
    for done, mi, op, r in evs:
        if r["aborted"]:
            continue
        others = {(m2, block[m2][r2["op"]]) for d2, m2, o2, r2 in evs if m2 != mi and not r2["aborted"] and r["issue"] <= d2 < done}
        checks += 1
        if len(others) > bound:
            V("starved", "m%d" % mi, "request issued at %d completed at %d after %d bus cycles (cyc blocks) of other masters (bound %d)"
              % (r["issue"], done, len(others), bound))
            break
    ntr = sum(1 for e in evs if not e[3]["aborted"])
    waits = sum(ma.wait_cycles for ma in magents)
    stats = {"cycles": bench.cycle["sys"], "checks": checks, "nontrivial": bool((state["contended"] or waits) and ntr >= 10),
             "faults": {"lat_slave": sum(1 for sa in sagents for x in sa.log), "err_resp": sum(1 for sa in sagents for x in sa.log if x["err"]),
                        "unmapped_addr": sum(1 for e in evs if e[3]["aborted"]), "contended_cycles": state["contended"]},
             "probes": {"transfers": ntr, "kind_" + kind: 1, "registered_decode": int(p["register"]), "comb_slaves": int(bool(p.get("comb_slaves")))},
             "fingerprints": sorted(bench.fingerprints)[:200]}
    return {"violations": viols, "digest": bench.digest(), "stats": stats}
