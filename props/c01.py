"""C01 - generated Verilog behaves exactly like the simulated FHDL design (translation validation).

Both executors run the SAME scenario tick by tick:
  * reference: the real litex.gen.sim.core.Simulator on one instance of the design,
  * subject:   the text returned by the real litex.gen.fhdl.verilog.convert() on a second instance of the same design,
               executed by dsim.vsim (our IEEE-1364 subset interpreter, order of simultaneously active processes
               drawn from the scenario's PRNG value).
At every tick, before the edge, every declared signal (ports, registers, comb targets, memory read ports and
memory words) must have the same value in both, unless the Verilog value is X (never compared).

Families
  frag   grammar-generated fragments inside the sub-language where Migen's unbounded integers and Verilog's
         context-width arithmetic agree BY CONSTRUCTION (see gen rules below); any mismatch is a printer / lowering /
         simulator defect.
  exh    narrow comb-only fragments swept over ALL input values.
  mem    memories: every port mode, granularity, async read, read enable, init, 1-3 ports, 1-2 clock domains.
  corpus real LiteX cores at seeded parameterisations under random stimulus.
"""
import copy
import hashlib
import json
import random

from dsim import prng, boot

PROPERTY = "C01"
LEVEL = "translation_validation"
RULE = ("programs = FHDL designs: 'frag' grammar-generated fragments (2-10 signals, widths 1-12 and a few 33-70, signed/unsigned "
        "mixes, expression depth <= 4 over all FHDL operators, Mux/Cat/Replicate/slices/Array on both sides, If/Case nesting, "
        "1-2 clock domains with seeded edge interleaving and reset pulses), 'exh' narrow comb fragments swept over all inputs, "
        "'mem' memories (all port modes/granularities/async/re/init/multi-port/multi-domain), 'corpus' real LiteX cores; each "
        "program is converted by the real convert() and executed by vsim against the real litex.gen.sim tick by tick. "
        "Non-trivial = at least 20 ticks compared, at least 3 distinct signals toggled and no X on more than half of the "
        "compared values; distinct = distinct sha256 of the emitted Verilog text plus stimulus digest")
ASSUMPTIONS = [
    "dsim.vsim (lexer, parser, 1364-2005 5.4/5.5 sizing and sign rules, stratified scheduler) is the trusted base; it was "
    "validated by hand-written directed cases (selftest/vsim_cases.py) and by the seeded printer/simulator mutants it catches",
    "time zero: variable initialisers first, then every assign / always @(*) evaluated once ('settle', what synthesis and "
    "Verilator give); strict-1364 'processes merely armed' is NOT used by the equivalence families",
    "fragments are generated inside the sub-language where unbounded (Migen) and context-width (Verilog) arithmetic coincide: "
    "operands of comparisons, right shifts, Mux conditions, Cat/Replicate/slices/array keys/case tests are width-exact "
    "expressions; arithmetic appears only in context-determined positions; the known places where the two semantics part are "
    "listed findings replayed from canonical files, not sampled",
    "an X value in the Verilog execution (uninitialised memory word, address register before its first clock) is never compared",
]
COMPONENTS = {"real": ["litex.gen.fhdl.verilog.convert (expression.py, memory.py, slice lowerer, namer)", "litex.gen.sim.core.Simulator/Evaluator",
                       "migen lower_basics / MemoryToArray / insert_resets"],
              "stub": ["dsim.vsim Verilog interpreter (ours)", "stimulus driver", "seeded clock source (edge interleaving)", "tracer shim"]}
CHUNK = 25

CMP = ["<", "<=", "==", "!=", ">", ">="]
BITW = ["&", "|", "^"]
ARITH = ["+", "-", "*"]


# ------------------------------------------------------------------------------------------------
# typing of JSON expression trees (mirror of migen value_bits_sign, typed here on purpose)
# ------------------------------------------------------------------------------------------------
def bits_for(n, sign=False):
    if n > 0:
        r = n.bit_length()
    else:
        sign = True
        r = (-n - 1).bit_length() if n < 0 else 0
    return r + (1 if sign else 0)


def _bw(a, b):
    if not a[1] and not b[1]:
        return max(a[0], b[0]), False
    if a[1] and b[1]:
        return max(a[0], b[0]), True
    if not a[1] and b[1]:
        return max(a[0] + 1, b[0]), True
    return max(a[0], b[0] + 1), True


def mt(e, sigs):
    k = e[0]
    if k == "s":
        return sigs[e[1]]["w"], sigs[e[1]]["s"]
    if k == "c":
        return max(bits_for(e[1]), 1), e[1] < 0
    if k == "rst":
        return 1, False
    if k == "u":
        t = mt(e[2], sigs)
        if e[1] == "-" and not t[1]:
            return t[0] + 1, True
        return t
    if k == "b":
        op = e[1]
        a, b = mt(e[2], sigs), mt(e[3], sigs)
        if op in ("+", "-"):
            n, s = _bw(a, b)
            return n + 1, s
        if op == "*":
            if not a[1] and not b[1]:
                return a[0] + b[0], False
            if a[1] and b[1]:
                return a[0] + b[0] - 1, True
            return a[0] + b[0], True
        if op == "<<":
            return a[0] + (1 << b[0]) - 1, a[1]
        if op == ">>":
            return a
        if op in BITW:
            return _bw(a, b)
        return 1, False
    if k == "m":
        return _bw(mt(e[2], sigs), mt(e[3], sigs))
    if k == "sl":
        return e[3] - e[2], False
    if k == "cat":
        return sum(mt(x, sigs)[0] for x in e[1]), False
    if k == "rep":
        return mt(e[1], sigs)[0] * e[2], False
    if k == "arr":
        if e[2][0] == "c":      # constant key: plain Python list indexing when the design is built
            return mt(e[1][min(e[2][1], len(e[1]) - 1)], sigs)
        ts = [mt(x, sigs) for x in e[1]]
        return max(t[0] for t in ts), any(t[1] for t in ts)
    raise ValueError(e)


# ------------------------------------------------------------------------------------------------
# generators
# ------------------------------------------------------------------------------------------------
class G:
    """expression / statement generator. `readable` = indices of signals an expression may read."""

    def __init__(self, rng, sigs, wild=None):
        self.rng = rng
        self.sigs = sigs
        self.maxw = 40
        self.cat_targets = True
        self.arr_targets = True
        self.slcat_targets = False
        self.rst_domains = []
        self.wild = bool(wild)

    def const(self, hint=None, neg_ok=False):
        r = self.rng
        w = hint or r.choice([1, 2, 3, 4, 8])
        v = r.choice([0, 1, (1 << w) - 1, r.getrandbits(w), r.getrandbits(w)])
        if neg_ok and r.random() < 0.4:
            v = r.choice([-1, -v - 1, -(1 << w), -v])
        return ["c", v]

    def leaf(self, readable, want_unsigned=False, want_sign=None):
        r = self.rng
        cands = [i for i in readable if (not want_unsigned or not self.sigs[i]["s"]) and (want_sign is None or self.sigs[i]["s"] == want_sign)]
        if cands and r.random() < 0.85:
            return ["s", r.choice(cands)]
        if want_sign:
            if cands:
                return ["s", r.choice(cands)]
            return None
        if self.rst_domains and r.random() < 0.25:
            return ["rst", r.choice(self.rst_domains)]          # ResetSignal(domain) read as data
        return self.const(neg_ok=not want_unsigned)

    def E(self, readable, depth, want_unsigned=False, maxw=None):
        """width-exact expression (Verilog self-determined width/sign/value == Migen's)."""
        r = self.rng
        maxw = maxw or self.maxw
        if self.wild and depth > 0 and r.random() < 0.12:
            # 'wild' family: anything anywhere; the simulator-side monitor (dsim.taint) decides where the semantics part
            e = self._T(readable, depth)
            t = mt(e, self.sigs)
            if t[0] <= 48 and (not want_unsigned or not t[1]):
                return e
        for _ in range(20):
            e = self._E(readable, depth, want_unsigned)
            t = mt(e, self.sigs)
            if t[0] <= maxw and (not want_unsigned or not t[1]):
                return e
        return self.leaf(readable, want_unsigned=True) if want_unsigned else self.leaf(readable)

    def _E(self, readable, depth, want_unsigned):
        r = self.rng
        if depth <= 0 or r.random() < 0.25:
            return self.leaf(readable, want_unsigned)
        k = r.choice(["sl", "sl", "cat", "rep", "cmp", "cmp", "bw", "bw", "mux", "shr", "inv", "neg", "arr", "slx"])
        if k == "sl":
            cands = [i for i in readable if self.sigs[i]["w"] > 1 or self.sigs[i]["s"]]
            if not cands:
                return self.leaf(readable, want_unsigned)
            i = r.choice(cands)
            w = self.sigs[i]["w"]
            lo = r.randrange(w)
            hi = r.randint(lo + 1, w)
            return ["sl", ["s", i], lo, hi]
        if k == "slx":      # slice of an expression (lowered through a proxy signal)
            e = self.E(readable, depth - 1)
            w = mt(e, self.sigs)[0]
            if w < 2 or e[0] in ("s", "arr"):        # slicing an Array proxy slices every choice separately (migen)
                return e if not want_unsigned else self.leaf(readable, True)
            lo = r.randrange(w)
            hi = r.randint(lo + 1, w)
            return ["sl", e, lo, hi]
        if k == "cat":
            cat = ["cat", [self.E(readable, depth - 1, maxw=16) for _ in range(r.randint(1, 3))]]
            if r.random() < 0.5:
                return self.edge_slice(cat, [mt(x, self.sigs)[0] for x in cat[1]])
            return cat
        if k == "rep":
            rep = ["rep", self.E(readable, depth - 1, maxw=8), r.randint(1, 3)]
            if r.random() < 0.4:
                return self.edge_slice(rep, [mt(rep[1], self.sigs)[0]] * rep[2])
            return rep
        if k == "cmp":
            return ["b", r.choice(CMP), self.E(readable, depth - 1), self.E(readable, depth - 1)]
        if k == "bw":
            return ["b", r.choice(BITW), self.E(readable, depth - 1, want_unsigned), self.E(readable, depth - 1, want_unsigned)]
        if k == "mux":
            return ["m", self.E(readable, depth - 1), self.E(readable, depth - 1, want_unsigned), self.E(readable, depth - 1, want_unsigned)]
        if k == "shr":
            return ["b", ">>", self.E(readable, depth - 1, want_unsigned), self.E(readable, 0, True, maxw=3)]
        if k == "inv":
            if want_unsigned:
                return self.leaf(readable, True)
            e = self.E(readable, depth - 1)
            if mt(e, self.sigs)[1] or self.wild:
                return ["u", "~", e]
            return e
        if k == "neg":
            if want_unsigned:
                return self.leaf(readable, True)
            e = self.E(readable, depth - 1, True)
            return ["u", "-", e]
        if k == "arr":
            sgn = r.random() < 0.3 and not want_unsigned
            ch = []
            for _ in range(r.randint(2, 4)):
                e = self.E(readable, depth - 1, want_unsigned=not sgn)
                if sgn:
                    e = self.leaf(readable, want_sign=True)
                    if e is None:
                        return self.leaf(readable, want_unsigned)
                ch.append(e)
            return ["arr", ch, self.key(readable, len(ch))]
        raise AssertionError

    def edge_slice(self, e, widths):
        """slice of a Cat / Replicate whose bounds sit on or next to the element boundaries (the slice lowerer's corner cases)."""
        r = self.rng
        tot = sum(widths)
        if tot < 2:
            return e
        edges = [0]
        for w in widths:
            edges.append(edges[-1] + w)
        def near():
            return min(max(r.choice(edges) + r.choice([-1, 0, 0, 1]), 0), tot)
        for _ in range(8):
            lo, hi = near(), near()
            if lo > hi:
                lo, hi = hi, lo
            if lo < hi:
                return ["sl", e, lo, hi]
        return e

    def key(self, readable, n):
        e = self.E(readable, 0, True, maxw=3)
        if e[0] == "c":
            e = ["c", e[1] % n]     # a constant key indexes the Python list at build time
        return e

    def T(self, readable, depth):
        """context-determined (modular) expression: equal modulo 2^W for any context width W."""
        r = self.rng
        for _ in range(20):
            e = self._T(readable, depth)
            if mt(e, self.sigs)[0] <= 72:
                return e
        return self.E(readable, 1)

    def _pair(self, readable, depth):
        a, b = self.T(readable, depth), self.T(readable, depth)
        sa, sb = mt(a, self.sigs)[1], mt(b, self.sigs)[1]
        if sa != sb and not self.wild:
            # the unsigned one is printed inside $signed({1'd0, ..}) = a self-determined position: must be width-exact
            if not sa and not self.is_exact(a):
                a = self.E(readable, depth)
            if not sb and not self.is_exact(b):
                b = self.E(readable, depth)
        return a, b

    def _T(self, readable, depth):
        r = self.rng
        if depth <= 0 or r.random() < 0.2:
            return self.E(readable, depth)
        k = r.choice(["ar", "ar", "ar", "shl", "neg", "inv", "bw", "mux", "E"])
        if k == "E":
            return self.E(readable, depth)
        if k == "ar":
            a, b = self._pair(readable, depth - 1)
            return ["b", r.choice(ARITH), a, b]
        if k == "bw":
            a, b = self._pair(readable, depth - 1)
            return ["b", r.choice(BITW), a, b]
        if k == "mux":
            a, b = self._pair(readable, depth - 1)
            return ["m", self.E(readable, depth - 1), a, b]
        if k == "shl":
            return ["b", "<<", self.T(readable, depth - 1), self.E(readable, 0, True, maxw=3)]
        if k == "neg":
            a = self.T(readable, depth - 1)
            if not mt(a, self.sigs)[1] and not self.is_exact(a) and not self.wild:
                a = self.E(readable, depth - 1)
            return ["u", "-", a]
        if k == "inv":
            return ["u", "~", self.T(readable, depth - 1)]
        raise AssertionError

    def is_exact(self, e):
        """conservative syntactic test: e is in the E class."""
        k = e[0]
        if k in ("s", "rst"):
            return True
        if k == "c":
            return True
        if k in ("sl",):
            return self.is_exact(e[1])
        if k == "cat":
            return all(self.is_exact(x) for x in e[1])
        if k == "rep":
            return self.is_exact(e[1])
        if k == "arr":
            return all(self.is_exact(x) for x in e[1]) and self.is_exact(e[2])
        if k == "m":
            return all(self.is_exact(x) for x in e[1:4])
        if k == "u":
            t = mt(e[2], self.sigs)
            if e[1] == "~":
                return t[1] and self.is_exact(e[2])
            return (not t[1]) and self.is_exact(e[2])
        if k == "b":
            if e[1] in CMP or e[1] in BITW or e[1] == ">>":
                return self.is_exact(e[2]) and self.is_exact(e[3])
            return False
        return False

    # ---- statements
    def cond(self, readable, depth):
        r = self.rng
        e = self.E(readable, depth)
        if r.random() < 0.3 and not mt(e, self.sigs)[1]:
            return ["u", "~", e]       # If(~x): masked to len(x) by the simulator, self-determined in Verilog
        return e

    def target(self, targets, readable):
        r = self.rng
        i = r.choice(targets)
        w = self.sigs[i]["w"]
        k = r.random()
        if k < 0.6 or w == 1:
            return ["s", i]
        if k < 0.8:
            lo = r.randrange(w)
            return ["sl", i, lo, r.randint(lo + 1, w)]
        if k < 0.9 and len(targets) > 1 and self.cat_targets:
            n = r.randint(2, min(3, len(targets)))
            js = r.sample(targets, n)
            if r.random() < 0.3 and self.slcat_targets:
                # slice of a concatenation as target (lowered through a proxy in target context): listed finding C01-F17, not generated
                tot = sum(self.sigs[j]["w"] for j in js)
                lo = r.randrange(tot)
                return ["slcat", js, lo, r.randint(lo + 1, tot)]
            return ["cat", [["s", j] for j in js]]
        if len(targets) > 1 and self.arr_targets:
            n = r.randint(2, min(3, len(targets)))
            return ["arr", r.sample(targets, n), self.key(readable, n)]
        return ["s", i]

    def stmts(self, targets, readable, depth, n):
        r = self.rng
        out = []
        for _ in range(n):
            k = r.random()
            if depth <= 0 or k < 0.5:
                out.append(["=", self.target(targets, readable), self.T(readable, r.randint(0, 3))])
            elif k < 0.8:
                st = ["if", self.cond(readable, 2), self.stmts(targets, readable, depth - 1, r.randint(1, 2)),
                      self.stmts(targets, readable, depth - 1, r.randint(0, 2))]
                out.append(st)
            else:
                test = self.E(readable, 1, r.random() < 0.7, maxw=4)
                tw, tsg = mt(test, self.sigs)
                if tsg:
                    # signed test: items of both signs inside the range of the test
                    lo_, hi_ = -(1 << (tw - 1)), (1 << (tw - 1)) - 1
                    keys = sorted({r.randint(lo_, hi_) if r.random() < 0.7 else r.choice([lo_, -1, 0, hi_]) for _ in range(r.randint(1, 4))})
                    if r.random() < 0.3:
                        # items beyond the signed range of the test (e.g. range(2**n) on a signed selector): legal, never matched -
                        # in the Verilog they must not alias a negative value of the test
                        keys = sorted(set(keys) | {r.randint(hi_ + 1, (1 << tw) - 1) for _ in range(r.randint(1, 2))})
                else:
                    keys = sorted({r.getrandbits(tw) if r.random() < 0.7 else r.choice([0, 1, (1 << tw) - 1]) for _ in range(r.randint(1, 4))})
                r.shuffle(keys)
                cases = [[kk, self.stmts(targets, readable, depth - 1, r.randint(1, 2))] for kk in keys]
                default = self.stmts(targets, readable, depth - 1, 1) if r.random() < 0.6 else None
                out.append(["case", test, cases, default])
        return out


def targets_of(st, acc):
    if st[0] == "=":
        t = st[1]
        if t[0] in ("s", "sl"):
            acc.add(t[1])
        elif t[0] == "cat":
            for x in t[1]:
                acc.add(x[1])
        elif t[0] == "slcat":
            acc.update(t[1])
        elif t[0] == "arr":
            if t[2][0] == "c":
                acc.add(t[1][min(t[2][1], len(t[1]) - 1)])     # constant key: resolved when the design is built
            else:
                acc.update(t[1])
    elif st[0] == "if":
        for x in st[2] + st[3]:
            targets_of(x, acc)
    elif st[0] == "case":
        for _, body in st[2]:
            for x in body:
                targets_of(x, acc)
        for x in (st[3] or []):
            targets_of(x, acc)
    return acc


def plan(tier):
    if tier == "quick":
        return [("frag", 3000), ("wild", 3000), ("exh", 400), ("mem", 1500), ("corpus", 720), ("mixed", 250)]
    return [("frag", 150000), ("wild", 150000), ("exh", 20000), ("mem", 80000), ("corpus", 36000), ("mixed", 12000)]


def gen_width(r):
    k = r.random()
    if k < 0.08:
        return r.choice([31, 32, 33, 63, 64, 65, 70])
    return r.choice([1, 1, 2, 3, 4, 5, 7, 8, 8, 12])


def generate(family, rng, tier):
    if family == "frag":
        return gen_frag(rng, tier)
    if family == "exh":
        return gen_frag(rng, tier, exh=True)
    if family == "wild":
        return gen_frag(rng, tier, wild=True)
    if family == "mem":
        return gen_mem(rng, tier)
    if family == "corpus":
        return gen_corpus(rng, tier)
    if family == "mixed":
        # designs of different kinds converted and simulated one after the other in one process (a build script that generates several
        # cores): a design with specials (memories, MultiReg, instances of real cores) first, programs with sliced expressions, Case and
        # If conditions after it - nothing a conversion leaves behind may show in the next one
        seq = [gen_mem(rng, tier) if rng.random() < 0.5 else gen_corpus(rng, tier)]
        for _ in range(rng.randint(1, 2)):
            seq.append(gen_frag(rng, tier, wild=rng.random() < 0.3))
        return {"family": "mixed", "seq": seq}
    raise ValueError(family)


def gen_frag(r, tier, exh=False, wild=False):
    sigs = []
    two = (not exh) and r.random() < 0.3
    domains = ["sys", "b"] if two else ["sys"]
    if exh:
        budget = 10
        nin = r.randint(1, 3)
        for i in range(nin):
            w = r.randint(1, max(1, min(5, budget - (nin - i - 1))))
            budget -= w
            sigs.append({"name": "i%d" % i, "w": w, "s": r.random() < 0.35, "kind": "in"})
    else:
        for i in range(r.randint(1, 4)):
            sigs.append({"name": "i%d" % i, "w": gen_width(r), "s": r.random() < 0.35, "kind": "in"})
        for i in range(r.randint(0, 4)):
            w = gen_width(r)
            s = r.random() < 0.35
            rv = r.choice([0, 0, 1, r.getrandbits(w)])
            if s:
                rv = rv - (1 << w) if rv >> (w - 1) else rv
            sigs.append({"name": "r%d" % i, "w": w, "s": s, "kind": "reg", "dom": r.choice(domains), "reset": rv,
                         "reset_less": r.random() < 0.2, "io": r.random() < 0.5})
    ncomb = r.randint(1, 4)
    for i in range(ncomb):
        w = gen_width(r) if not exh else r.randint(1, 12)
        s = r.random() < 0.35
        rv = r.choice([0, 0, 0, 1, r.getrandbits(w)])
        if s:
            rv = rv - (1 << w) if rv >> (w - 1) else rv
        sigs.append({"name": "c%d" % i, "w": w, "s": s, "kind": "comb", "reset": rv, "io": r.random() < 0.6})
    reset_less_domains = [d for d in domains if r.random() < 0.2]
    g = G(r, sigs, wild=wild)
    g.rst_domains = [d for d in domains if d not in reset_less_domains]
    regular_comb = r.random() < 0.8
    # regular_comb=False (the Verilator path) emits one always block per target and repeats a Cat(..) assignment in the block
    # of every signal it touches: listed finding C01-F5, so Cat targets are generated in comb only with regular_comb=True
    g.cat_targets = regular_comb
    # (comb blocks that read a signal they assign with <= converge only when zero-width NBA glitches do not re-trigger them:
    # vsim's default policy; the strict policy is the listed finding C01-F6)
    g.arr_targets = True
    base = [i for i, s in enumerate(sigs) if s["kind"] in ("in", "reg")]
    combs = [i for i, s in enumerate(sigs) if s["kind"] == "comb"]
    comb = []
    # comb targets are partitioned into consecutive groups; a group reads only earlier groups (no comb loops)
    pos = 0
    while pos < len(combs):
        n = r.randint(1, min(2, len(combs) - pos))
        grp = combs[pos:pos + n]
        readable = base + combs[:pos]
        comb += g.stmts(grp, readable, 2, r.randint(1, 3))
        pos += n
    g.cat_targets = True
    g.arr_targets = True
    sync = {}
    allsig = list(range(len(sigs)))
    for d in domains:
        regs = [i for i, s in enumerate(sigs) if s["kind"] == "reg" and s["dom"] == d]
        if regs:
            sync[d] = g.stmts(regs, allsig, 2, r.randint(1, 4))
    # registers never assigned and comb signals never assigned are fine (keep reset)
    ins = [i for i, s in enumerate(sigs) if s["kind"] == "in"]
    scn = {"family": "exh" if exh else "wild" if wild else "frag", "signals": sigs, "comb": comb, "sync": sync, "domains": domains,
           "reset_less_domains": reset_less_domains,
           "regular_comb": regular_comb, "proc_seed": r.getrandbits(32)}
    if exh:
        scn["stim"] = "all"
        scn["ticks"] = 1 << sum(sigs[i]["w"] for i in ins)
    else:
        n = r.randint(30, 80) if tier == "quick" else r.randint(60, 300)
        scn["ticks"] = n
        scn["stim"] = [[corner(r, sigs[i]["w"]) for i in ins] for _ in range(n)]
        if two:
            from dsim.cdc import gen_schedule
            scn["schedule"] = gen_schedule(r, n, ndom=2)[0]
        scn["rst"] = {d: prng.pattern(r, n, 0.06) if r.random() < 0.6 else "0" * n for d in domains}
    return scn


def corner(r, w):
    k = r.random()
    if k < 0.15:
        return 0
    if k < 0.3:
        return (1 << w) - 1
    if k < 0.4:
        return 1 << (w - 1)
    if k < 0.5:
        return (1 << (w - 1)) - 1
    if k < 0.6:
        return 1 << r.randrange(w)
    return r.getrandbits(w)


def gen_mem(r, tier):
    width = r.choice([1, 4, 8, 8, 12, 16, 16, 32, 33])
    depth = r.choice([2, 3, 4, 5, 8, 16, 17])
    init = None
    k = r.random()
    if k < 0.5:
        init = [r.getrandbits(width) for _ in range(depth)]
        if r.random() < 0.2:        # signed tables: negative values stand for their two's complement pattern
            init = [v - (1 << width) if v >> (width - 1) else v for v in init]
    elif k < 0.75:
        init = [r.getrandbits(width) for _ in range(r.randint(1, depth))]
    two = r.random() < 0.35
    domains = ["sys", "b"] if two else ["sys"]
    ports = []
    for i in range(r.randint(1, 3)):
        wc = r.random() < 0.7
        gran = 0
        if wc and width % 8 == 0 and width > 8 and r.random() < 0.5:
            gran = 8 if r.random() < 0.7 else width // 2
        async_read = r.random() < 0.25
        modes = ["WRITE_FIRST", "READ_FIRST", "NO_CHANGE"] if wc else ["WRITE_FIRST", "READ_FIRST"]
        if gran:
            modes = modes[:2]       # NO_CHANGE with byte enables: `if (!we)` vs If(~we) - listed finding C01-F9
        if two:
            modes = ["READ_FIRST"]  # ports in different clock domains are forced read-first in the Verilog only - listed finding C01-F8
        ports.append({"write_capable": wc, "async_read": async_read, "has_re": (not async_read) and r.random() < 0.3,
                      "we_granularity": gran, "mode": r.choice(modes),
                      "dom": r.choice(domains)})
    n = r.randint(40, 100) if tier == "quick" else r.randint(80, 400)
    abits = max(1, (depth - 1).bit_length())
    stim = []
    for _ in range(n):
        row = []
        written = set()
        for p in ports:
            # address (mostly in range, sometimes beyond for non-power-of-two depths), data, we mask, re
            a = r.randrange(depth) if r.random() < 0.9 else r.getrandbits(abits)
            if a >= depth:
                a = depth - 1          # out-of-range addresses: Verilog X / Python IndexError, outside the property (illegal)
            nwe = (width // p["we_granularity"]) if p["we_granularity"] else 1
            we = (r.getrandbits(nwe) if r.random() < 0.5 else 0) if p["write_capable"] else 0
            if we and a in written:
                we = 0          # two ports writing one word in the same tick: undefined for any dual-port RAM, not generated
            if we:
                written.add(a)
            row.append([a, corner(r, width), we, int(r.random() < 0.7)])
        stim.append(row)
    scn = {"family": "mem", "width": width, "depth": depth, "init": init, "ports": ports, "domains": domains, "ticks": n,
           "stim": stim, "proc_seed": r.getrandbits(32)}
    if two:
        from dsim.cdc import gen_schedule
        scn["schedule"] = gen_schedule(r, n, ndom=2)[0]
    return scn


def gen_corpus(r, tier):
    from props import c01_corpus
    from dsim.cdc import gen_schedule
    core = r.choice(c01_corpus.CORES)
    n = r.randint(60, 150) if tier == "quick" else r.randint(200, 1500)
    return {"family": "corpus", "core": core, "param_seed": r.getrandbits(32), "ticks": n, "stim_seed": r.getrandbits(32),
            "proc_seed": r.getrandbits(32), "schedule": gen_schedule(r, n, ndom=2)[0], "p_active": r.choice([0.3, 0.7, 1.0]), "p_rst": 0.02,
            "regular_comb": r.random() < 0.5}      # False = the variant litex_sim / Verilator builds use


# ------------------------------------------------------------------------------------------------
# building migen designs from scenarios
# ------------------------------------------------------------------------------------------------
def build_frag(scn):
    from migen import Module, Signal, ClockDomain, If, Case, Cat, Replicate, Mux, Array, Constant, ResetSignal
    sigs = []
    driven = set()
    for stl in [scn["comb"]] + list(scn["sync"].values()):
        for x in stl:
            targets_of(x, driven)
    for i, sd in enumerate(scn["signals"]):
        kw = {}
        if sd["kind"] != "in" and i in driven:      # an undriven signal is an input of the netlist: 0 in both worlds
            kw["reset"] = sd.get("reset", 0)
        if sd.get("reset_less"):
            kw["reset_less"] = True
        sigs.append(Signal((sd["w"], sd["s"]), name=sd["name"], **kw))

    def ex(e):
        k = e[0]
        if k == "s":
            return sigs[e[1]]
        if k == "c":
            return Constant(e[1])
        if k == "rst":
            return ResetSignal(e[1])
        if k == "u":
            a = ex(e[2])
            return ~a if e[1] == "~" else -a
        if k == "b":
            a, b = ex(e[2]), ex(e[3])
            op = e[1]
            return {"+": lambda: a + b, "-": lambda: a - b, "*": lambda: a * b, "&": lambda: a & b, "|": lambda: a | b,
                    "^": lambda: a ^ b, "<": lambda: a < b, "<=": lambda: a <= b, "==": lambda: a == b, "!=": lambda: a != b,
                    ">": lambda: a > b, ">=": lambda: a >= b, "<<": lambda: a << b, ">>": lambda: a >> b}[op]()
        if k == "m":
            return Mux(ex(e[1]), ex(e[2]), ex(e[3]))
        if k == "sl":
            return ex(e[1])[e[2]:e[3]]
        if k == "cat":
            return Cat(*[ex(x) for x in e[1]])
        if k == "rep":
            return Replicate(ex(e[1]), e[2])
        if k == "arr":
            return Array([ex(x) for x in e[1]])[ex(e[2])]
        raise ValueError(e)

    def tg(t):
        if t[0] == "s":
            return sigs[t[1]]
        if t[0] == "sl":
            return sigs[t[1]][t[2]:t[3]]
        if t[0] == "cat":
            return Cat(*[tg(x) for x in t[1]])
        if t[0] == "slcat":
            return Cat(*[sigs[i] for i in t[1]])[t[2]:t[3]]
        if t[0] == "arr":
            return Array([sigs[i] for i in t[1]])[ex(t[2])]
        raise ValueError(t)

    def st(s):
        if s[0] == "=":
            return tg(s[1]).eq(ex(s[2]))
        if s[0] == "if":
            r = If(ex(s[1]), *[st(x) for x in s[2]])
            if s[3]:
                r = r.Else(*[st(x) for x in s[3]])
            return r
        if s[0] == "case":
            cases = {kk: [st(x) for x in body] for kk, body in s[2]}
            if s[3] is not None:
                cases["default"] = [st(x) for x in s[3]]
            return Case(ex(s[1]), cases)
        raise ValueError(s)

    m = Module()
    cds = {}
    for d in scn["domains"]:
        cd = ClockDomain(d, reset_less=d in scn.get("reset_less_domains", []))
        setattr(m.clock_domains, "cd_" + d, cd)
        cds[d] = cd
    for s in scn["comb"]:
        m.comb += st(s)
    for d, ss in scn["sync"].items():
        for s in ss:
            getattr(m.sync, d).__iadd__(st(s))
    ios = set()
    for i, (sd, s) in enumerate(zip(scn["signals"], sigs)):
        if sd["kind"] == "in" or sd.get("io") or i not in driven:
            ios.add(s)
    for cd in cds.values():
        ios.add(cd.clk)
        if cd.rst is not None:
            ios.add(cd.rst)
    inputs = [s for sd, s in zip(scn["signals"], sigs) if sd["kind"] == "in"]
    return {"module": m, "signals": sigs, "ios": ios, "cds": cds, "inputs": inputs, "mems": []}


def build_mem(scn):
    from migen import Module, Signal, ClockDomain, Memory
    from migen.fhdl.specials import WRITE_FIRST, READ_FIRST, NO_CHANGE
    modes = {"WRITE_FIRST": WRITE_FIRST, "READ_FIRST": READ_FIRST, "NO_CHANGE": NO_CHANGE}
    m = Module()
    cds = {}
    for d in scn["domains"]:
        cd = ClockDomain(d, reset_less=not scn.get("with_reset"))
        setattr(m.clock_domains, "cd_" + d, cd)
        cds[d] = cd
    mem = Memory(scn["width"], scn["depth"], init=scn["init"], name="mem")
    m.specials += mem
    sigs, ios, inputs = [], set(), []
    for i, p in enumerate(scn["ports"]):
        port = mem.get_port(write_capable=p["write_capable"], async_read=p["async_read"], has_re=p["has_re"],
                            we_granularity=p["we_granularity"], mode=modes[p["mode"]], clock_domain=p["dom"])
        m.specials += port
        ins = [port.adr]
        if p["write_capable"]:
            ins += [port.dat_w, port.we]
        if p["has_re"]:
            ins.append(port.re)
        for s in ins:
            ios.add(s)
        ios.add(port.dat_r)
        sigs.append(port.dat_r)
        inputs.append({"adr": port.adr, "dat_w": port.dat_w if p["write_capable"] else None, "we": port.we if p["write_capable"] else None,
                       "re": port.re if p["has_re"] else None})
    for cd in cds.values():
        ios.add(cd.clk)
        if cd.rst is not None:
            ios.add(cd.rst)
    return {"module": m, "signals": sigs, "ios": ios, "cds": cds, "inputs": inputs, "mems": [mem]}


# ------------------------------------------------------------------------------------------------
# execution
# ------------------------------------------------------------------------------------------------
class Mismatch(Exception):
    pass


def strip_banner(text):
    return "\n".join(l for l in text.split("\n") if not l.startswith("// Date") and not l.startswith("// Generated") and "auto-generated" not in l.lower())


def run(scn):
    if scn["family"] == "mixed":
        out = None
        for k, sub in enumerate(scn["seq"]):
            r = run(sub)
            for v in r.get("violations", []):
                v["msg"] = "design %d of %d converted in this process (%s after %s): %s" % (k + 1, len(scn["seq"]), sub["family"], [x["family"] for x in scn["seq"][:k]], v["msg"])
            if out is None:
                out = r
            else:
                out["violations"] = out.get("violations", []) + r.get("violations", [])
                out["digest"] = hashlib.sha256((str(out.get("digest")) + str(r.get("digest"))).encode()).hexdigest()[:16]
                for key, val in r.get("stats", {}).items():
                    if isinstance(val, (int, float)) and not isinstance(val, bool):
                        out["stats"][key] = out["stats"].get(key, 0) + val
                    elif isinstance(val, dict):
                        d_ = out["stats"].setdefault(key, {})
                        for a_, b_ in val.items():
                            if isinstance(b_, (int, float)):
                                d_[a_] = d_.get(a_, 0) + b_
        out["stats"].setdefault("probes", {})["mixed_sequences"] = 1
        return out
    boot.reset_globals()
    fam = scn["family"]
    if fam in ("frag", "exh", "wild"):
        return run_design(scn, build_frag)
    if fam == "mem":
        return run_design(scn, build_mem)
    if fam == "corpus":
        from props import c01_corpus
        return run_design(scn, c01_corpus.build)
    raise ValueError(fam)


def run_design(scn, build):
    import hashlib
    from litex.gen.fhdl.verilog import convert
    from litex.gen.sim.core import Simulator
    from dsim.kernel import SeededClocks
    from dsim import vsim
    viols = []
    stats = {"cycles": 0, "checks": 0, "nontrivial": 0, "faults": {}, "probes": {}, "fingerprints": []}

    def V(cls, obs, msg, cycle=None):
        if len(viols) < 4:
            viols.append({"prop": "C01", "cls": cls, "observable": obs, "msg": msg, "cycle": cycle})

    # ---- subject: convert a first instance
    da = build(scn)
    kw = {}
    if "regular_comb" in scn:
        kw["regular_comb"] = scn["regular_comb"]
    r = convert(da["module"], ios=da["ios"], name="top", **kw)
    text = r.main_source
    names = []
    for s in da["signals"]:
        try:
            names.append(r.ns.get_name(s))
        except Exception:
            names.append(None)
    in_names_a = inputs_names(da, r.ns)
    clk_names = {d: r.ns.get_name(cd.clk) for d, cd in da["cds"].items()}
    rsts_a = da.get("rsts", {d: cd for d, cd in da["cds"].items() if cd.rst is not None})
    rst_names = {d: r.ns.get_name(cd.rst) for d, cd in rsts_a.items()}
    mem_names = [r.ns.get_name(mm) for mm in da["mems"]]
    data_files = {k: v for k, v in r.data_files.items()} if hasattr(r, "data_files") else {}
    try:
        des = vsim.Design(text, data_files=data_files, rng=random.Random(scn.get("proc_seed", 0)),
                          t0_policy=scn.get("t0_policy", "settle"), glitch=bool(scn.get("glitch")))
    except vsim.VError as e:
        V("oscillation" if "convergence" in str(e) else "verilog_rejected", "design" if "convergence" in str(e) else "text",
          "the emitted Verilog cannot be executed: %s" % e)
        return {"violations": viols, "digest": hashlib.sha256(text.encode()).hexdigest()[:16], "stats": stats}

    regs_a = set()          # registers of the netlist = targets of its posedge blocks
    for p in des.procs:
        if p["kind"] == "sync":
            des.targets_of_stmt(p["body"], regs_a)
    # an undriven signal with a reset value is an input port of the netlist: the environment holds it at that value from time 0
    for x in da["inputs"]:
        for sg in (x.values() if isinstance(x, dict) else [x]):
            if sg is not None and sg.reset.value:
                des.set_input(r.ns.get_name(sg), sg.reset.value)
    des.settle()
    # ---- reference: simulate a second instance
    boot.reset_globals()
    db = build(scn)
    domains = list(db["cds"].keys())
    domains = sorted(domains)
    ticks = scn["ticks"]
    stim = stimulus(scn, db)
    state = {"tick": 0, "done": False, "last": -1}
    toggled = set()
    nx = [0, 0]
    prev = {}

    trace = hashlib.sha256()
    has_mem = bool(db["mems"])
    rst_ids = {id(cd.rst) for cd in db.get("rsts", {d: cd for d, cd in db["cds"].items() if cd.rst is not None}).values()}

    def driver(dom):
        ev = sim.evaluator
        sv = ev.signal_values
        mem_arrays = [ev.replaced_memories[mm] for mm in db["mems"]]
        while True:
            if state["done"]:
                return
            t = clocks.ticks
            if state["last"] != t:
                state["last"] = t
                k = state["tick"]
                if mon.hit is not None:
                    # the simulator just used a value that does not fit the Verilog type of its expression in a non-modular
                    # position: from here on the two semantics part for a listed reason (not a translation defect)
                    state["done"] = True
                    state["tainted"] = mon.hit
                    return
                # 1. compare the state before this tick's edges
                row = [k]
                for idx, (s, nm) in enumerate(zip(db["signals"], names)):
                    if nm is None or nm not in des.vars or id(s) in f8_skip:
                        continue
                    ref = sv.get(s, s.reset.value) & ((1 << len(s)) - 1)
                    got = des.get(nm)
                    row.append(ref)
                    row.append(got)
                    nx[0] += 1
                    if got is None:
                        nx[1] += 1
                        if k == 0 and ref != 0 and nm in regs_a:
                            V("uninitialised_register", nm, "the simulation starts %s at its reset value 0x%x, the generated Verilog declares "
                              "the register without an initial value (X under 1364, 0 on an FPGA)" % (nm, ref), 0)
                        continue
                    stats["checks"] += 1
                    if prev.get(idx) not in (None, ref):
                        toggled.add(idx)
                    prev[idx] = ref
                    if got != ref:
                        V("value_mismatch", nm, "tick %d: simulation has %s = 0x%x, the generated Verilog computes 0x%x (width %d)"
                          % (k, nm, ref, got, len(s)), k)
                for arr, mn in zip(mem_arrays, mem_names):
                    for wi in range(min(des.mems[mn]["depth"], len(arr))):
                        s = arr[wi]
                        got = des.get_word(mn, wi)
                        nx[0] += 1
                        if got is None:
                            nx[1] += 1
                            continue
                        ref = sv.get(s, s.reset.value) & ((1 << len(s)) - 1)
                        stats["checks"] += 1
                        if got != ref:
                            V("memory_mismatch", "%s[%d]" % (mn, wi), "tick %d: simulation holds 0x%x, the generated Verilog holds 0x%x"
                              % (k, ref, got), k)
                trace.update(repr(row).encode())      # both value traces go into the run digest (determinism self-test)
                if scn.get("_watch"):
                    print("t%d" % k, " ".join("%s=%x/%s" % (nm, sv.get(s_, s_.reset.value) & ((1 << len(s_)) - 1), des.get(nm))
                                              for s_, nm in zip(db["signals"], names) if nm in scn["_watch"] and nm in des.vars))
                if viols and scn.get("_debug"):
                    print("---- tick", k, "all values (name, sim, verilog) ----")
                    for s_, nm in zip(db["signals"], names):
                        if nm in des.vars:
                            ref = sv.get(s_, s_.reset.value) & ((1 << len(s_)) - 1)
                            got = des.get(nm)
                            print("  %-40s %x %s%s" % (nm, ref, "X" if got is None else "%x" % got, "   <<<<" if got not in (None, ref) else ""))
                if viols or k >= ticks:
                    state["done"] = True
                    return
                # 2. edges in the Verilog world, then new inputs in both
                rising = [d for d in domains if d in clocks.current] if len(domains) > 1 else list(domains)
                try:
                    des.posedge([clk_names[d] for d in rising])
                except vsim.VError as e:
                    V("oscillation" if "convergence" in str(e) else "verilog_rejected", "design", "tick %d: %s" % (k, e), k)
                    state["done"] = True
                    return
                writes = []
                for (sig_b, name_a, val) in stim(k):
                    writes.append(sig_b.eq(val))
                    des.set_input(name_a, val)
                    if val and id(sig_b) in rst_ids:
                        state["rst_ticks"] = state.get("rst_ticks", 0) + 1
                    if val and has_mem and id(sig_b) in rst_ids and mon.hit is None and not scn.get("no_monitor"):
                        # listed finding C01-F12: a domain reset clears memory words and read registers in the simulator only
                        mon.hit = "domain reset while the design contains memories"
                try:
                    des.settle()
                except vsim.VError as e:
                    V("oscillation" if "convergence" in str(e) else "verilog_rejected", "design", "tick %d: %s" % (k, e), k)
                    state["done"] = True
                    return
                state["tick"] = k + 1
                if writes:
                    yield writes
            yield

    clocks = SeededClocks(domains, scn.get("schedule"))
    sim = Simulator(db["module"], {d: [] for d in domains}, clocks={d: 10 for d in domains})
    sim.time = clocks
    from dsim import taint
    mon = taint.Monitor()
    mon.add_fragment(sim.fragment, [sim.evaluator.replaced_memories[mm] for mm in db["mems"]])
    if not scn.get("no_monitor"):       # canonical replays of the listed semantic-gap findings run without the monitor
        mon.attach(sim.evaluator)
    # listed finding C01-F8: a memory with ports in different clock domains is forced read-first in the Verilog only; the read
    # data of its write-first / no-change ports is not compared, and a design that USES such read data is not compared at all
    f8_skip = set()
    from migen.fhdl.specials import READ_FIRST
    for mm in db["mems"]:
        if len({p.clock.cd for p in mm.ports}) > 1 and not scn.get("no_f8_skip"):
            for p in mm.ports:
                if not p.async_read and p.mode != READ_FIRST:
                    f8_skip.add(id(p.dat_r))
    if f8_skip:
        from migen.fhdl.tools import list_inputs
        if any(id(x) in f8_skip for x in list_inputs(sim.fragment)):
            mon.hit = "multi-clock memory forced read-first in the Verilog (C01-F8) and its read data is used"
    stim = bind_stimulus(stim, db, in_names_a, rst_names, scn)
    for d in domains:
        sim.generators[d] = [driver(d)]
    try:
        sim.run()
    finally:
        sim.close()
    stats["cycles"] = state["tick"]
    stats["faults"] = {"proc_order_choice": des.order_choices, "coincident_clock_edges": clocks.coincident, "reset_pulse_ticks": state.get("rst_ticks", 0)}
    if state.get("tainted"):
        stats["faults"]["semantic_gap:" + state["tainted"][:60]] = 1
    stats["probes"] = {"x_values_skipped": nx[1], "ended_at_semantic_gap": int(bool(state.get("tainted"))), "signals_toggled": len(toggled), "two_domains": int(len(domains) > 1),
                       "vsim_process_evals": des.steps}
    if state["tick"] >= 20 and len(toggled) >= min(3, len(prev)) and len(toggled) >= 1 and nx[1] * 2 <= nx[0]:
        stats["nontrivial"] = 1
    h = hashlib.sha256(strip_banner(text).encode())
    h.update(repr(scn.get("stim") if not isinstance(scn.get("stim"), list) else len(scn["stim"])).encode())
    h.update(repr(scn.get("schedule")).encode())
    h.update(trace.digest())
    h.update(repr(state.get("tainted")).encode())
    stats["fingerprints"] = [hashlib.sha256(strip_banner(text).encode()).hexdigest()[:12]]
    stats["disagreements_checked"] = int(bool(viols) or bool(state.get("tainted")))
    return {"violations": viols, "digest": h.hexdigest()[:16], "stats": stats}


def inputs_names(d, ns):
    out = []
    for x in d["inputs"]:
        if isinstance(x, dict):
            out.append({k: (ns.get_name(v) if v is not None else None) for k, v in x.items()})
        else:
            out.append(ns.get_name(x))
    return out


def stimulus(scn, db):
    return scn


def bind_stimulus(scn, db, in_names_a, rst_names, scn2):
    """-> f(k) yielding (signal in the simulated instance, name in the Verilog, value) for tick k."""
    fam = scn["family"]
    if fam in ("frag", "exh", "wild"):
        ins = db["inputs"]
        if scn["stim"] == "all":
            widths = [len(s) for s in ins]

            def f(k):
                out = []
                x = k + 1
                for s, nm, w in zip(ins, in_names_a, widths):
                    out.append((s, nm, x & ((1 << w) - 1)))
                    x >>= w
                return out
            return f
        rsts = scn.get("rst", {})

        def f(k):
            out = []
            if k < len(scn["stim"]):
                for s, nm, v in zip(ins, in_names_a, scn["stim"][k]):
                    out.append((s, nm, v & ((1 << len(s)) - 1)))
            for d, cd in db["cds"].items():
                if cd.rst is not None and d in rst_names:
                    p = rsts.get(d, "")
                    out.append((cd.rst, rst_names[d], int(k < len(p) and p[k] == "1")))
            return out
        return f
    if fam == "mem":
        def f(k):
            out = []
            if k < len(scn["stim"]):
                for port, nms, row in zip(db["inputs"], in_names_a, scn["stim"][k]):
                    out.append((port["adr"], nms["adr"], row[0]))
                    if port["dat_w"] is not None:
                        out.append((port["dat_w"], nms["dat_w"], row[1] & ((1 << len(port["dat_w"])) - 1)))
                        out.append((port["we"], nms["we"], row[2] & ((1 << len(port["we"])) - 1)))
                    if port["re"] is not None:
                        out.append((port["re"], nms["re"], row[3]))
            for d, cd in db["cds"].items():
                if cd.rst is not None and d in rst_names:
                    p = scn.get("rst", {}).get(d, "")
                    out.append((cd.rst, rst_names[d], int(k < len(p) and p[k] == "1")))
            return out
        return f
    if fam == "corpus":
        ins = db["inputs"]
        rr = random.Random(scn["stim_seed"])
        pa = scn.get("p_active", 0.7)
        hints = db.get("hints", {})
        # 1-bit controls are held for a few ticks (handshakes get a chance to complete), data changes freely
        table = []
        cur = [0] * len(ins)
        for _ in range(scn["ticks"]):
            for j, s in enumerate(ins):
                if len(s) == 1:
                    if rr.random() < 0.4:
                        cur[j] = int(rr.random() < pa)
                elif j in hints and rr.random() < 0.85:
                    if rr.random() < 0.5:
                        cur[j] = rr.choice(hints[j]) & ((1 << len(s)) - 1)
                else:
                    if rr.random() < 0.7:
                        cur[j] = corner(rr, len(s))
            table.append(list(cur))
        # (a reset ends the comparison of a design with memories - listed finding C01-F12 - so those get one rarely)
        p_rst = scn.get("p_rst", 0.02) * (0.15 if db["mems"] else 1.0)
        rst_tab = {d: [int(rr.random() < p_rst) for _ in range(scn["ticks"])] for d in sorted(rst_names)}
        rsts_b = db.get("rsts", {})

        def f(k):
            out = []
            if k < len(table):
                for s, nm, v in zip(ins, in_names_a, table[k]):
                    out.append((s, nm, v))
                for d in rst_tab:
                    out.append((rsts_b[d].rst, rst_names[d], rst_tab[d][k]))
            return out
        return f
    raise ValueError(fam)


# ------------------------------------------------------------------------------------------------
# shrinking
# ------------------------------------------------------------------------------------------------
def _sub_exprs(e):
    k = e[0]
    if k == "u":
        return [e[2]]
    if k == "b":
        return [e[2], e[3]]
    if k == "m":
        return [e[2], e[3], e[1]]
    if k == "sl" and isinstance(e[1], list) and e[1][0] != "s":
        return [e[1]]
    if k == "cat":
        return list(e[1])
    if k == "rep":
        return [e[1]]
    if k == "arr":
        return list(e[1])
    return []


def _rewrite_stmts(stmts):
    """yield variants of a statement list: drop one, or simplify one."""
    for i in range(len(stmts)):
        yield stmts[:i] + stmts[i + 1:]
    for i, s in enumerate(stmts):
        if s[0] == "=":
            for sub in _sub_exprs(s[2]):
                yield stmts[:i] + [["=", s[1], sub]] + stmts[i + 1:]
            # one level deeper
            e = s[2]
            for j in range(1, len(e)):
                if isinstance(e[j], list) and e[j] and isinstance(e[j][0], str):
                    for sub in _sub_exprs(e[j]):
                        e2 = list(e)
                        e2[j] = sub
                        yield stmts[:i] + [["=", s[1], e2]] + stmts[i + 1:]
        elif s[0] == "if":
            yield stmts[:i] + s[2] + stmts[i + 1:]
            if s[3]:
                yield stmts[:i] + s[3] + stmts[i + 1:]
            for v in _rewrite_stmts(s[2]):
                yield stmts[:i] + [["if", s[1], v, s[3]]] + stmts[i + 1:]
            for v in _rewrite_stmts(s[3]):
                yield stmts[:i] + [["if", s[1], s[2], v]] + stmts[i + 1:]
            for sub in _sub_exprs(s[1]):
                yield stmts[:i] + [["if", sub, s[2], s[3]]] + stmts[i + 1:]
        elif s[0] == "case":
            for kk, body in s[2]:
                yield stmts[:i] + body + stmts[i + 1:]
            if s[3]:
                yield stmts[:i] + s[3] + stmts[i + 1:]
            for j in range(len(s[2])):
                yield stmts[:i] + [["case", s[1], s[2][:j] + s[2][j + 1:], s[3]]] + stmts[i + 1:]


def shrink_candidates(scn):
    if scn["family"] not in ("frag", "exh", "wild"):
        if isinstance(scn.get("stim"), list) and len(scn["stim"]) > 4:
            c = copy.deepcopy(scn)
            c["stim"] = c["stim"][:len(c["stim"]) // 2]
            c["ticks"] = len(c["stim"])
            yield c
        if scn["family"] == "mem" and len(scn["ports"]) > 1:
            for i in range(len(scn["ports"])):
                c = copy.deepcopy(scn)
                del c["ports"][i]
                c["stim"] = [row[:i] + row[i + 1:] for row in c["stim"]]
                yield c
        return
    if isinstance(scn.get("stim"), list) and len(scn["stim"]) > 2:
        c = copy.deepcopy(scn)
        c["stim"] = c["stim"][:len(c["stim"]) // 2]
        c["ticks"] = len(c["stim"])
        yield c
        c = copy.deepcopy(scn)
        c["stim"] = c["stim"][:-1]
        c["ticks"] = len(c["stim"])
        yield c
    if scn.get("rst"):
        for d, p in scn["rst"].items():
            if "1" in p:
                c = copy.deepcopy(scn)
                c["rst"][d] = "0" * len(p)
                yield c
    for v in _rewrite_stmts(scn["comb"]):
        c = copy.deepcopy(scn)
        c["comb"] = copy.deepcopy(v)
        yield c
    for d in list(scn["sync"].keys()):
        for v in _rewrite_stmts(scn["sync"][d]):
            c = copy.deepcopy(scn)
            c["sync"][d] = copy.deepcopy(v)
            yield c


# ------------------------------------------------------------------------------------------------
# listed findings (only their canonical replay files carry the switches below; the generators never set them and never
# enter the two structural regions F5 / F9)
# ------------------------------------------------------------------------------------------------
def _has_multi_cat_target(stmts):
    for st in stmts:
        if st[0] == "=":
            if st[1][0] == "cat" and len({x[1] for x in st[1][1]}) > 1:
                return True
            if st[1][0] == "slcat" and len(set(st[1][1])) > 1:
                return True
        elif st[0] == "if":
            if _has_multi_cat_target(st[2]) or _has_multi_cat_target(st[3]):
                return True
        elif st[0] == "case":
            if any(_has_multi_cat_target(b) for _, b in st[2]) or _has_multi_cat_target(st[3] or []):
                return True
    return False


def _has_slcat(stmts):
    return '"slcat"' in json.dumps(stmts)


def known_match(scn, v):
    fam = scn.get("family")
    cls = v["cls"]
    if fam in ("frag", "wild", "exh") and cls in ("value_mismatch", "verilog_rejected") and _has_slcat([scn.get("comb", []), scn.get("sync", {})]):
        return "C01-F17"
    if scn.get("glitch") and cls == "oscillation":
        return "C01-F6"
    if scn.get("t0_policy") == "strict" and cls == "value_mismatch":
        return "C01-F7"
    if fam in ("frag", "wild", "exh") and scn.get("regular_comb") is False and _has_multi_cat_target(scn.get("comb", [])) and cls in ("value_mismatch", "verilog_rejected"):
        return "C01-F5"
    if fam == "mem":
        if scn.get("no_f8_skip") and len(scn.get("domains", [])) > 1 and any(p["mode"] != "READ_FIRST" and not p["async_read"] for p in scn["ports"]):
            return "C01-F8"
        if any(p["mode"] == "NO_CHANGE" and p["we_granularity"] for p in scn["ports"]):
            return "C01-F9"
        if scn.get("with_reset") and scn.get("no_monitor"):
            return "C01-F12"
    if scn.get("no_monitor") and cls == "value_mismatch":
        return "C01-F11"
    return None


def extra_coverage(results):
    texts = set()
    gap = 0
    for r in results:
        st = r.get("stats", {})
        texts.update(st.get("fingerprints", ()))
        gap += st.get("probes", {}).get("ended_at_semantic_gap", 0)
    return {"distinct_verilog_texts": len(texts), "runs_ended_at_a_listed_semantic_gap": gap,
            "explanation": "programs = designs converted by the real backend and co-simulated (distinct_verilog_texts of them textually "
                           "distinct); oracle_comparisons = value comparisons simulator vs Verilog interpreter (one per signal / memory word and "
                           "tick, undefined Verilog values skipped); disagreements_checked = runs in which the two executions were about to "
                           "disagree or disagreed and the disagreement was adjudicated: ended by the simulator-side monitor at a listed "
                           "semantic gap (C01-F11/F12/F8), matched to a listed finding, or reported as a violation"}
