"""C19, I2C family: litex.soc.cores.i2c.I2CMaster driven through its Wishbone registers by a software agent (poll idle,
write one command), against an open-drain bus with a slave model and a bus monitor that decodes START / STOP / bits
from the two lines. Tristate pads are lowered to a wired-AND line (ours)."""
from dsim.kernel import Bench, wrap_top, Agent


def generate(rng, tier):
    load = rng.choice([1, 2, 3, 5, 8, 13])
    ops = []
    for _ in range(rng.randint(1, 2)):          # one or two messages, the second one with a repeated start or after a stop
        ops.append({"kind": "start"})
        ops.append({"kind": "write", "data": rng.getrandbits(8), "slave_ack": int(rng.random() < 0.85)})
        for _ in range(rng.randint(0, 3)):
            if rng.random() < 0.5:
                ops.append({"kind": "write", "data": rng.choice([0x00, 0xff, 0x55, 0x80, 0x01, rng.getrandbits(8)]),
                            "slave_ack": int(rng.random() < 0.8)})
            else:
                ops.append({"kind": "read", "slave_data": rng.choice([0x00, 0xff, 0xa5, rng.getrandbits(8)]), "ack": int(rng.random() < 0.7)})
        if rng.random() < 0.6:
            ops.append({"kind": "stop"})
    if ops[-1]["kind"] != "stop":
        ops.append({"kind": "stop"})
    # a STOP command is only valid after an acknowledge (SCL low): one given on an idle bus, right after a START or twice in a row
    # must be ignored (no START/STOP pair on the wire)
    if rng.random() < 0.4:
        k = rng.choice([0, 1, len(ops)])
        ops.insert(k, {"kind": "stop", "redundant": 1})
    for o in ops:
        o["delay"] = rng.choice([0, 0, 1, 2, 3, 7])         # cycles between seeing idle and writing the command
    # overlapping commands: a second strobe while the previous command is still running (software that does not poll)
    overlap = []
    if rng.random() < 0.3:
        for _ in range(rng.randint(1, 2)):
            overlap.append({"after_op": rng.randrange(len(ops)), "cycles": rng.randint(1, 6 * (load + 1)),
                            "kind": rng.choice(["start", "write", "read", "stop"]), "data": rng.getrandbits(8)})
    return {"family": "i2c", "params": {"load": load}, "ops": ops, "overlap": overlap}


CMD = {"read": 1 << 9, "write": 1 << 10, "start": 1 << 11, "stop": 1 << 12}


def run(scn, mkV, _result):
    from migen import Record, Module, Signal
    from migen.fhdl.specials import Tristate
    from litex.soc.cores.i2c import I2CMaster
    p = scn["params"]
    load = p["load"]
    P = load + 1                       # programmed half period in system cycles
    pads = Record([("scl", 1), ("sda", 1)])
    dut = I2CMaster(pads)
    rel = {"scl": Signal(reset=1, name="slave_scl_release"), "sda": Signal(reset=1, name="slave_sda_release")}

    class OpenDrainImpl(Module):
        """wired-AND line: low when the master drives it low (oe & ~o) or the slave pulls it low."""
        def __init__(self, t):
            which = "scl" if t.target is pads.scl else "sda"
            self.comb += t.target.eq(~(t.oe & ~t.o) & rel[which])
            if t.i is not None:
                self.comb += t.i.eq(t.target)

    class OpenDrain:
        @staticmethod
        def lower(dr):
            return OpenDrainImpl(dr)
    ops = [dict(o) for o in scn["ops"]]
    overlap = {o["after_op"]: o for o in scn.get("overlap", [])}
    bus = dut.bus
    rows = []
    st = {"phase": "config", "op": 0, "wait": 0, "issued": [], "wb": None, "idle_seen": None, "ov": None, "ov_t": None,
          "cur": None, "stuck": 0}
    bound = 40 * P + 60

    class Env(Agent):
        reads = (pads.scl, pads.sda, bus.ack, bus.dat_r, dut.i2c.idle)

        def __init__(s_):
            s_.finished = False
            s_.prev_scl = 1

        def done(s_):
            return s_.finished

        def wb(s_, w, we, adr, dat=0):
            w(bus.cyc, 1)
            w(bus.stb, 1)
            w(bus.we, we)
            w(bus.adr, adr)
            w(bus.dat_w, dat)
            w(bus.sel, 15)
            st["wb"] = (we, adr)

        def step(s_, v, t, w):
            scl, sda = v[pads.scl], v[pads.sda]
            rows.append((scl, sda, v[dut.i2c.idle]))
            # ---- slave model: changes its SDA drive only while it sees SCL low (visible one cycle later)
            cur = st["cur"]
            if cur is not None and cur["kind"] in ("write", "read"):
                if s_.prev_scl == 1 and scl == 0:
                    cur["falls"] += 1
                f = cur["falls"]
                if scl == 0:
                    if cur["kind"] == "write":
                        # falling edge #1 opens bit 7 ... #8 opens bit 0, #9 opens the acknowledge slot
                        w(rel["sda"], 0 if (f == 9 and cur["slave_ack"]) else 1)
                    else:
                        # read: SCL is already low when the command is taken: bit 7 at once, then one bit per falling edge
                        w(rel["sda"], ((cur["slave_data"] >> (7 - f)) & 1) if f < 8 else 1)
            s_.prev_scl = scl
            # ---- software
            if st["wb"] is not None:
                if v[bus.ack]:
                    we, adr = st["wb"]
                    st["wb"] = None
                    w(bus.cyc, 0)
                    w(bus.stb, 0)
                    if not we and adr == 0:
                        st["last_xfer"] = v[bus.dat_r]
                        st["idle_seen"] = bool(v[bus.dat_r] & (1 << 13))
                return
            ph = st["phase"]
            if ph == "config":
                s_.wb(w, 1, 1, load)
                st["phase"] = "poll"
                return
            if ph == "poll":
                if st["idle_seen"]:
                    if st["cur"] is not None:          # results of the command that just finished
                        st["cur"]["xfer"] = st.get("last_xfer")
                        st["cur"]["end"] = t
                        st["cur"] = None
                        w(rel["sda"], 1)
                    if st["op"] >= len(ops):
                        st["phase"] = "end"
                        st["wait"] = 3 * P + 6
                        return
                    st["phase"] = "delay"
                    st["wait"] = ops[st["op"]]["delay"]
                    st["idle_seen"] = None
                    return
                st["stuck"] += 1
                if st["stuck"] > bound:
                    s_.finished = True
                    st["hung"] = t
                    return
                ov = st["ov"]
                if ov is not None and t >= st["ov_t"]:
                    # an overlapping strobe (software that does not poll) a literal number of cycles after the command
                    st["ov"] = None
                    st["ov_fired"] = st.get("ov_fired", 0) + 1
                    s_.wb(w, 1, 0, CMD[ov["kind"]] | (ov["data"] & 0xff))
                    return
                st["idle_seen"] = None
                s_.wb(w, 0, 0)
                return
            if ph == "delay":
                if st["wait"] > 0:
                    st["wait"] -= 1
                    return
                op = ops[st["op"]]
                word = CMD[op["kind"]]
                if op["kind"] == "write":
                    word |= op["data"]
                if op["kind"] == "read":
                    word |= op["ack"] << 8
                s_.wb(w, 1, 0, word)
                # a write taken while SCL is low (after a previous byte) presents bit 7 in the running low phase: no falling edge for it
                st["cur"] = dict(op, falls=0 if (scl or op["kind"] != "write") else 1, index=st["op"], issued=t, scl_at_issue=scl)
                st["issued"].append(st["cur"])
                if op["kind"] == "read":
                    w(rel["sda"], (op["slave_data"] >> 7) & 1)
                if st["op"] in overlap:
                    st["ov"] = overlap[st["op"]]
                    st["ov_t"] = t + 2 + st["ov"]["cycles"]
                st["op"] += 1
                st["phase"] = "poll"
                st["stuck"] = 0
                st["idle_seen"] = None
                return
            if ph == "end":
                st["wait"] -= 1
                if st["wait"] <= 0:
                    s_.finished = True
    bench = Bench(wrap_top(dut), max_cycles=len(ops) * (bound + 40) + 400, tail=1, fingerprint=False, overrides={Tristate: OpenDrain})
    bench.add(Env())
    bench.run()
    viols = []
    V = mkV(viols)
    checks = 0
    n = len(rows)
    clean = not scn.get("overlap")
    issued = st["issued"]
    if "hung" in st:
        c = issued[-1]
        V("not_finished", "idle", "command #%d (%s) issued at cycle %d: the core does not report idle within %d cycles (half period %d cycles)"
          % (c["index"], c["kind"], c["issued"], bound, P), st["hung"])
    # ---- bus monitor: decode START / STOP / bits from the two lines
    events = []
    last_edge = None
    last_start = None
    for k in range(1, n):
        (s0, d0, _), (s1, d1, _) = rows[k - 1], rows[k]
        checks += 1
        if s0 != s1 and d0 != d1:
            V("sda_with_scl_edge", "sda", "SDA and SCL change in the same cycle (%d): no set-up / hold time" % k, k)
            break
        if s0 == 1 and s1 == 1 and d0 != d1:
            events.append(("START" if d1 == 0 else "STOP", k))
            if d1 == 1 and last_edge is not None and k - last_edge < P:
                V("stop_setup_short", "sda", "STOP: SDA rises at cycle %d, only %d cycles after SCL rose (programmed half period %d)" % (k, k - last_edge, P), k)
                break
            if d1 == 0:
                last_start = k
        if s0 == 1 and s1 == 0 and last_start is not None:
            if k - last_start < P:
                V("start_hold_short", "scl", "START: SCL falls at cycle %d, only %d cycles after SDA fell (programmed half period %d)" % (k, k - last_start, P), k)
                break
            last_start = None
        if s0 != s1:
            if last_edge is not None and k - last_edge < P:
                V("scl_phase_short", "scl", "SCL %s phase from cycle %d to %d lasts %d cycles, the programmed half period is %d"
                  % ("high" if s0 else "low", last_edge, k, k - last_edge, P), k)
                break
            last_edge = k
            if s1 == 1:
                events.append(("BIT", k, d1))
    nstart = sum(1 for e in events if e[0] == "START")
    nstop = sum(1 for e in events if e[0] == "STOP")
    if clean and not viols:
        exp = []
        for c in issued:
            if c["kind"] == "start":
                exp.append(("START",))
            elif c["kind"] == "stop":
                if not c["scl_at_issue"]:
                    exp.append(("STOP",))         # (with SCL high the command is not valid and leaves the bus alone)
            elif c["kind"] == "write":
                exp += [("BIT", (c["data"] >> (7 - i)) & 1) for i in range(8)] + [("BIT", 0 if c["slave_ack"] else 1)]
            else:
                exp += [("BIT", (c["slave_data"] >> (7 - i)) & 1) for i in range(8)] + [("BIT", 0 if c["ack"] else 1)]
        # a repeated start raises SCL with SDA high and a stop raises it with SDA low: those rising edges, which come after a
        # complete 9-bit group and right before the START / STOP, are not data bits
        got, nbits = [], 0
        seq = [(e[0],) if e[0] != "BIT" else ("BIT", e[2]) for e in events]
        for i, e in enumerate(seq):
            nxt = seq[i + 1] if i + 1 < len(seq) else None
            if e[0] == "BIT" and nbits % 9 == 0 and ((e[1] == 1 and nxt == ("START",)) or (e[1] == 0 and nxt == ("STOP",))):
                continue
            if e[0] == "BIT":
                nbits += 1
            got.append(e)
        checks += len(exp)
        if got != exp:
            i = next((j for j in range(min(len(got), len(exp))) if got[j] != exp[j]), min(len(got), len(exp)))
            V("bus_sequence", "scl/sda", "decoded bus events differ from the commands at position %d: bus has %s, the commands mean %s (%d vs %d events)"
              % (i, got[i:i + 3], exp[i:i + 3], len(got), len(exp)))
        for c in issued:
            x = c.get("xfer")
            if x is None:
                continue
            checks += 1
            if c["kind"] == "write" and ((x >> 8) & 1) != c["slave_ack"]:
                V("ack_flag", "xfer.ack", "write #%d: the slave %s, the ack flag reads %d"
                  % (c["index"], "acknowledged" if c["slave_ack"] else "did not acknowledge", (x >> 8) & 1))
            if c["kind"] == "read" and (x & 0xff) != c["slave_data"]:
                V("read_data", "xfer.data", "read #%d: the slave sent %#04x, the data register reads %#04x" % (c["index"], c["slave_data"], x & 0xff))
    if not viols and "hung" not in st and clean:
        checks += 1
        if rows[-1][0] != 1 or rows[-1][1] != 1:
            V("not_idle", "scl/sda", "bus lines not released at the end (scl=%d sda=%d) although the last command was a stop" % rows[-1][:2])
    return _result(viols, [r[:2] for r in rows], {"cycles": n, "checks": checks, "nontrivial": len(issued) >= 4,
                                                   "faults": {"cmd_overlap": st.get("ov_fired", 0), "cmd_delay": sum(1 for o in ops if o["delay"])},
                                                   "probes": {"i2c_starts": nstart, "i2c_stops": nstop, "i2c_bits": sum(1 for e in events if e[0] == "BIT"),
                                                              "i2c_reads": sum(1 for o in ops if o["kind"] == "read")}})
