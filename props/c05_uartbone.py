"""C05, family UARTBone: litex.soc.cores.uart.UARTBone(phy, cd="b") - the byte stream of the host crosses from the PHY domain "b"
into the system domain (rx_cdc), is interpreted by Stream2Wishbone, and the read data crosses back (tx_cdc). The host is a party
in domain "b" (stub PHY: two bare stream endpoints) that sends whole commands back to back - also while the bridge is busy with
a Wishbone access or with returning data, so that bytes queue inside the crossing - and consumes the answer bytes with a literal
ready pattern; the Wishbone slave is a memory with literal latencies in the system domain.
Oracle: the slave sees exactly the commanded accesses (we, address, data) in order, the host receives exactly the bytes of the
words read, in order (memory model), nothing is lost, duplicated or invented, under the seeded edge schedules and per-bit
synchroniser resolutions of C05."""
from dsim import prng, cdc
from dsim.kernel import Bench, Agent
from dsim.wb_agents import WBSlave

CMD_WR_INCR, CMD_RD_INCR, CMD_WR_FIXED, CMD_RD_FIXED = 1, 2, 3, 4


def generate(rng, tier):
    n_ticks = rng.choice([600, 1200, 2000])
    sched, desc = cdc.gen_schedule(rng, n_ticks, 2)
    cmds = []
    for _ in range(rng.randint(3, 9)):
        kind = rng.choice([CMD_WR_INCR, CMD_RD_INCR, CMD_WR_INCR, CMD_RD_INCR, CMD_WR_FIXED, CMD_RD_FIXED])
        n = rng.choice([1, 1, 2, 3, 5])
        adr = rng.choice([0, 1, 2, 3, 4, 8, 0x10, 0x3ff0]) + rng.randint(0, 3)
        cmds.append({"cmd": kind, "adr": adr, "n": n, "data": [rng.getrandbits(32) for _ in range(n)] if kind in (CMD_WR_INCR, CMD_WR_FIXED) else []})
    return {"family": "UARTBone", "params": {}, "schedule": sched, "sched_desc": desc, "cmds": cmds,
            "host_valid": prng.pattern(rng, 400, rng.choice([1.0, 1.0, 0.7, 0.3])), "host_ready": prng.pattern(rng, 400, rng.choice([1.0, 0.6, 0.25])),
            "lat": [rng.choice([1, 1, 2, 3, 5, 9]) for _ in range(11)], "init_seed": rng.getrandbits(16),
            "meta": [rng.getrandbits(16) for _ in range(64)] if rng.random() < 0.8 else [0]}


def run(scn):
    from migen import Module, ClockDomain
    from litex.soc.cores.uart import UARTBone
    from litex.soc.interconnect import stream
    reg = cdc.new_registry()

    class StubPHY(Module):
        def __init__(self):
            self.sink = stream.Endpoint([("data", 8)])
            self.source = stream.Endpoint([("data", 8)])
    phy = StubPHY()
    dut = UARTBone(phy, clk_freq=int(1e6), cd="b")

    class Top(Module):
        def __init__(self):
            self.submodules.dut = dut
            self.clock_domains.cd_sys = ClockDomain("sys")
            self.clock_domains.cd_b = ClockDomain("b")
    # ---- expected byte stream / accesses / answers
    iseed = scn["init_seed"]

    def init(a):
        return (a * 0x9e3779b1 + iseed * 0x10001) & 0xffffffff
    to_send, exp_acc, exp_back, mem = [], [], [], {}
    for c in scn["cmds"]:
        to_send += [c["cmd"], c["n"]] + [(c["adr"] >> s) & 0xff for s in (24, 16, 8, 0)]
        incr = c["cmd"] in (CMD_WR_INCR, CMD_RD_INCR)
        for k in range(c["n"]):
            a = c["adr"] + (k if incr else 0)
            if c["cmd"] in (CMD_WR_INCR, CMD_WR_FIXED):
                d = c["data"][k]
                to_send += [(d >> s) & 0xff for s in (24, 16, 8, 0)]
                exp_acc.append((1, a, d))
                mem[a] = d
            else:
                d = mem.get(a, init(a))
                exp_acc.append((0, a, None))
                exp_back += [(d >> s) & 0xff for s in (24, 16, 8, 0)]
    nsys = sum(1 for ch in scn["schedule"] if (ord(ch) - ord("a") + 1) & 1)
    bench = Bench(Top(), domains=["sys", "b"], schedule=scn["schedule"], overrides=cdc.overrides(),
                  max_cycles=nsys + 60 * len(to_send) + 40 * len(exp_back) + 800, fingerprint=False)
    st = {"i": 0, "back": []}

    def pat(s, t):
        return 1 if t >= len(s) else int(s[t] == "1")

    class Host(Agent):
        reads = (phy.source.valid, phy.source.ready, phy.sink.valid, phy.sink.ready, phy.sink.data)

        def __init__(s_):
            s_.offering = False

        def done(s_):
            return st["i"] >= len(to_send) and len(st["back"]) >= len(exp_back) and len(slave.log) >= len(exp_acc)

        def step(s_, v, t, w):
            if v[phy.sink.valid] and v[phy.sink.ready]:
                st["back"].append(v[phy.sink.data])
                bench.event("host", "rx", t, v[phy.sink.data])
            if s_.offering and v[phy.source.valid] and v[phy.source.ready]:
                st["i"] += 1
                s_.offering = False
            w(phy.sink.ready, pat(scn["host_ready"], t))
            if not s_.offering:
                if st["i"] < len(to_send) and pat(scn["host_valid"], t):
                    w(phy.source.valid, 1)
                    w(phy.source.data, to_send[st["i"]])
                    s_.offering = True
                else:
                    w(phy.source.valid, 0)
    slave = bench.add(WBSlave(dut.wishbone, scn["lat"], name="mem", init=init), "sys")
    bench.add(Host(), "b")
    cdc.MetaInjector(reg, scn.get("meta")).attach(bench, {})
    bench.run()
    viols = []

    def V(cls, obs, msg):
        if len(viols) < 4:
            viols.append({"prop": "C05", "cls": cls, "observable": obs, "msg": msg, "cycle": None})
    checks = 0
    got_acc = [(x["we"], x["adr"], x["dat_w"] if x["we"] else None) for x in slave.log]
    for k, g in enumerate(got_acc):
        checks += 1
        if k >= len(exp_acc):
            V("token_invented", "wishbone accesses", "access #%d %r performed, the host commanded only %d" % (k, g, len(exp_acc)))
            break
        if g != exp_acc[k]:
            V("token_mismatch", "wishbone accesses", "access #%d is (we=%d adr=%#x dat=%s), commanded (we=%d adr=%#x dat=%s): a byte of the command stream was lost, duplicated or corrupted in the crossing"
              % (k, g[0], g[1], "%#x" % g[2] if g[2] is not None else "-", exp_acc[k][0], exp_acc[k][1], "%#x" % exp_acc[k][2] if exp_acc[k][2] is not None else "-"))
            break
    else:
        checks += 1
        if st["i"] >= len(to_send) and len(got_acc) < len(exp_acc):
            V("token_missing", "wishbone accesses", "%d of %d commanded accesses performed after %d ticks (all %d command bytes were accepted)"
              % (len(got_acc), len(exp_acc), bench.clocks.ticks, len(to_send)))
    if not viols:
        for k, g in enumerate(st["back"]):
            checks += 1
            if k >= len(exp_back):
                V("token_invented", "answer bytes", "byte #%d (%#04x) returned, only %d were due" % (k, g, len(exp_back)))
                break
            if g != exp_back[k]:
                V("token_mismatch", "answer bytes", "answer byte #%d is %#04x, expected %#04x" % (k, g, exp_back[k]))
                break
        else:
            checks += 1
            if st["i"] >= len(to_send) and len(st["back"]) < len(exp_back):
                V("token_missing", "answer bytes", "%d of %d answer bytes returned after %d ticks" % (len(st["back"]), len(exp_back), bench.clocks.ticks))
    if not viols and st["i"] < len(to_send):
        V("no_progress", "command bytes", "%d of %d command bytes accepted after %d ticks" % (st["i"], len(to_send), bench.clocks.ticks))
    stats = {"cycles": bench.cycle["sys"], "checks": checks, "nontrivial": len(got_acc) >= 3 and len(st["back"]) >= 4,
             "faults": dict(bench.fault_counts), "probes": {"uartbone_accesses": len(got_acc), "uartbone_answer_bytes": len(st["back"])}}
    return {"violations": viols, "digest": bench.digest(), "stats": stats}
