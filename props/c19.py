"""C19 - Serial peripherals and timers produce exact waveforms and always finish.

Families: uart_tx (RS232PHYTX against an independent pin-level receiver), uart_rx (RS232PHYRX against an
ideal transmitter on its own skewed clock with sub-cycle phase and edge-resolution faults, bad stop bits),
spi (SPIMaster raw/aligned against a mode-0 device model, start timing vs divider phase, overlapping
commands, manual CS, loopback), timer (Timer through a real CSRBank: one-shot, periodic, stop, latch),
watchdog (feed/enable/pause/saturation), pwm, i2c (I2CMaster through its Wishbone registers against an open-drain bus with a
slave model and a START/STOP/bit decoder: props/c19_i2c.py)."""
import hashlib

from dsim import prng
from dsim.kernel import Bench, wrap_top, Agent
from dsim.wb_agents import PortRecorder

PROPERTY = "C19"
LEVEL = "exploration"
RULE = ("one run = one real peripheral core with seeded configuration (baud tuning word / divider / width) and a literal "
        "command history (bytes with gaps, start requests at literal cycles relative to the divider phase incl. overlapping "
        "ones, CSR writes for the timers) against an independent pin-level peer (UART receiver; UART transmitter on a clock "
        "skewed by up to +-2% with a literal sub-cycle phase and literal per-edge resolution choices; SPI mode-0 device); "
        "oracles: frame structure and bit-edge timing, exactly-once in-order bytes, exact SPI clock pulse count / CS framing / "
        "MSB-first data / capture, cycle-exact timer and watchdog models, return to idle. Non-trivial = at least two transfers "
        "or timer events completed with a fault/irregularity injected (skew, phase, overlap, back-to-back); distinct = "
        "distinct digest of the pin waveform")
ASSUMPTIONS = [
    "UART: bit period >= 8 system cycles; remote rate within +-2% for bit periods >= 16 cycles and matched below (the receiver "
    "samples 3-4 cycles after mid-bit, which eats the tolerance at very low oversampling); idle >= 1 bit between frames; a frame "
    "with a low stop bit is followed by >= 2 bit times of idle",
    "UART TX edge tolerance +-1 system cycle around k*2^32/tuning_word from the start edge",
    "SPI device model needs clk_divider >= 4 to answer (one system cycle after the falling edge); smaller dividers are checked "
    "with loopback and MOSI/CLK/CS only",
    "I2C: half period >= 2 system cycles (load >= 1: the core moves SDA one cycle after an SCL edge), no clock stretching by the slave "
    "(the core does not support it), one command per register write (compound commands are a documented TODO of the core); "
    "overlapping commands (a write while a transfer runs) are checked for bus legality, timing and return to idle only",
    "Timer: the event raised in the very first cycles after reset (count is zero at reset) is not compared (software clears "
    "pending before use)",
    "spimmap (spi_mmap.SPIMaster): mode, divider, length and chip select are set at least two cycles before the start pulse and a new "
    "transfer is configured no earlier than a cycle after done (changing CPOL toggles the idle clock line by design)",
    "spimmap / spiengine: dividers >= 2 (the slot register documents 0 and 1 as reserved; with them the internal clock runs one more half "
    "period after done and the engine reads a receive word shifted by one bit)",
]
COMPONENTS = {"real": ["litex.soc.cores.uart.RS232PHYTX/RS232PHYRX/RS232ClkPhaseAccum", "litex.soc.cores.spi.spi_master.SPIMaster", "litex.soc.cores.spi.spi_mmap.SPIMaster/SPIEngine",
                       "litex.soc.cores.i2c.I2CMaster/I2CMasterMachine/I2CClockGen (through its Wishbone registers)",
                       "litex.soc.cores.timer.Timer", "litex.soc.cores.watchdog.Watchdog", "litex.soc.cores.pwm.PWM",
                       "litex.soc.interconnect.csr_bus.CSRBank", "litex.gen.sim.core.Simulator (MultiReg lowered normally)"],
              "stub": ["pin-level UART peer (skewed clock, phase, edge resolution)", "SPI device model", "I2C open-drain bus (Tristate lowering), slave model and bus monitor", "software (CSR master)",
                       "tracer shim", "clock source"]}
CHUNK = 4


SEEDED_SCALE = {"quick": 4, "thorough": 5}      # multiplies the run counts of the sampled families in plan()

def plan(tier):
    if tier == "quick":
        return [("uart_tx", 40), ("uart_rx", 50), ("spi", 80), ("timer", 60), ("watchdog", 40), ("pwm", 20), ("timeline", 60), ("i2c", 120), ("spislave", 40), ("uart_full", 30), ("spimmap", 40), ("spiengine", 40)]
    return [("uart_tx", 1500), ("uart_rx", 2500), ("spi", 4000), ("timer", 3000), ("watchdog", 2000), ("pwm", 500), ("timeline", 2000), ("i2c", 6000), ("spislave", 2000), ("uart_full", 1500), ("spimmap", 2000), ("spiengine", 2000)]


def generate(family, rng, tier):
    if family == "uart_tx":
        T = rng.choice([8.0, 8.68, 10.0, 13.3, 16.0, 25.5])
        tw = int(2 ** 32 / T)
        n = rng.randint(2, 8)
        toks = [{"data": rng.choice([0x00, 0xff, 0x55, 0xaa, rng.getrandbits(8)]), "first": 0, "last": 0} for _ in range(n)]
        return {"family": family, "params": {"tuning_word": tw}, "tokens": [toks],
                "src_pattern": prng.pattern(rng, 400, rng.choice([1.0, 0.5, 0.05]))}
    if family == "uart_rx":
        T = rng.choice([8.0, 8.68, 10.0, 13.3, 16.0, 17.36, 25.5, 32.0, 54.25])
        tw = int(2 ** 32 / T)
        n = rng.randint(2, 8)
        frames = []
        for _ in range(n):
            frames.append({"data": rng.choice([0x00, 0xff, 0x55, 0xaa, rng.getrandbits(8)]),
                           "gap": rng.choice([1.0, 1.0, 1.5, 3.0, 7.3]),       # idle before the frame, in bit times
                           "bad_stop": rng.random() < 0.12})
        # the receiver samples about 3-4 system cycles late (synchroniser + edge detector): the full +-2% is demanded for
        # bit periods >= 16 cycles, shorter bit periods are checked with matched rates (phase and resolution only)
        skew = rng.choice([0.0, 0.01, -0.01, 0.02, -0.02, 0.015]) if T >= 16 else 0.0
        return {"family": family, "params": {"tuning_word": tw, "skew": skew, "phase": round(rng.random(), 3)},
                "frames": frames, "meta": [rng.getrandbits(1) for _ in range(64)]}
    if family == "spi":
        dwidth = rng.choice([8, 16, 32])
        mode = rng.choice(["raw", "aligned"])
        div = rng.choice([2, 3, 4, 4, 5, 8, 16, 7])
        cmds, t = [], rng.randint(2, 40)
        for _ in range(rng.randint(2, 6)):
            ln = rng.choice([1, 2, dwidth // 2, dwidth - 1, dwidth, rng.randint(1, dwidth)])
            cmds.append({"at": t, "length": ln, "mosi": rng.getrandbits(dwidth), "miso": rng.getrandbits(ln)})
            r = rng.random()
            if r < 0.25:
                t += rng.randint(1, ln * div)           # overlapping: start while busy (must be ignored)
            elif r < 0.5:
                t += (ln + 3) * div + rng.randint(0, 3)     # around the end of the transfer
            else:
                t += (ln + 4) * div + rng.randint(0, 40)
        # a command issued while the previous transfer may still run keeps the same length: `length` is read live by the
        # core (changing it mid-transfer is listed known finding C19-F1)
        for i in range(1, len(cmds)):
            if cmds[i]["at"] - cmds[i - 1]["at"] < (cmds[i - 1]["length"] + 4) * div + 2:
                cmds[i]["length"] = cmds[i - 1]["length"]
                cmds[i]["miso"] &= (1 << cmds[i]["length"]) - 1
        with_csr = rng.random() < 0.35
        if with_csr:
            # software needs two bus writes per command (mosi, control): commands at least 3 cycles apart, the first one after
            # the configuration writes
            t0 = 8
            for c in cmds:
                c["at"] = max(c["at"], t0)
                t0 = c["at"] + 3
        ncs = rng.choice([1, 1, 2, 3])
        sel = rng.choice([1, 1, (1 << ncs) - 1, 1 << rng.randrange(ncs), rng.getrandbits(ncs) | 1]) & ((1 << ncs) - 1)
        return {"family": family, "params": {"data_width": dwidth, "mode": mode, "div": div, "loopback": div < 4 or rng.random() < 0.2, "ncs": ncs, "sel": sel or 1, "with_csr": with_csr,
                                             "cs_mode": int(rng.random() < 0.2)}, "cmds": cmds}
    if family == "timer":
        ops, t = [], 4
        for _ in range(rng.randint(3, 10)):
            kind = rng.choice(["oneshot", "periodic", "stop", "latch", "clear", "reload_change"])
            ops.append({"at": t, "kind": kind, "n": rng.choice([1, 2, 3, 5, 9, 17])})
            t += rng.choice([12, 25, 40, 70])
        return {"family": family, "params": {"width": rng.choice([8, 32])}, "ops": ops, "ncyc": t + 60}
    if family == "watchdog":
        ops, t = [], 4
        for _ in range(rng.randint(3, 10)):
            kind = rng.choice(["cycles", "enable", "feed", "feed", "disable", "halt", "unhalt", "pause_on", "pause_off"])
            ops.append({"at": t, "kind": kind, "n": rng.choice([1, 2, 5, 9, 20])})
            t += rng.choice([6, 10, 17, 30])
        return {"family": family, "params": {"width": rng.choice([8, 32])}, "ops": ops, "ncyc": t + 40}
    if family == "pwm":
        chg, t = [], 3
        for _ in range(rng.randint(2, 6)):
            per = rng.choice([1, 2, 5, 8, 16])
            chg.append({"at": t, "period": per, "width": rng.choice([0, 1, per // 2, per, per + 1]), "enable": int(rng.random() < 0.85)})
            t += rng.choice([20, 40, 64])
        return {"family": family, "params": {}, "changes": chg, "ncyc": t + 40}
    if family == "i2c":
        from props import c19_i2c
        return c19_i2c.generate(rng, tier)
    if family == "spislave":
        from props import c19_spislave
        return c19_spislave.generate(rng, tier)
    if family == "spimmap":
        from props import c19_spimmap
        return c19_spimmap.generate(rng, tier)
    if family == "spiengine":
        from props import c19_spiengine
        return c19_spiengine.generate(rng, tier)
    if family == "uart_full":
        from props import c19_uartfull
        return c19_uartfull.generate(rng, tier)
    if family == "timeline":
        last = rng.choice([1, 2, 3, 4, 5, 7, 8, 9, 15, 16, 17])
        times = sorted(set([rng.choice([0, 1]), last] + [rng.randint(0, last) for _ in range(rng.randint(0, 3))]))
        return {"family": family, "params": {"times": times}, "trigger_pattern": prng.pattern(rng, 150, rng.choice([0.05, 0.2, 0.5, 1.0]))}
    raise KeyError(family)


def run(scn):
    if scn["family"] == "i2c":
        from props import c19_i2c
        return c19_i2c.run(scn, mkV, _result)
    if scn["family"] == "spislave":
        from props import c19_spislave
        return c19_spislave.run(scn, mkV, _result)
    if scn["family"] == "spimmap":
        from props import c19_spimmap
        return c19_spimmap.run(scn, mkV, _result)
    if scn["family"] == "spiengine":
        from props import c19_spiengine
        return c19_spiengine.run(scn, mkV, _result)
    if scn["family"] == "uart_full":
        from props import c19_uartfull
        return c19_uartfull.run(scn, mkV, _result, decode_tx_wave, RemoteTx)
    return {"timeline": run_timeline, "uart_tx": run_uart_tx, "uart_rx": run_uart_rx, "spi": run_spi, "timer": run_timer, "watchdog": run_watchdog,
            "pwm": run_pwm}[scn["family"]](scn)


def _result(viols, wave, stats):
    return {"violations": viols, "digest": hashlib.sha256(repr(wave).encode()).hexdigest()[:16], "stats": stats}


def mkV(viols):
    def V(cls, obs, msg, cycle=None):
        if len(viols) < 4:
            viols.append({"prop": "C19", "cls": cls, "observable": obs, "msg": msg, "cycle": cycle})
    return V


# ------------------------------------------------------------------------------------------------
def decode_tx_wave(wave, T, V):
    """Independent pin-level receiver: frames of 10 cells of T cycles from each start edge; every cell must be constant in its
    interior (+-1 cycle at the borders), start low, stop high. Returns (bytes, checks)."""
    checks = 0
    got, k, n = [], 0, len(wave)
    if wave and wave[0] != 1:
        V("idle_level", "tx", "line is %d in the first cycle (idle must be high)" % wave[0], 0)
    while k < n:
        if wave[k] == 1:
            k += 1
            continue
        if k == 0 or wave[k - 1] != 1:
            k += 1
            continue
        s = k    # start edge: first low cycle
        bits = []
        ok = True
        for b in range(10):
            lo, hi = s + b * T, s + (b + 1) * T
            cyc = [c for c in range(int(lo) + 2, int(hi) - 1) if c < n]     # interior of the bit cell (+-1 cycle tolerance)
            if not cyc:
                ok = False
                break
            vals = {wave[c] for c in cyc}
            checks += 1
            if len(vals) != 1:
                V("bit_timing", "tx", "frame starting at cycle %d: bit %d changes inside its cell [%d,%d] (bit period %.2f)" % (s, b, cyc[0], cyc[-1], T), s)
                ok = False
                break
            bits.append(vals.pop())
        if not ok:
            break
        if bits[0] != 0 or bits[9] != 1:
            V("framing", "tx", "frame at cycle %d: start=%d stop=%d" % (s, bits[0], bits[9]), s)
            break
        got.append(sum(bit << i for i, bit in enumerate(bits[1:9])))
        k = int(s + 9.5 * T)
    return got, checks


def run_uart_tx(scn):
    from migen import Signal
    from litex.soc.cores import uart
    from dsim.stream_agents import Producer
    tw = scn["params"]["tuning_word"]
    T = 2 ** 32 / tw
    pads = uart.UARTPads()
    dut = uart.RS232PHYTX(pads, Signal(32, reset=tw))
    toks = scn["tokens"][0]
    bench = Bench(wrap_top(dut), max_cycles=int(len(toks) * 12 * T + len(scn["src_pattern"]) * 2 + 200), tail=int(2 * T) + 4, fingerprint=False)
    prod = bench.add(Producer(dut.sink, toks, scn["src_pattern"], None, name="tx"))
    wave = []
    bench.add(PortRecorder([pads.tx], lambda t, row: wave.append(row[0])))
    bench.run()
    viols = []
    V = mkV(viols)
    got, checks = decode_tx_wave(wave, T, V)
    n = len(wave)
    exp = [toks[i]["data"] for _, i in prod.accepted]
    checks += len(got)
    if not viols and got != exp[:len(got)]:
        V("byte_sequence", "tx", "transmitted %s, accepted %s" % ([hex(x) for x in got], [hex(x) for x in exp]))
    if not viols and (len(got) < len(exp) or not prod.done()):
        V("not_finished", "tx", "%d of %d accepted bytes transmitted, %d of %d accepted after %d cycles" % (len(got), len(exp), prod.idx, len(toks), n))
    if wave and wave[-1] != 1 and not viols:
        V("not_idle", "tx", "line low at the end of the run")
    return _result(viols, wave, {"cycles": n, "checks": checks, "nontrivial": len(got) >= 2 and prod.paused_cycles > 0,
                                 "faults": {"gap_cycles": prod.paused_cycles}, "probes": {"bytes": len(got)}})


# ------------------------------------------------------------------------------------------------
class RemoteTx(Agent):
    """Ideal UART transmitter on its own clock: edges at real-valued times (system cycles), the line seen in
    cycle c is the ideal level at time c, except in the cycle containing an edge where it resolves old/new per
    a literal choice."""

    def __init__(self, pin, edges, choices, end=None):
        self.pin, self.edges, self.choices = pin, edges, choices   # edges: list of (time, level after)
        self.reads = ()
        self.i = 0
        self.level = 1
        self.cpos = 0
        self.end = end if end is not None else (edges[-1][0] if edges else 0)
        self.t = 0
        self.resolved_old = 0

    def done(self):
        return self.t > self.end + 4

    def step(self, v, t, w):
        self.t = t
        # value for cycle t+1: ideal level at time t+1
        tt = t + 1
        new = self.level
        while self.i < len(self.edges) and self.edges[self.i][0] <= tt:
            e_t, lvl = self.edges[self.i]
            if tt - e_t < 1.0 and self.choices[self.cpos % len(self.choices)]:
                # the edge fell inside this sampling interval: first flop may still see the old level
                self.cpos += 1
                self.resolved_old += 1
                break
            self.cpos += 1 if tt - e_t < 1.0 else 0
            new = lvl
            self.i += 1
        if new != self.level:
            self.level = new
            w(self.pin, new)


def run_uart_rx(scn):
    from migen import Signal
    from litex.soc.cores import uart
    p = scn["params"]
    tw = p["tuning_word"]
    T = 2 ** 32 / tw
    Tr = T * (1 + p["skew"])
    pads = uart.UARTPads()
    pads.rx.reset = 1
    dut = uart.RS232PHYRX(pads, Signal(32, reset=tw))
    edges, t = [], 6.0 + p["phase"]
    level = 1
    exp = []
    for f in scn["frames"]:
        t += f["gap"] * Tr
        bits = [0] + [(f["data"] >> i) & 1 for i in range(8)] + [0 if f["bad_stop"] else 1]
        for b in bits:
            if b != level:
                edges.append((t, b))
                level = b
            t += Tr
        if level != 1:
            edges.append((t, 1))
            level = 1
        if f["bad_stop"]:
            t += 2.5 * Tr
        else:
            exp.append(f["data"])
    bench = Bench(wrap_top(dut), max_cycles=int(t + 4 * T) + 40, tail=int(2 * T) + 6, fingerprint=False)
    rtx = bench.add(RemoteTx(pads.rx, edges, scn["meta"], end=t + 2 * T))
    got = []

    class Sink(Agent):
        reads = (dut.source.valid, dut.source.data)

        def step(self, v, tt, w):
            if tt == 0:
                w(dut.source.ready, 1)
            if v[dut.source.valid]:
                got.append((tt, v[dut.source.data]))
    bench.add(Sink())
    bench.run()
    viols = []
    V = mkV(viols)
    g = [d for _, d in got]
    if g != exp:
        V("rx_bytes", "rx", "received %s, well-formed frames sent %s (bit period %.2f, skew %+.1f%%, phase %.3f)"
          % ([hex(x) for x in g], [hex(x) for x in exp], T, 100 * p["skew"], p["phase"]))
    return _result(viols, (edges, g), {"cycles": bench.cycle["sys"], "checks": len(exp) + 1,
                                       "nontrivial": len(exp) >= 2 and (p["skew"] != 0 or rtx.resolved_old > 0),
                                       "faults": {"baud_skew": int(p["skew"] != 0), "phase_offset": 1, "meta_bit": rtx.resolved_old,
                                                  "bad_stop_frames": sum(f["bad_stop"] for f in scn["frames"])},
                                       "probes": {"bytes": len(g)}})


# ------------------------------------------------------------------------------------------------
def run_spi(scn):
    from migen import Record
    from litex.soc.cores.spi.spi_master import SPIMaster
    p = scn["params"]
    dw, div = p["data_width"], p["div"]
    ncs, sel = p.get("ncs", 1), p.get("sel", 1)
    csmask = (1 << ncs) - 1
    pads = Record([("clk", 1), ("cs_n", ncs), ("mosi", 1), ("miso", 1)])
    with_csr = bool(p.get("with_csr"))
    dut = SPIMaster(pads, dw, sys_clk_freq=100e6, spi_clk_freq=100e6 / div, with_csr=with_csr, mode=p["mode"])
    cmds = scn["cmds"]
    end = max(c["at"] for c in cmds) + (dw + 6) * div + 40
    csrw = {}
    if with_csr:
        # software path: every control goes through the core's CSRs (control.start/length fields, mosi, cs.sel/mode fields,
        # loopback, clk_divider) behind a real CSRBank; the bus writes are placed so that `start` becomes visible in the same
        # cycle as in the direct variant
        from migen import Module
        from litex.soc.interconnect import csr_bus
        dut.add_clk_divider()
        top = Module()
        top.submodules.dut = dut
        cbus = csr_bus.Interface(data_width=32, address_width=14)
        top.submodules.bank = bank = csr_bus.CSRBank(dut.get_csrs(), address=0, bus=cbus, ordering="big")
        cadr = {}
        for i_, c_ in enumerate(bank.simple_csrs):
            cadr[c_.name] = i_
        reg = {key: next(k for k in cadr if k.startswith(key)) for key in ("control", "mosi", "cs", "loopback", "clk_divider")}
        csrw[0] = ("clk_divider", div)
        csrw[1] = ("loopback", int(p["loopback"]))
        csrw[2] = ("cs", sel | (p["cs_mode"] << 16))
        for c in cmds:
            csrw[c["at"] - 2] = ("mosi", c["mosi"])
            csrw[c["at"] - 1] = ("control", 1 | (c["length"] << 8))
    else:
        top = dut
    bench = Bench(wrap_top(top), max_cycles=end + 10, tail=2, fingerprint=False)
    rows = []
    state = {"accepted": []}

    class Env(Agent):
        reads = (pads.clk, pads.cs_n, pads.mosi, dut.done, dut.irq, dut.miso)

        def __init__(s_):
            s_.t = 0
            s_.prev_clk = 0
            s_.cur = None       # device shift state: [bits to send MSB first]
            s_.start_at = {c["at"]: c for c in cmds}

        def done(s_):
            return s_.t >= end

        def step(s_, v, t, w):
            s_.t = t
            act = ~v[pads.cs_n] & csmask        # asserted chip-select lines
            # column 1 keeps the single-line meaning "cs_n": 0 when every SELECTED line is asserted; column 6 = lines asserted
            # although they are not selected
            rows.append((v[pads.clk], int((act & sel) != sel), v[pads.mosi], v[dut.done], v[dut.irq], v[dut.miso], act & ~sel))
            if with_csr:
                w(cbus.we, 0)
                if t in csrw:
                    w(cbus.adr, cadr[reg[csrw[t][0]]])
                    w(cbus.dat_w, csrw[t][1])
                    w(cbus.we, 1)
                if t in s_.start_at:
                    s_.start_at[t]["issued"] = t + 1
            else:
                if t == 0:
                    w(dut.clk_divider, div)
                    w(dut.loopback, int(p["loopback"]))
                    w(dut.cs, sel)
                    w(dut.cs_mode, p["cs_mode"])
                w(dut.start, 0)
                if t in s_.start_at:
                    c = s_.start_at[t]
                    w(dut.start, 1)
                    w(dut.length, c["length"])
                    w(dut.mosi, c["mosi"])
                    c["issued"] = t + 1
            # device: present the next MISO bit after each falling edge (and the first one when a transfer begins)
            clk = v[pads.clk]
            if s_.cur is not None:
                if s_.prev_clk == 1 and clk == 0:
                    s_.cur["i"] += 1
                i = s_.cur["i"]
                bits = s_.cur["bits"]
                w(pads.miso, bits[i] if i < len(bits) else 0)
            s_.prev_clk = clk
    env = Env()
    bench.add(env)
    # which commands are accepted is decided by the oracle below (start seen while done=1); the device needs the
    # bit sequence in advance: feed it through a second pass -> run once to learn acceptance, then rerun? Instead the
    # device picks its sequence when it sees `done` fall.
    orig_step = env.step
    busy = [False]

    def step2(v, t, w):
        orig_step(v, t, w)
        # the FSM is IDLE in the row after the irq row; a start visible in an IDLE row is accepted
        if rows[-1][4]:
            busy[0] = False
        c = next((c for c in cmds if c.get("issued") == t + 1), None)
        if c is not None and not busy[0]:
            busy[0] = True
            state["accepted"].append((t + 1, c))
            ln = c["length"]
            env.cur = {"i": 0, "bits": [(c["miso"] >> (ln - 1 - k)) & 1 for k in range(ln)]}
            w(pads.miso, env.cur["bits"][0])
    env.step = step2
    bench.run()
    viols = []
    V = mkV(viols)
    checks = 0
    acc = state["accepted"]
    n = len(rows)
    # every start issued while idle must be accepted
    for c in cmds:
        if "issued" in c and c["issued"] < n and rows[c["issued"]][3] == 1 and not any(a[1] is c for a in acc):
            pass
    # per accepted transfer: window until done rises again
    for idx, (t0, c) in enumerate(acc):
        t1 = next((k for k in range(t0 + 1, n) if rows[k][4] == 1), None)     # irq row = end of the transfer
        checks += 1
        if t1 is None:
            V("not_finished", "done", "transfer started at cycle %d (length %d, divider %d) never completes" % (t0, c["length"], div), t0)
            break
        ln = c["length"]
        rises = [k for k in range(t0, t1 + 1) if k > 0 and rows[k][0] == 1 and rows[k - 1][0] == 0]
        falls = [k for k in range(t0, t1 + 2) if 0 < k < n and rows[k][0] == 0 and rows[k - 1][0] == 1]
        if len(rises) != ln:
            V("clock_pulses", "clk", "transfer at cycle %d: %d clock pulses for length %d" % (t0, len(rises), ln), t0)
            break
        # CS framing (automatic mode): low at every rising edge and one cycle before; high again after the transfer
        if not p["cs_mode"]:
            for k in rises:
                checks += 1
                if rows[k][1] != 0 or rows[k - 1][1] != 0:
                    V("cs_framing", "cs_n", "transfer at cycle %d: cs_n not asserted around the clock edge at cycle %d" % (t0, k), k)
                    break
        # MOSI MSB first, sampled at rising edges, stable from the previous falling edge (or transfer start) to the rising edge
        top = dw - 1 if p["mode"] == "raw" else ln - 1
        for b, k in enumerate(rises):
            bitpos = top - b
            exp = (c["mosi"] >> bitpos) & 1 if bitpos >= 0 else None
            checks += 1
            if exp is not None and rows[k][2] != exp:
                V("mosi_data", "mosi", "transfer at cycle %d: bit %d on MOSI is %d, expected %d (MSB first, %s mode)" % (t0, b, rows[k][2], exp, p["mode"]), k)
                break
            lo_, hi_ = k - div // 2, k + (div - div // 2) - 1      # from the internal falling edge to just before the next one
            if any(rows[j][2] != rows[k][2] for j in range(max(lo_, 0), min(hi_, n - 1) + 1)):
                V("mosi_stability", "mosi", "transfer at cycle %d: MOSI changes inside bit cell [%d,%d] around the rising edge at %d" % (t0, lo_, hi_, k), k)
                break
        if viols:
            break
        # capture
        got = rows[min(t1 + 1, n - 1)][5] & ((1 << ln) - 1)
        if p["loopback"]:
            exp_bits = [(c["mosi"] >> (top - b)) & 1 if top - b >= 0 else 0 for b in range(ln)]
            exp = int("".join(map(str, exp_bits)), 2)
        else:
            exp = c["miso"]
        checks += 1
        if got != exp:
            V("miso_capture", "miso", "transfer at cycle %d (length %d): captured %#x, device sent %#x" % (t0, ln, got, exp), t1)
            break
        if t1 + 1 < n and rows[t1 + 1][4]:
            V("irq_pulse", "irq", "transfer at cycle %d: irq high for more than one cycle" % t0, t1)
            break
        nxt = acc[idx + 1][0] if idx + 1 < len(acc) else None
        if t1 + 1 < n and (nxt is None or nxt > t1 + 1) and rows[t1 + 1][3] != 1:
            V("done_flag", "done", "transfer at cycle %d: done not high in the cycle after the end (cycle %d)" % (t0, t1 + 1), t1)
            break
    # a chip-select line that software did not select is never asserted (automatic and manual mode)
    for k in range(8 if with_csr else 3, n):
        checks += 1
        if rows[k][6]:
            V("cs_unselected", "cs_n", "cycle %d: chip-select line(s) %#x asserted, software selected %#x (cs_mode=%d)" % (k, rows[k][6], sel, p["cs_mode"]), k)
            break
    if p["cs_mode"] and n > 8 and not viols:
        checks += 1
        if any(rows[k][1] for k in range(8 if with_csr else 4, n)):
            V("cs_framing", "cs_n", "manual chip-select mode: a selected line (%#x) is not asserted" % sel)
    # idle between transfers: no clock edges outside accepted windows
    busy = set()
    for (t0, c) in acc:
        t1 = next((k for k in range(t0 + 1, n) if rows[k][4] == 1), n)
        busy.update(range(t0, t1 + 2))
    for k in range(1, n):
        if rows[k][0] == 1 and k not in busy:
            V("clock_while_idle", "clk", "clk high at cycle %d while the core reports done" % k, k)
            break
    if not p["cs_mode"] and n and rows[-1][1] != 1 and not viols:
        V("not_idle", "cs_n", "cs_n still asserted at the end of the run")
    overlap = sum(1 for c in cmds if "issued" in c and not any(a[1] is c for a in acc))
    return _result(viols, [r[:3] for r in rows], {"cycles": n, "checks": checks, "nontrivial": len(acc) >= 2,
                                                   "faults": {"cmd_overlap": overlap, "phase_offset": len(acc)},
                                                   "probes": {"transfers": len(acc), "div_%d" % div: 1}})


# ------------------------------------------------------------------------------------------------
class CsrSoftware:
    """Maps register names of a real CSRBank to bus addresses (big ordering) and queues word accesses."""

    def __init__(self, bank, bus, bw):
        self.bus, self.bw = bus, bw
        self.map = {}
        for a, c in enumerate(bank.simple_csrs):
            self.map.setdefault(c.name.rstrip("0123456789") if c.name[-1].isdigit() else c.name, []).append((a, c))
        self.queue = []

    def write(self, name, value, size):
        words = self.map[name]
        nw = len(words)
        for k, (a, c) in enumerate(words):
            i = nw - 1 - k
            self.queue.append(("w", a, (value >> (i * self.bw)) & ((1 << self.bw) - 1)))

    def drive(self, w):
        b = self.bus
        w(b.we, 0)
        w(b.re, 0)
        if self.queue:
            kind, a, val = self.queue.pop(0)
            w(b.adr, a)
            w(b.dat_w, val)
            w(b.we, 1)
            return True
        return False


def run_timer(scn):
    from migen import Module
    from litex.soc.cores.timer import Timer
    from litex.soc.interconnect import csr_bus
    width = scn["params"]["width"]
    top = Module()
    top.submodules.t = tm = Timer(width)
    bus = csr_bus.Interface(data_width=32, address_width=14)
    top.submodules.bank = bank = csr_bus.CSRBank(tm.get_csrs(), address=0, bus=bus)
    sw = CsrSoftware(bank, bus, 32)
    ops = {o["at"]: o for o in scn["ops"]}
    ncyc = scn["ncyc"]
    rows = []

    class Env(Agent):
        reads = (tm._en.storage, tm._load.storage, tm._reload.storage, tm._update_value.re, tm._value.status, tm.ev.zero.trigger,
                 tm.ev.zero.pending, tm.ev.zero.clear)

        def __init__(s_):
            s_.t = 0

        def done(s_):
            return s_.t >= ncyc

        def step(s_, v, t, w):
            s_.t = t
            rows.append(tuple(v[x] for x in Env.reads))
            o = ops.get(t)
            if o:
                k = o["kind"]
                if k == "oneshot":
                    sw.write("en", 0, 1); sw.write("load", o["n"], width); sw.write("reload", 0, width); sw.write("en", 1, 1)
                elif k == "periodic":
                    sw.write("en", 0, 1); sw.write("load", 0, width); sw.write("reload", o["n"], width); sw.write("en", 1, 1)
                elif k == "stop":
                    sw.write("en", 0, 1)
                elif k == "latch":
                    sw.write("update_value", 1, 1)
                elif k == "clear":
                    sw.write("ev_pending", 1, 1)
                elif k == "reload_change":
                    sw.write("reload", o["n"], width)
            sw.drive(w)
    bench = Bench(wrap_top(top), max_cycles=ncyc + 8, tail=2, fingerprint=False)
    bench.add(Env())
    bench.run()
    viols = []
    V = mkV(viols)
    # cycle-exact model on the observed register values
    value = 0
    latched = 0
    checks = 0
    events = 0
    first_clear = next((k for k, r in enumerate(rows) if r[7]), None)
    P, TD = 0, 0
    for k, (en, load, reload_, upd, vstat, trig, pend, clr) in enumerate(rows):
        checks += 2
        if trig != int(value == 0):
            V("timer_value", "zero.trigger", "cycle %d: zero trigger=%d but the model count is %d (en=%d load=%d reload=%d)" % (k, trig, value, en, load, reload_), k)
            break
        if vstat != latched:
            V("timer_latch", "value", "cycle %d: latched value %d expected %d" % (k, vstat, latched), k)
            break
        if first_clear is not None and k > first_clear + 1 and pend != P:
            V("timer_event", "zero.pending", "cycle %d: pending=%d expected %d (count %d)" % (k, pend, P, value), k)
            break
        # next state
        ev_ = trig and not TD
        if first_clear is not None and k >= first_clear:
            if ev_:
                P = 1
                events += 1
            elif clr:
                P = 0
        TD = trig
        if upd:
            latched = value
        if en:
            value = reload_ if value == 0 else value - 1
        else:
            value = load
        value &= (1 << width) - 1
    return _result(viols, rows, {"cycles": len(rows), "checks": checks, "nontrivial": events >= 1 and len(scn["ops"]) >= 3,
                                 "faults": {"cmd_overlap": 0}, "probes": {"events": events}})


def run_watchdog(scn):
    from migen import Module, Signal
    from litex.soc.cores.watchdog import Watchdog
    from litex.soc.interconnect import csr_bus
    width = scn["params"]["width"]
    top = Module()
    halted = Signal()
    crg_rst = Signal()
    top.submodules.w = wd = Watchdog(width, crg_rst=crg_rst, reset_delay=3, halted=halted)
    bus = csr_bus.Interface(data_width=32, address_width=14)
    top.submodules.bank = bank = csr_bus.CSRBank(wd.get_csrs(), address=0, bus=bus)
    sw = CsrSoftware(bank, bus, 32)
    ops = {o["at"]: o for o in scn["ops"]}
    ncyc = scn["ncyc"]
    rows = []
    ctrl = {"enable": 0, "reset": 0, "pause": 0}

    class Env(Agent):
        reads = (wd.enable, wd.feed, wd._cycles.storage, wd._remaining.status, wd.execute, halted, crg_rst, wd.reset_mode)

        def __init__(s_):
            s_.t = 0

        def done(s_):
            return s_.t >= ncyc

        def step(s_, v, t, w):
            s_.t = t
            rows.append(tuple(v[x] for x in Env.reads))
            o = ops.get(t)
            if o:
                k = o["kind"]
                word = lambda feed=0: feed | (ctrl["enable"] << 8) | (ctrl["reset"] << 16) | (ctrl["pause"] << 24)  # noqa
                if k == "cycles":
                    sw.write("cycles", o["n"], width)
                elif k == "enable":
                    ctrl["enable"] = 1
                    ctrl["reset"] = o["n"] & 1
                    sw.write("control", word(), 32)
                elif k == "disable":
                    ctrl["enable"] = 0
                    sw.write("control", word(), 32)
                elif k == "feed":
                    sw.write("control", word(1), 32)
                elif k == "halt":
                    w(halted, 1)
                elif k == "unhalt":
                    w(halted, 0)
                elif k in ("pause_on", "pause_off"):
                    ctrl["pause"] = int(k == "pause_on")
                    sw.write("control", word(), 32)
            sw.drive(w)
    bench = Bench(wrap_top(top), max_cycles=ncyc + 8, tail=2, fingerprint=False)
    bench.add(Env())
    bench.run()
    viols = []
    V = mkV(viols)
    remaining, execute = 0, 0
    checks = 0
    fired = 0
    rst_run = 0
    for k, (en, feed, cycles, rem, exe, hal, crst, rmode) in enumerate(rows):
        checks += 3
        if rem != remaining:
            V("watchdog_count", "remaining", "cycle %d: remaining=%d expected %d (enable=%d feed=%d cycles=%d)" % (k, rem, remaining, en, feed, cycles), k)
            break
        if exe != execute:
            V("watchdog_execute", "execute", "cycle %d: execute=%d expected %d (remaining=%d)" % (k, exe, execute, remaining), k)
            break
        exp_rst = int(rst_run >= 3)
        if crst != exp_rst:
            V("watchdog_reset", "crg_rst", "cycle %d: crg_rst=%d expected %d (reset condition held for %d cycles, delay 3)" % (k, crst, exp_rst, rst_run), k)
            break
        rst_run = rst_run + 1 if (en and exe and rmode) else 0
        if feed:
            remaining = cycles
        elif en:
            execute = int(remaining == 0)
            if remaining != 0:
                remaining -= 1
        fired += exe
    return _result(viols, rows, {"cycles": len(rows), "checks": checks, "nontrivial": fired > 0 and len(scn["ops"]) >= 3,
                                 "faults": {"halt_pause": sum(1 for o in scn["ops"] if o["kind"] == "halt")}, "probes": {"execute_cycles": fired}})


def run_timeline(scn):
    from migen import Module, Signal
    from litex.gen.genlib.misc import timeline
    times = scn["params"]["times"]
    pat = scn["trigger_pattern"]
    m = Module()
    trig = Signal()
    outs = [Signal(name="o%d" % i) for i in range(len(times))]
    m.sync += timeline(trig, [(t_, [o.eq(~o)]) for t_, o in zip(times, outs)])
    rows = []

    class Env(Agent):
        reads = tuple([trig] + outs)

        def __init__(s_):
            s_.t = 0

        def done(s_):
            return s_.t >= len(pat) + max(times) + 4

        def step(s_, v, t, w):
            s_.t = t
            rows.append(tuple(v[x] for x in Env.reads))
            nxt = int(pat[t] == "1") if t < len(pat) else 0
            if nxt != v[trig]:
                w(trig, nxt)
    bench = Bench(wrap_top(m), max_cycles=len(pat) + max(times) + 10, tail=2, fingerprint=False)
    bench.add(Env())
    bench.run()
    viols = []
    V = mkV(viols)
    # reference: a sequence starts on a trigger while idle; event at time e toggles its output one cycle later; the sequencer
    # is idle again (accepts a trigger) last+1 cycles after the start
    last = max(times)
    cnt = 0
    exp = [0] * len(times)
    starts = 0
    checks = 0
    for k, row in enumerate(rows):
        tg = row[0]
        checks += 1
        if list(row[1:]) != exp:
            V("timeline_events", "outputs", "cycle %d: outputs %s expected %s (event times %s, sequence position %d)" % (k, list(row[1:]), exp, times, cnt), k)
            break
        for i, e in enumerate(times):
            if (e == 0 and tg and cnt == 0) or (e != 0 and cnt == e):
                exp[i] ^= 1
        if cnt != 0:
            cnt = 0 if cnt == last else cnt + 1
        elif tg:
            cnt = 1 if last >= 1 else 0
            starts += 1
    return _result(viols, rows, {"cycles": len(rows), "checks": checks, "nontrivial": starts >= 2,
                                 "faults": {"cmd_overlap": sum(1 for r in rows if r[0]) - starts}, "probes": {"sequences": starts}})


def run_pwm(scn):
    from migen import Signal
    from litex.soc.cores.pwm import PWM
    pin = Signal()
    dut = PWM(pin, with_csr=False)
    chg = {c["at"]: c for c in scn["changes"]}
    ncyc = scn["ncyc"]
    rows = []

    class Env(Agent):
        reads = (pin, dut.enable, dut.width, dut.period)

        def __init__(s_):
            s_.t = 0

        def done(s_):
            return s_.t >= ncyc

        def step(s_, v, t, w):
            s_.t = t
            rows.append(tuple(v[x] for x in Env.reads))
            c = chg.get(t)
            if c:
                w(dut.enable, c["enable"])
                w(dut.width, c["width"])
                w(dut.period, c["period"])
    bench = Bench(wrap_top(dut), max_cycles=ncyc + 4, tail=2, fingerprint=False)
    bench.add(Env())
    bench.run()
    viols = []
    V = mkV(viols)
    # duty check over whole periods in steady windows: in every window of `period` cycles with constant settings and the
    # counter running, the pin is high for min(width, period) cycles
    checks = 0
    k = 0
    n = len(rows)
    good = 0
    while k < n:
        pin_, en, wdt, per = rows[k]
        j = k
        while j < n and rows[j][1:] == (en, wdt, per):
            j += 1
        seg = rows[k:j]
        if en and per > 0 and len(seg) >= 4 * per + 4:
            body = [r[0] for r in seg[2 * per + 2:]]
            whole = (len(body) // per) * per
            highs = sum(body[:whole])
            exp = min(wdt, per) * (whole // per)
            checks += 1
            good += 1
            if highs != exp:
                V("pwm_duty", "pwm", "enable=1 width=%d period=%d: %d high cycles in %d cycles, expected %d" % (wdt, per, highs, whole, exp), k)
                break
        elif not en and len(seg) > 3:
            checks += 1
            if any(r[0] for r in seg[2:]):
                V("pwm_disabled", "pwm", "pin high while disabled (cycle %d..)" % k, k)
                break
        k = j
    return _result(viols, [r[0] for r in rows], {"cycles": n, "checks": max(checks, 1), "nontrivial": good >= 2, "faults": {}, "probes": {}})


def known_match(scn, v):
    if scn.get("family") == "spi" and v["cls"] in ("clock_pulses", "miso_capture", "mosi_data", "not_finished"):
        cmds = scn.get("cmds", [])
        div = scn["params"]["div"]
        for a, b in zip(cmds, cmds[1:]):
            if b["at"] - a["at"] < (a["length"] + 4) * div + 2 and b["length"] != a["length"]:
                return "C19-F1"
    return None
