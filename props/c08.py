"""C08 - AXI-Lite interconnect keeps grants and routes until every response has returned.

DUTs: AXILiteArbiter, AXILiteDecoder, AXILiteInterconnectShared, AXILiteCrossbar,
AXILiteInterconnectPointToPoint (timeout None), 1-3 masters x 1-3 slaves; family 'axi' (props/c08_axi.py): the AXI4
versions of the same structure with multi-beat bursts. Masters with five independent
channel drivers, slaves with independent acceptors; every handshake is logged with its cycle; the
(combinational) interconnect must show each master-side handshake as exactly one slave-side handshake in
the same cycle at the slave the address decodes to, and responses must return to the issuing master in
issue order."""
from dsim import prng
from dsim.kernel import Bench, wrap_top
from dsim.axil_agents import AXILMaster, AXILSlave

PROPERTY = "C08"
LEVEL = "exploration"
RULE = ("one run = one real AXI-Lite interconnect (shared/crossbar/p2p/arbiter/decoder, 1-3 masters x 1-3 slaves, seeded "
        "windows) with per-master literal operation lists (reads and writes concurrently, AW/W gaps, up to 4 outstanding per "
        "direction, literal bready/rready patterns) and per-slave literal awready/wready/arready patterns, latencies and "
        "queue depths. Non-trivial = some channel was back-pressured, at least two requests were outstanding at once "
        "somewhere or two masters competed, and >= 10 transactions completed; distinct = distinct event-log digest. Family axi: the "
        "same for AXIArbiter/AXIDecoder/AXIInterconnectShared/AXICrossbar/AXIInterconnectPointToPoint with INCR/FIXED/WRAP bursts of 1-8 "
        "beats, 2-bit IDs, per-master address slots; oracle = program-order memory semantics per master, beat count / last / id / resp "
        "of every response, every address handshake seen once at the decoded slave in the same cycle with unchanged attributes, "
        "read lock released by the last beat only")
ASSUMPTIONS = [
    "agents obey AXI4-Lite: valid/payload held until ready, valid never waits for ready of its own channel, W beats in AW order, "
    "in-order responses per slave, masters never make AW/W/AR wait for B/R",
    "known-finding regions are not generated (replayed canonically instead): C08-F1 a master with requests outstanding to two "
    "different slaves in one direction; C08-F2 W presented before its AW has been accepted behind a decoder with > 1 slave",
    "outstanding depth <= 4 per direction (the lock counters hold 255)",
]
COMPONENTS = {"real": ["litex.soc.interconnect.axi.axi_lite.AXILiteArbiter/AXILiteDecoder/AXILiteInterconnectShared/"
                       "AXILiteCrossbar/AXILiteInterconnectPointToPoint/_AXILiteRequestCounter",
                       "litex.soc.interconnect.axi.axi_full.AXIArbiter/AXIDecoder/AXIInterconnectShared/AXICrossbar/"
                       "AXIInterconnectPointToPoint/_AXIRequestCounter (family axi)",
                       "litex.soc.integration.soc.SoCRegion.decoder", "litex.gen.sim.core.Simulator"],
              "stub": ["AXI-Lite master/slave agents", "AXI4 burst master / memory slave agents", "clock source"]}
CHUNK = 2
KINDS = ["shared", "crossbar", "shared", "crossbar", "p2p", "arbiter", "decoder"]


SEEDED_SCALE = {"quick": 6, "thorough": 10}      # multiplies the run counts of the sampled families in plan()

def plan(tier):
    return [("axil", 120 if tier == "quick" else 6000), ("axi", 60 if tier == "quick" else 3000)]


def stamp(si, addr):
    return ((si + 1) << 28) | ((addr * 40503) & 0x0fffffff)


def generate(family, rng, tier, pipelined=False, w_first=False):
    if family == "axi":
        from props import c08_axi
        return c08_axi.generate(rng, tier)
    kind = rng.choice(KINDS)
    big = rng.random() < 0.25
    nm = 1 if kind in ("p2p", "decoder") else rng.choice([1, 2, 2, 3] if big else [1, 2, 2])
    ns = 1 if kind in ("p2p", "arbiter") else rng.choice([1, 2, 2, 3] if big else [1, 2, 2])
    if kind in ("shared", "decoder") and rng.random() < 0.1:
        ns = rng.choice([4, 5, 7])          # (the decoder's reductions over the slaves see more than three operands now and then)
    wins, used = [], set()
    for i in range(ns):
        while True:
            slot = rng.randrange(16)
            if slot not in used:
                used.add(slot)
                wins.append([slot << 12, rng.choice([8, 10, 12])])    # byte origin, log2 size (bytes)
                break
    if kind in ("p2p", "arbiter"):
        wins = [[0, 32]]
    # masters of different address widths on one interconnect (a narrow debug bridge next to a 32-bit CPU): the last master is always
    # 32 bits wide, earlier ones may be narrower; some windows then lie above the range of the narrow masters, which only address
    # the windows they can reach
    maw = [32] * nm
    if kind in ("shared", "crossbar") and nm >= 2 and rng.random() < 0.3:
        for m in range(nm - 1):
            maw[m] = rng.choice([16, 20, 32])
        for i in range(1, ns):
            if rng.random() < 0.6:
                wins[i][0] |= rng.choice([1 << 16, 1 << 20, 1 << 30])
    ops, max_out, bre, rre = [], [], [], []
    horizon = 300
    for m in range(nm):
        n = rng.randint(6, 20)
        lst = []
        reach = [w_ for w_ in wins if w_[1] >= 32 or w_[0] + (1 << w_[1]) <= (1 << maw[m])]
        for j in range(n):
            o, k = rng.choice(reach)
            off = (rng.randrange(8) << 2) | (m << 6)
            addr = o + off if k < 32 else (rng.randrange(4) << 12) + off
            if rng.random() < 0.5:
                lst.append({"kind": "w", "addr": addr, "data": ((m + 1) << 28) | (j << 16) | rng.getrandbits(16),
                            "strb": rng.choice([15, 15, 3, 12, 5]), "aw_gap": rng.choice([0, 0, 1, 3, 8]),
                            "w_gap": rng.choice([0, 0, 1, 3, 8])})
            else:
                lst.append({"kind": "r", "addr": addr, "ar_gap": rng.choice([0, 0, 1, 3, 8])})
        ops.append(lst)
        max_out.append(rng.choice([1, 2, 4]))
        bre.append(prng.pattern(rng, horizon, rng.choice([1.0, 0.7, 0.3])))
        rre.append(prng.pattern(rng, horizon, rng.choice([1.0, 0.7, 0.3])))
    slaves = []
    for s in range(ns):
        slaves.append({"aw": prng.pattern(rng, horizon, rng.choice([1.0, 0.7, 0.3])),
                       "w": prng.pattern(rng, horizon, rng.choice([1.0, 0.7, 0.3])),
                       "ar": prng.pattern(rng, horizon, rng.choice([1.0, 0.7, 0.3])),
                       "lat": [rng.choice([0, 1, 2, 5, 8]) for _ in range(8)], "depth": rng.choice([1, 2, 4])})
    scn = {"family": "axil", "params": {"kind": kind, "nm": nm, "ns": ns, "wins": wins, "pipelined": pipelined, "w_first": w_first, "maw": maw},
           "ops": ops, "max_out": max_out, "bready": bre, "rready": rre, "slaves": slaves,
           "garbage": [rng.getrandbits(32) for _ in range(11)] if rng.random() < 0.5 else None}
    if rng.random() < 0.15 and ns >= 1:
        # independence probe: one slave refuses W for a long time; reads must still complete
        scn["slaves"][0]["w"] = "0" * 200
        scn["params"]["w_blocked_until"] = 200
    return scn


def decode(wins, addr):
    for i, (o, k) in enumerate(wins):
        if k >= 32 or (addr >> k) == (o >> k):
            return i
    return None


def build(p):
    from migen import Module
    from litex.soc.interconnect.axi import axi_lite
    from litex.soc.integration.soc import SoCRegion
    nm, ns = p["nm"], p["ns"]
    masters = [axi_lite.AXILiteInterface(data_width=32, address_width=(p.get("maw") or [32] * nm)[i]) for i in range(nm)]
    slaves = [axi_lite.AXILiteInterface(data_width=32, address_width=32) for _ in range(ns)]

    class FakeBus:
        data_width, address_width = 32, 32
    preds = []
    for (o, k) in p["wins"]:
        if k >= 32:
            preds.append(lambda a: 1)
        else:
            preds.append(SoCRegion(origin=o, size=1 << k).decoder(FakeBus))
    m = Module()
    kind = p["kind"]
    if kind == "p2p":
        m.submodules.ic = axi_lite.AXILiteInterconnectPointToPoint(masters[0], slaves[0])
    elif kind == "arbiter":
        m.submodules.ic = axi_lite.AXILiteArbiter(masters, slaves[0])
    elif kind == "decoder":
        m.submodules.ic = axi_lite.AXILiteDecoder(masters[0], list(zip(preds, slaves)))
    elif kind == "shared":
        m.submodules.ic = axi_lite.AXILiteInterconnectShared(masters, list(zip(preds, slaves)), timeout_cycles=None)
    else:
        m.submodules.ic = axi_lite.AXILiteCrossbar(masters, list(zip(preds, slaves)), timeout_cycles=None)
    return m, masters, slaves


def run(scn):
    if scn.get("family") == "axi":
        from props import c08_axi
        return c08_axi.run(scn)
    p = scn["params"]
    nm, ns, wins, kind = p["nm"], p["ns"], p["wins"], p["kind"]
    top, masters, slaves = build(p)
    nops = sum(len(o) for o in scn["ops"])
    bench = Bench(wrap_top(top), max_cycles=400 + nops * 40, tail=8, fingerprint=False)
    dec = (lambda a: decode(wins, a))
    mag, sag = [], []
    for i, mb in enumerate(masters):
        mag.append(bench.add(AXILMaster(mb, scn["ops"][i], name="m%d" % i, max_out=scn["max_out"][i],
                                        w_lead=(2 if p.get("w_first") else 0), bready=scn["bready"][i], rready=scn["rready"][i],
                                        idle_garbage=scn.get("garbage"), single_target=None if p.get("pipelined") else dec)))
    for i, sb in enumerate(slaves):
        sc = scn["slaves"][i]
        sag.append(bench.add(AXILSlave(sb, name="s%d" % i, awready=sc["aw"], wready=sc["w"], arready=sc["ar"], lat=sc["lat"],
                                       depth=sc["depth"], read_data=(lambda a, i=i: stamp(i, a)), idle_garbage=scn.get("garbage"))))
    bench.run()
    viols = []

    def V(cls, obs, msg, cycle=None):
        if len(viols) < 6:
            viols.append({"prop": "C08", "cls": cls, "observable": obs, "msg": msg, "cycle": cycle})
    checks = 0
    # ---- request routing: per cycle, master-side handshakes == slave-side handshakes at the decoded slave
    for ch, key_m, key_s in (("aw", lambda m_, i: m_.writes[i]["addr"], lambda e: e[1]),
                             ("w", lambda m_, i: (m_.writes[i]["data"], m_.writes[i].get("strb", 15)), lambda e: (e[1], e[2])),
                             ("ar", lambda m_, i: m_.reads_[i]["addr"], lambda e: e[1])):
        by_cycle = {}
        for mi, ma in enumerate(mag):
            for (t, i) in ma.log[ch]:
                tgt = dec(ma.writes[i]["addr"]) if ch in ("aw", "w") else dec(ma.reads_[i]["addr"])
                by_cycle.setdefault(t, {"m": [], "s": []})["m"].append((tgt, key_m(ma, i), mi))
        for si, sa in enumerate(sag):
            for e in sa.log[ch]:
                by_cycle.setdefault(e[0], {"m": [], "s": []})["s"].append((si, key_s(e)))
        for t in sorted(by_cycle):
            mm = sorted((x[0], x[1]) for x in by_cycle[t]["m"])
            ss = sorted(by_cycle[t]["s"])
            checks += 1
            if mm != ss:
                lost = [x for x in mm if x not in ss]
                extra = [x for x in ss if x not in mm]
                if lost and extra:
                    V("misrouted", ch, "cycle %d: %s handshake of master(s) %s (decoded slave, payload)=%s appears at %s"
                      % (t, ch.upper(), [x[2] for x in by_cycle[t]["m"]], lost[:2], extra[:2]), t)
                elif lost:
                    V("request_lost", ch, "cycle %d: master-side %s handshake %s has no slave-side handshake" % (t, ch.upper(), lost[:2]), t)
                else:
                    V("request_invented", ch, "cycle %d: slave-side %s handshake %s without a master-side handshake" % (t, ch.upper(), extra[:2]), t)
                break
    # ---- responses: each slave B/R handshake reaches exactly the master owning the oldest outstanding request there
    for si, sa in enumerate(sag):
        # owner of each write at this slave, in pairing order: tag in data[31:28]
        wr_owner = [(d >> 28) - 1 for (_, a, d, s) in sa.log["writes"]]
        rd_owner = [((a >> 6) & 3) for (_, a) in sa.log["ar"]]
        for ch, owners in (("b", wr_owner), ("r", rd_owner)):
            for k, e in enumerate(sa.log[ch]):
                t = e[0]
                checks += 1
                own = owners[k] if k < len(owners) else None
                got = [mi for mi, ma in enumerate(mag) if any(x[0] == t for x in ma.log[ch])]
                if kind in ("crossbar",) or True:
                    # several slaves may respond in the same cycle to different masters: require the owner among them
                    if own not in got:
                        V("response_misdelivered", ch, "cycle %d: slave %d %s response belongs to master %s, received by %s"
                          % (t, si, ch.upper(), own, got), t)
                        break
    for mi, ma in enumerate(mag):
        # every master response handshake coincides with a slave response handshake
        for ch in ("b", "r"):
            for e in ma.log[ch]:
                checks += 1
                if not any(any(x[0] == e[0] for x in sa.log[ch]) for sa in sag):
                    V("response_invented", "m%d.%s" % (mi, ch), "cycle %d: master receives %s but no slave handed one over" % (e[0], ch.upper()), e[0])
                    break
        # R data in issue order
        exp = [stamp(dec(o["addr"]), o["addr"]) for o in ma.reads_ if dec(o["addr"]) is not None]
        got = [d for (_, d, r_) in ma.log["r"]]
        checks += len(got)
        if got != exp[:len(got)]:
            k = next(i for i in range(len(got)) if got[i] != exp[i])
            V("read_order_or_data", "m%d.r" % mi, "read #%d (addr %#x) returned %#x, expected %#x (slave stamp)"
              % (k, ma.reads_[k]["addr"], got[k], exp[k]))
        if not ma.done():
            V("not_served", "m%d" % mi, "%d/%d writes and %d/%d reads completed after %d cycles"
              % (ma.b_n, len(ma.writes), ma.r_n, len(ma.reads_), bench.cycle["sys"]))
    # ---- lock: while a master has a request outstanding at a slave (shared: anywhere) no other master's request is accepted there
    for direction, req_ch, resp_ch in (("write", "aw", "b"), ("read", "ar", "r")):
        groups = [list(range(ns))] if kind in ("shared", "arbiter") else [[s] for s in range(ns)]
        for grp in groups:
            evs = []
            for si in grp:
                sa = sag[si]
                owners = [(d >> 28) - 1 for (_, a, d, s) in sa.log["writes"]] if direction == "write" else [((a >> 6) & 3) for (_, a) in sa.log["ar"]]
                if direction == "write":
                    for k, (t, a) in enumerate(sa.log["aw"]):
                        # AW k pairs with W k (in order) -> owner k
                        evs.append((t, 0, owners[k] if k < len(owners) else None))
                else:
                    for k, (t, a) in enumerate(sa.log["ar"]):
                        evs.append((t, 0, owners[k]))
                for k, e in enumerate(sa.log[resp_ch]):
                    evs.append((e[0], 1, None))
            evs.sort(key=lambda x: (x[0], -x[1]))   # a response in the same cycle frees the lock first
            out, owner = 0, None
            for t, is_resp, own in evs:
                checks += 1
                if is_resp:
                    out -= 1
                    if out <= 0:
                        out, owner = 0, None
                else:
                    if out > 0 and own is not None and owner is not None and own != owner:
                        V("grant_changed_while_outstanding", direction, "cycle %d: request of master %s accepted while master %s still has "
                          "%d response(s) outstanding" % (t, own, owner, out), t)
                        break
                    out += 1
                    owner = own if own is not None else owner
    # ---- independence: reads complete while a write channel is blocked
    wb = p.get("w_blocked_until")
    if wb:
        for mi, ma in enumerate(mag):
            for k, (t_ar, i) in enumerate(ma.log["ar"]):
                checks += 1
                if t_ar < wb - 100 and (k >= len(ma.log["r"]) or ma.log["r"][k][0] >= wb):
                    V("read_blocked_by_write", "m%d" % mi, "read accepted at cycle %d not answered before cycle %d while slave 0 refused W" % (t_ar, wb))
                    break
    ntr = sum(len(ma.log["b"]) + len(ma.log["r"]) for ma in mag)
    stalls = sum(sum(ma.stall.values()) for ma in mag)
    maxout = max([0] + [ma.max_out for ma in mag])
    stats = {"cycles": bench.cycle["sys"], "checks": checks,
             "nontrivial": bool(stalls and (maxout > 1 or nm > 1) and ntr >= 10),
             "faults": {"stall_cycles": stalls, "lat_slave": sum(len(sa.log["b"]) + len(sa.log["r"]) for sa in sag)},
             "probes": {"transactions": ntr, "kind_" + kind: 1, "size_%dx%d" % (nm, ns): 1, "mixed_master_address_widths": int(len(set(p.get("maw") or [32])) > 1),
                        "w_blocked_probe": int(bool(wb))}}
    return {"violations": viols, "digest": bench.digest(), "stats": stats}


def known_match(scn, v):
    p = scn.get("params", {})
    if p.get("pipelined") and v["cls"] in ("misrouted", "request_lost", "response_misdelivered", "read_order_or_data", "not_served"):
        return "C08-F1"
    if p.get("w_first") and v["cls"] in ("misrouted", "request_lost", "not_served", "response_misdelivered"):
        return "C08-F2"
    return None
