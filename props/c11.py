"""C11 - A silent or absent slave cannot hang the bus.

Fault-centric. DUTs: wishbone.Timeout / InterconnectShared(timeout_cycles=t), AXILiteTimeout /
AXILiteInterconnectShared(timeout_cycles=t), AXITimeout (single-beat), WaitTimer. Faults: a slave goes
silent at a swept cycle (and may come back), unmapped addresses, answers arriving in the expiry cycle
+-1. Oracle: forced terminations (error value, not earlier than t, within a bound), undisturbed
answers, one error pulse per timeout, recovery of every master."""
from dsim import prng
from dsim.kernel import Bench, wrap_top, Agent
from dsim.wb_agents import WBMaster, WBSlave, PortRecorder
from dsim.axil_agents import AXILMaster, AXILSlave

PROPERTY = "C11"
LEVEL = "fault_enumeration"
RULE = ("families wb/axil/axi: seeded interconnect (Timeout alone or shared interconnect 1-2 masters x 1-2 slaves, timeout t in "
        "1..16), literal master histories incl. unmapped addresses, one slave going silent at a literal cycle (optionally "
        "coming back), slave latencies around t (late_resp). Family soc: the same histories through the interconnect that "
        "litex.soc.integration.soc builds - SoCBusHandler(timeout=t).finalize() with a SoCController, or a whole SoCMini(bus_timeout=t) - "
        "where additionally every cycle of the error indication must be counted by the controller's bus_errors register. Families wb_sweep/axil_sweep enumerate the silence instant over "
        "EVERY cycle of a fixed short scenario for several t (crash-point enumeration). waittimer: enumerated wait patterns. "
        "Non-trivial = at least one forced (timeout) termination AND at least one ordinary answer in the same run; distinct = "
        "distinct event-log digest")
ASSUMPTIONS = [
    "Wishbone slaves are legal: ack/err only while cyc & stb (agent answers pass a combinational cyc&stb gate)",
    "a forced termination is recognised by the absence of a slave-side completion in that cycle; in the exact expiry cycle "
    "either the real answer or the error value is accepted",
    "bound on the wait: (k+1)*(t+4)+4 cycles, k = terminations of other masters meanwhile; lower bound t cycles",
    "AXI(-Lite): masters keep bready/rready high; a slave dies only with nothing accepted-but-unanswered (that case never "
    "times out: listed known finding C11-F2); crossbars ignore timeout_cycles (listed known finding C11-F1); a SoCBusHandler with one "
    "master and one slave at origin 0 is a point-to-point link without timeout (listed known finding C11-F4)",
]
COMPONENTS = {"real": ["litex.soc.interconnect.wishbone.Timeout/InterconnectShared/Crossbar",
                       "litex.soc.interconnect.axi.axi_lite.AXILiteTimeout/AXILiteInterconnectShared/AXILiteCrossbar",
                       "litex.soc.interconnect.axi.axi_full.AXITimeout/AXIInterconnectShared/AXICrossbar (single-beat transfers)",
                       "litex.soc.integration.soc.SoCBusHandler.do_finalize / SoCController / SoC.finalize (family soc: SoCMini with CPUNone)",
                       "litex.gen.genlib.misc.WaitTimer", "litex.gen.sim.core.Simulator"],
              "stub": ["bus master/slave agents with silence fault", "combinational cyc&stb ack gate (harness FHDL)", "clock source"]}
CHUNK = 4
SWEEP_T = [1, 2, 5, 8]
SWEEP_LEN = 48


SEEDED_SCALE = {"quick": 4, "thorough": 10}      # multiplies the run counts of the sampled families in plan()
ENUMERATED = ('wb_sweep', 'axil_sweep', 'waittimer')       # families whose size is the size of an enumeration

def plan(tier):
    if tier == "quick":
        return [("wb", 150), ("axil", 100), ("axi", 100), ("soc", 60), ("wb_sweep", len(SWEEP_T) * SWEEP_LEN), ("axil_sweep", 2 * SWEEP_LEN), ("waittimer", 16)]
    return [("wb", 8000), ("axil", 5000), ("axi", 5000), ("soc", 3000), ("wb_sweep", len(SWEEP_T) * SWEEP_LEN * 4), ("axil_sweep", len(SWEEP_T) * SWEEP_LEN * 4),
            ("waittimer", 64)]


WB_WINS = [[0x000, 4], [0x100, 4]]        # word origin, log2 words
AX_WINS = [[0x0000, 8], [0x1000, 8]]      # byte origin, log2 bytes


def gen_wb(rng, t=None, silent=None, kind=None, nm=None, ns=None, fixed=False):
    t = t or rng.choice([1, 2, 3, 5, 8, 16])
    kind = kind or rng.choice(["shared", "shared", "timeout_only"])
    nm = nm or (1 if kind == "timeout_only" else rng.choice([1, 2]))
    ns = ns or (1 if kind == "timeout_only" else rng.choice([1, 2]))
    ops = []
    for m in range(nm):
        lst = []
        for j in range(rng.randint(6, 14) if not fixed else 8):
            r = rng.random()
            if kind != "timeout_only" and r < 0.2:
                adr = 0x800 + rng.randrange(4)           # unmapped
            else:
                o, k = WB_WINS[rng.randrange(ns)]
                adr = o + rng.randrange(4)
            we = int(rng.random() < 0.4)
            gap = rng.choice([0, 1, 2, 4])
            lst.append({"we": we, "adr": adr, "dat": ((m + 1) << 28) | rng.getrandbits(20), "sel": 15, "gap": gap,
                        "keep_cyc": int(gap > 0 and rng.random() < 0.3)})
        ops.append(lst)
    lat = []
    for s in range(ns):
        lat.append([rng.choice([1, 1, min(2, t), max(1, t - 1), t, t]) for _ in range(8)])   # <= t: in time or in the very expiry cycle
    scn = {"family": "wb", "params": {"kind": kind, "nm": nm, "ns": ns, "t": t, "register": rng.random() < 0.5},
           "ops": ops, "lat": lat, "faults": []}
    if silent is None and rng.random() < 0.7:
        silent = [rng.randrange(ns), rng.randint(0, 60), rng.choice([None, None, 30])]
    if silent:
        scn["faults"].append({"kind": "silent_slave", "slave": silent[0], "at": silent[1],
                              "back_after": silent[2]})
    return scn


def gen_axil(rng, t=None, silent=None, kind=None, nm=None, ns=None):
    t = t or rng.choice([1, 2, 3, 5, 8, 16])
    kind = kind or rng.choice(["shared", "shared", "timeout_only"])
    nm = nm or (1 if kind == "timeout_only" else rng.choice([1, 2]))
    ns = ns or (1 if kind == "timeout_only" else rng.choice([1, 2]))
    ops = []
    for m in range(nm):
        lst = []
        for j in range(rng.randint(5, 12)):
            if kind != "timeout_only" and rng.random() < 0.2:
                addr = 0x8000 + (rng.randrange(4) << 2) + (m << 6)
            else:
                o, k = AX_WINS[rng.randrange(ns)]
                addr = o + (rng.randrange(4) << 2) + (m << 6)
            if rng.random() < 0.5:
                lst.append({"kind": "w", "addr": addr, "data": ((m + 1) << 28) | (j << 16) | rng.getrandbits(16), "strb": 15,
                            "aw_gap": rng.choice([0, 1, 3]), "w_gap": rng.choice([0, 1, 3])})
            else:
                lst.append({"kind": "r", "addr": addr, "ar_gap": rng.choice([0, 1, 3])})
        ops.append(lst)
    slaves = [{"lat": [rng.choice([0, 1, 2, t, t + 3]) for _ in range(8)], "depth": rng.choice([1, 2]),
               "aw": prng.pattern(rng, 80, rng.choice([1.0, 0.7])), "w": prng.pattern(rng, 80, rng.choice([1.0, 0.7])),
               "ar": prng.pattern(rng, 80, rng.choice([1.0, 0.7]))} for _ in range(ns)]
    scn = {"family": "axil", "params": {"kind": kind, "nm": nm, "ns": ns, "t": t}, "ops": ops, "slaves": slaves, "faults": []}
    if silent is None and rng.random() < 0.7:
        silent = [rng.randrange(ns), rng.randint(0, 60)]
    if silent:
        scn["faults"].append({"kind": "silent_slave", "slave": silent[0], "at": silent[1]})
    # ready patterns must not stall a request longer than t on their own (that would be a legitimate timeout):
    # keep back-pressure only for t >= 8
    if t < 8:
        for s in slaves:
            s["aw"] = s["w"] = s["ar"] = ""
    else:
        import re
        for s in slaves:
            for ch in ("aw", "w", "ar"):
                s[ch] = re.sub("0{4,}", lambda m: "000" + "1" * (len(m.group(0)) - 3), s[ch])    # stalls of at most 3 cycles
    return scn


def gen_axi(rng, kind=None, nm=None, ns=None):
    """AXI4 (full) shared interconnect / AXITimeout with single-beat transfers; every op has its own address."""
    t = rng.choice([1, 2, 3, 5, 8, 16])
    kind = kind or rng.choice(["shared", "shared", "timeout_only"])
    nm = nm or (1 if kind == "timeout_only" else rng.choice([1, 2]))
    ns = ns or (1 if kind == "timeout_only" else rng.choice([1, 2]))
    ops = []
    for m in range(nm):
        lst = []
        for j in range(rng.randint(5, 12)):
            off = ((m * 16 + j) << 2)
            if kind != "timeout_only" and rng.random() < 0.2:
                addr = 0x8000 + off
            else:
                addr = AX_WINS[rng.randrange(ns)][0] + off
            if rng.random() < 0.5:
                lst.append({"kind": "w", "addr": addr, "len": 0, "size": 2, "burst": 1, "id": 0, "strb": [15],
                            "data": [((m + 1) << 28) | (j << 16) | rng.getrandbits(16)], "gap": rng.choice([0, 1, 3]), "wgaps": [rng.choice([0, 1, 3])]})
            else:
                lst.append({"kind": "r", "addr": addr, "len": 0, "size": 2, "burst": 1, "id": 0, "gap": rng.choice([0, 1, 3])})
        ops.append(lst)
    import re
    slaves = []
    for _ in range(ns):
        sc = {"lat": [rng.choice([0, 1, 2, t, t + 3]) for _ in range(8)], "depth": rng.choice([1, 2])}
        for ch in ("aw", "w", "ar"):
            pat = prng.pattern(rng, 80, rng.choice([1.0, 0.7])) if t >= 8 else ""
            sc[ch] = re.sub("0{4,}", lambda m_: "000" + "1" * (len(m_.group(0)) - 3), pat)      # own stalls of at most 3 cycles
        slaves.append(sc)
    scn = {"family": "axi", "params": {"kind": kind, "nm": nm, "ns": ns, "t": t}, "ops": ops, "slaves": slaves, "faults": []}
    if rng.random() < 0.7:
        scn["faults"].append({"kind": "silent_slave", "slave": rng.randrange(ns), "at": rng.randint(0, 60), "between_aw_w": rng.random() < 0.4})
    return scn


def gen_soc(rng):
    """The same histories through the interconnect that litex.soc.integration.soc builds (SoCBusHandler alone, or a whole SoCMini
    with its controller's bus error counter)."""
    std = rng.choice(["wishbone", "axi-lite", "axi"])
    kind = rng.choice(["soc", "handler"])
    nm, ns = rng.choice([1, 1, 2]), rng.choice([1, 1, 2])
    if std == "wishbone":
        scn = gen_wb(rng, kind="shared", nm=nm, ns=ns)
    elif std == "axi-lite":
        scn = gen_axil(rng, kind="shared", nm=nm, ns=ns)
    else:
        scn = gen_axi(rng, kind="shared", nm=nm, ns=ns)
    scn["family"] = "soc"
    scn["params"].update(kind=kind, std=std)
    if kind == "handler" and nm == 1 and ns == 1:
        # one master, one slave, region NOT at origin 0 (at origin 0 SoCBusHandler builds a point-to-point link without any
        # timeout: listed known finding C11-F4, replayed from its canonical file only)
        if std == "wishbone":
            scn["params"]["wins"] = [[0x100, 4]]
            for o in scn["ops"][0]:
                if o["adr"] < 0x800:
                    o["adr"] += 0x100
        else:
            scn["params"]["wins"] = [[0x1000, 8]]
            for o in scn["ops"][0]:
                if o["addr"] < 0x8000:
                    o["addr"] += 0x1000
    return scn


def generate_indexed(family, index, rng, tier):
    if family == "soc":
        return gen_soc(rng)
    if family == "wb":
        return gen_wb(rng)
    if family == "axil":
        return gen_axil(rng)
    if family == "axi":
        return gen_axi(rng)
    if family in ("wb_sweep", "axil_sweep"):
        # fixed scenario per (t, variant): the same PRNG stream for every fault instant, so only the instant differs
        ts = SWEEP_T if family == "wb_sweep" or tier != "quick" else [2, 8]
        per = SWEEP_LEN
        cfg, x = divmod(index, per)
        t = ts[cfg % len(ts)]
        variant = cfg // len(ts)
        r2 = prng.stream(1234, "C11", family, t, variant)
        if family == "wb_sweep":
            scn = gen_wb(r2, t=t, silent=[0, x, None if variant % 2 == 0 else 12], kind="shared", nm=2, ns=2, fixed=True)
        else:
            scn = gen_axil(r2, t=t, silent=[0, x], kind="shared", nm=2, ns=2)
        scn["family"] = family
        return scn
    if family == "waittimer":
        t = [1, 2, 3, 4, 7, 8, 15, 16][index % 8]
        n = 120
        pat = prng.pattern(rng, n, rng.choice([0.5, 0.8, 0.95]))
        return {"family": "waittimer", "t": t, "wait_pattern": pat}
    raise KeyError(family)


def generate(family, rng, tier, **kw):
    if family == "wb":
        return gen_wb(rng, **kw)
    if family == "axil":
        return gen_axil(rng, **kw)
    if family == "axi":
        return gen_axi(rng)
    if family == "soc":
        return gen_soc(rng)
    return generate_indexed(family, rng.randrange(64), rng, tier)


def wdec(adr, ns, wins=None):
    for i, (o, k) in enumerate((wins or WB_WINS)[:ns]):
        if (adr >> k) == (o >> k):
            return i
    return None


def adec(addr, ns, wins=None):
    for i, (o, k) in enumerate((wins or AX_WINS)[:ns]):
        if (addr >> k) == (o >> k):
            return i
    return None


def sinit(si, a):
    return ((si + 1) << 24) | ((a * 2654435761) & 0xffff00) | 0x5a


class Sampler(Agent):
    def __init__(self, sig):
        self.reads = (sig,)
        self.sig = sig
        self.high = []

    def step(self, v, t, w):
        if v[self.sig]:
            self.high.append(t)


def via_soc(kind, std, masters, slaves, regions, t, register=False):
    """The interconnect as litex.soc.integration.soc builds it. kind 'handler': SoCBusHandler(timeout=t) with the masters / slaves /
    regions added through its API and finalized, plus a SoCController wired the way SoC.finalize() does; kind 'soc': a whole
    SoCMini(bus_timeout=t, with_ctrl=True) (its CSR bridge is one more slave, moved out of the way to 0xf0000000).
    Returns (module, timeout error signal or None, bus_errors counter signal)."""
    import logging
    logging.disable(logging.CRITICAL)
    from migen import Module
    from litex.soc.integration.soc import SoCBusHandler, SoCController, SoCRegion
    if kind == "handler":
        top = Module()
        top.submodules.h = h = SoCBusHandler(standard=std, data_width=32, address_width=32, timeout=t, interconnect="shared",
                                             interconnect_register=register)
        for i, mb in enumerate(masters):
            h.add_master("m%d" % i, master=mb)
        for i, (sb, (org, size)) in enumerate(zip(slaves, regions)):
            h.add_slave("s%d" % i, slave=sb, region=SoCRegion(origin=org, size=size))
        h.finalize()
        top.submodules.ctrl = ctrl = SoCController()
        ic = h._interconnect
        if hasattr(ic, "timeout"):
            top.comb += ctrl.bus_error.eq(ic.timeout.error)
    else:
        from litex.build.generic_platform import GenericPlatform
        from litex.soc.integration.soc_core import SoCMini
        top = SoCMini(GenericPlatform("dev", io=[]), clk_freq=int(1e6), bus_standard=std, bus_interconnect="shared", bus_timeout=t,
                      with_ctrl=True, with_timer=False)
        top.mem_map["csr"] = 0xf0000000
        for i, mb in enumerate(masters):
            top.bus.add_master("m%d" % i, master=mb)
        for i, (sb, (org, size)) in enumerate(zip(slaves, regions)):
            top.bus.add_slave("s%d" % i, slave=sb, region=SoCRegion(origin=org, size=size))
        top.finalize()
        ctrl = top.ctrl
        ic = top.bus._interconnect
    return top, (ic.timeout.error if hasattr(ic, "timeout") else None), ctrl._bus_errors.status


def check_error_counter(V, smp, cnt_smp, bench):
    """SoC level: every cycle of the interconnect's timeout error indication is counted by the controller's bus_errors register."""
    if cnt_smp is None:
        return 0
    n = len(smp.high) if smp is not None else 0
    got = cnt_smp.last
    if got != min(n, 2 ** 32 - 1):
        V("error_not_counted", "ctrl.bus_errors", "the timeout raised its error indication in %d cycles %s, the SoC controller's bus_errors register holds %d"
          % (n, (smp.high if smp is not None else [])[:10], got))
    return 1


class LastValue(Agent):
    def __init__(self, sig):
        self.reads = (sig,)
        self.sig = sig
        self.last = 0

    def step(self, v, t, w):
        self.last = v[self.sig]


def run(scn):
    fam = scn["family"]
    if fam == "soc":
        return {"wishbone": run_wb, "axi-lite": run_axil, "axi": run_axi}[scn["params"]["std"]](scn)
    if fam in ("wb", "wb_sweep"):
        return run_wb(scn)
    if fam in ("axil", "axil_sweep"):
        return run_axil(scn)
    if fam == "axi":
        return run_axi(scn)
    return run_waittimer(scn)


def run_wb(scn):
    from migen import Module, If
    from litex.soc.interconnect import wishbone
    from litex.soc.integration.soc import SoCRegion
    p = scn["params"]
    nm, ns, t, kind = p["nm"], p["ns"], p["t"], p["kind"]
    wins = p.get("wins") or WB_WINS
    cnt_sig = None
    wdec = lambda a, ns_: globals()["wdec"](a, ns_, wins)  # noqa
    masters = [wishbone.Interface(data_width=32, adr_width=30) for _ in range(nm)]
    ports = [wishbone.Interface(data_width=32, adr_width=30) for _ in range(ns)]      # interconnect side
    agents_bus = [wishbone.Interface(data_width=32, adr_width=30) for _ in range(ns)]  # agent side (ungated ack)
    m = Module()
    for pt, ab in zip(ports, agents_bus):
        m.comb += [ab.cyc.eq(pt.cyc), ab.stb.eq(pt.stb), ab.we.eq(pt.we), ab.adr.eq(pt.adr), ab.dat_w.eq(pt.dat_w), ab.sel.eq(pt.sel),
                   pt.dat_r.eq(ab.dat_r), pt.ack.eq(ab.ack & pt.cyc & pt.stb), pt.err.eq(ab.err & pt.cyc & pt.stb)]
    if kind == "timeout_only":
        m.comb += masters[0].connect(ports[0])
        m.submodules.timeout = to = wishbone.Timeout(masters[0], t)
        err_sig = to.error
    elif kind in ("soc", "handler"):
        inner, err_sig, cnt_sig = via_soc(kind, "wishbone", masters, ports, [(o * 4, (1 << k) * 4) for o, k in wins[:ns]], t, p.get("register", False))
        m.submodules.inner = inner
    else:
        preds = [SoCRegion(origin=o * 4, size=(1 << k) * 4).decoder(ports[0]) for o, k in wins[:ns]]
        cls = wishbone.Crossbar if kind == "crossbar" else wishbone.InterconnectShared
        m.submodules.ic = ic = cls(masters, list(zip(preds, ports)), register=p.get("register", False), timeout_cycles=t)
        err_sig = ic.timeout.error if hasattr(ic, "timeout") else None
    nops = sum(len(o) for o in scn["ops"])
    bench = Bench(wrap_top(m), max_cycles=nops * (t + 12) + 200, tail=6, fingerprint=False)
    mag = [bench.add(WBMaster(mb, scn["ops"][i], name="m%d" % i)) for i, mb in enumerate(masters)]
    sag = []
    for i, ab in enumerate(agents_bus):
        f = next((f for f in scn["faults"] if f["slave"] == i), None)
        sa = WBSlave(ab, scn["lat"][i], name="s%d" % i, init=(lambda a, i=i: sinit(i, a)),
                     silent_cycle=f["at"] if f else None,
                     back_at=(f["at"] + f["back_after"]) if f and f.get("back_after") else None)
        sag.append(bench.add(sa))
    smp = bench.add(Sampler(err_sig)) if err_sig is not None else None
    cnt_smp = bench.add(LastValue(cnt_sig)) if cnt_sig is not None else None
    bench.run()
    viols = []

    def V(cls, obs, msg, cycle=None):
        if len(viols) < 5:
            viols.append({"prop": "C11", "cls": cls, "observable": obs, "msg": msg, "cycle": cycle})
    if bench.violation is not None:
        viols.append(dict(bench.violation.as_dict(), prop="C11"))
    checks = 0
    evs = []
    for mi, ma in enumerate(mag):
        if not ma.done():
            V("bus_hung", "m%d" % mi, "operation #%d %r not terminated after %d cycles (timeout %d)" % (ma.idx, scn["ops"][mi][ma.idx], bench.cycle["sys"], t))
        for r in ma.results:
            evs.append((r["done"], mi, scn["ops"][mi][r["op"]], r))
    evs.sort(key=lambda e: (e[0], e[1]))
    slave_done = {}
    for si, sa in enumerate(sag):
        for x in sa.log:
            slave_done[(x["t"], x["adr"], x["we"])] = si
    ref = {}
    forced_cycles = []
    nforced = nreal = 0
    for done, mi, op, r in evs:
        wait = done - r["issue"] + 1
        answered = (done, op["adr"], op["we"]) in slave_done
        timed = smp is not None and done in smp.high      # error is sampled in the termination cycle
        d = wdec(op["adr"], ns)
        checks += 1
        if answered and d is None:
            V("unmapped_reached_slave", "m%d" % mi, "request %r matches no region and was answered by slave %d" % (op, slave_done[(done, op["adr"], op["we"])]), done)
            continue
        if answered and not timed:
            nreal += 1
            key = (d, op["adr"])
            if op["we"]:
                ref[key] = op["dat"]
            else:
                exp = ref.get(key, sinit(d, op["adr"]))
                if r["dat_r"] != exp:
                    V("answer_disturbed", "m%d" % mi, "read %#x answered by slave %d at cycle %d returned %#x, expected %#x" % (op["adr"], d, done, r["dat_r"], exp), done)
        elif answered and timed:
            # expiry cycle coincides with the real answer: either value is acceptable
            key = (d, op["adr"])
            if op["we"]:
                ref[key] = op["dat"]
            forced_cycles.append(done)
        else:
            nforced += 1
            forced_cycles.append(done)
            if not r["ack"] or r["err"]:
                V("wrong_termination", "m%d" % mi, "forced termination at cycle %d with ack=%d err=%d (expected ack)" % (done, r["ack"], r["err"]), done)
            if not op["we"] and r["dat_r"] != 0xffffffff:
                V("wrong_error_value", "m%d" % mi, "timed-out read %#x returned %#x, expected all ones" % (op["adr"], r["dat_r"]), done)
            if wait < t:
                V("premature_timeout", "m%d" % mi, "request %r terminated by the timeout after %d cycles, timeout is %d" % (op, wait, t), done)
            k = sum(1 for d2, m2, o2, r2 in evs if m2 != mi and r["issue"] <= d2 <= done)
            if wait > (k + 1) * (t + 4) + 4:
                V("late_timeout", "m%d" % mi, "request %r terminated after %d cycles (timeout %d, %d other terminations meanwhile)" % (op, wait, t, k), done)
    if smp is not None:
        checks += len(smp.high)
        if sorted(smp.high) != sorted(forced_cycles):
            extra = [c for c in smp.high if c not in forced_cycles]
            missing = [c for c in forced_cycles if c not in smp.high]
            V("error_pulse", "timeout.error", "error high in cycles %s, forced terminations in cycles %s (extra %s, missing %s)"
              % (smp.high[:8], sorted(forced_cycles)[:8], extra[:4], missing[:4]))
    checks += check_error_counter(V, smp, cnt_smp, bench)
    stats = {"cycles": bench.cycle["sys"], "checks": checks, "nontrivial": bool(nforced and nreal),
             "faults": {"silent_slave": sum(sa.silenced > 0 for sa in sag), "unmapped_addr": sum(1 for e in evs if wdec(e[2]["adr"], ns) is None),
                        "forced_terminations": nforced,
                        "late_resp": sum(1 for sa in sag for x in sa.log if False)},
             "probes": {"expiry_cycle_coincidence": sum(1 for done, mi, op, r in evs if (done, op["adr"], op["we"]) in slave_done and smp and done in smp.high),
                        "t_%d" % t: 1}}
    return {"violations": viols, "digest": bench.digest(), "stats": stats}


def run_axil(scn):
    from migen import Module
    from litex.soc.interconnect.axi import axi_lite
    from litex.soc.integration.soc import SoCRegion
    p = scn["params"]
    nm, ns, t, kind = p["nm"], p["ns"], p["t"], p["kind"]
    wins = p.get("wins") or AX_WINS
    cnt_sig = None
    masters = [axi_lite.AXILiteInterface(data_width=32, address_width=32) for _ in range(nm)]
    slaves = [axi_lite.AXILiteInterface(data_width=32, address_width=32) for _ in range(ns)]

    class FB:
        data_width, address_width = 32, 32
    m = Module()
    if kind == "timeout_only":
        m.comb += masters[0].connect(slaves[0])
        m.submodules.timeout = to = axi_lite.AXILiteTimeout(masters[0], t)
        err_sig = to.error
    elif kind in ("soc", "handler"):
        inner, err_sig, cnt_sig = via_soc(kind, "axi-lite", masters, slaves, [(o, 1 << k) for o, k in wins[:ns]], t)
        m.submodules.inner = inner
    else:
        preds = [SoCRegion(origin=o, size=1 << k).decoder(FB) for o, k in wins[:ns]]
        cls = axi_lite.AXILiteCrossbar if kind == "crossbar" else axi_lite.AXILiteInterconnectShared
        m.submodules.ic = ic = cls(masters, list(zip(preds, slaves)), timeout_cycles=t)
        err_sig = ic.timeout.error if hasattr(ic, "timeout") else None
    nops = sum(len(o) for o in scn["ops"])
    bench = Bench(wrap_top(m), max_cycles=nops * (t + 16) + 300, tail=8, fingerprint=False)
    dec = lambda a: adec(a, ns, wins)  # noqa
    mag = [bench.add(AXILMaster(mb, scn["ops"][i], name="m%d" % i, max_out=1, single_target=dec, w_lead=(1 if p.get("w_first") else 0)))
           for i, mb in enumerate(masters)]
    sag = []
    for i, sb in enumerate(slaves):
        sc = scn["slaves"][i]
        f = next((f for f in scn["faults"] if f["slave"] == i), None)
        sa = AXILSlave(sb, name="s%d" % i, awready=sc["aw"], wready=sc["w"], arready=sc["ar"], lat=sc["lat"], depth=sc["depth"],
                       read_data=(lambda a, i=i: sinit(i, a)), silent_from=f["at"] if f else None)
        if f and f.get("mid_request"):
            sa.silent_mid_request = True
        sag.append(bench.add(sa))
    smp = bench.add(Sampler(err_sig)) if err_sig is not None else None
    cnt_smp = bench.add(LastValue(cnt_sig)) if cnt_sig is not None else None
    bench.run()
    viols = []

    def V(cls, obs, msg, cycle=None):
        if len(viols) < 5:
            viols.append({"prop": "C11", "cls": cls, "observable": obs, "msg": msg, "cycle": cycle})
    checks = 0
    nforced = nreal = 0
    for mi, ma in enumerate(mag):
        if not ma.done():
            V("bus_hung", "m%d" % mi, "%d/%d writes, %d/%d reads completed after %d cycles (timeout %d)"
              % (ma.b_n, len(ma.writes), ma.r_n, len(ma.reads_), bench.cycle["sys"], t))
        # reads
        for k, (tr, data, resp) in enumerate(ma.log["r"]):
            if k >= len(ma.reads_) or k >= len(ma.log["ar"]):
                V("spurious_response", "m%d.r" % mi, "read response #%d at cycle %d: the master had %d read addresses accepted" % (k, tr, len(ma.log["ar"])), tr)
                break
            op = ma.reads_[k]
            d = dec(op["addr"])
            t_ar = ma.log["ar"][k][0]
            accepted = d is not None and any(e[0] == t_ar and e[1] == op["addr"] for e in sag[d].log["ar"])
            checks += 1
            if accepted:
                nreal += 1
                if resp != 0 or data != sinit(d, op["addr"]):
                    V("answer_disturbed", "m%d.r" % mi, "read %#x accepted by slave %d returned data=%#x resp=%d" % (op["addr"], d, data, resp), tr)
            else:
                nforced += 1
                if resp != 2 or data != 0xffffffff:
                    V("wrong_error_value", "m%d.r" % mi, "read %#x not accepted by any slave returned data=%#x resp=%d (expected all ones, SLVERR)" % (op["addr"], data, resp), tr)
        for k, (tb, resp) in enumerate(ma.log["b"]):
            if k >= len(ma.writes):
                V("spurious_response", "m%d.b" % mi, "write response #%d at cycle %d: the master issued only %d writes" % (k, tb, len(ma.writes)), tb)
                break
            op = ma.writes[k]
            d = dec(op["addr"])
            t_aw = ma.log["aw"][k][0]
            # a write is accepted by the slave only when both its address and its data were taken
            accepted = d is not None and any(e[1] == op["addr"] and e[2] == op["data"] for e in sag[d].log["writes"])
            checks += 1
            if accepted:
                nreal += 1
                if resp != 0:
                    V("answer_disturbed", "m%d.b" % mi, "write %#x accepted by slave %d answered resp=%d" % (op["addr"], d, resp), tb)
            else:
                nforced += 1
                if resp != 2:
                    V("wrong_error_value", "m%d.b" % mi, "write %#x not accepted by any slave answered resp=%d (expected SLVERR)" % (op["addr"], resp), tb)
    # writes accepted by a slave arrive intact
    for si, sa in enumerate(sag):
        for (tt, a, dta, s) in sa.log["writes"]:
            checks += 1
            mi = (dta >> 28) - 1
            if not (0 <= mi < nm) or not any(o["addr"] == a and o["data"] == dta for o in mag[mi].writes):
                V("answer_disturbed", "s%d" % si, "slave received write addr=%#x data=%#x that no master sent" % (a, dta), tt)
    if smp is not None:
        checks += 1
        # error = wr_error | rd_error: one cycle per timeout, a read and a write timeout may coincide
        n = len(smp.high)
        if n > nforced or n < (nforced + 1) // 2:
            V("error_pulse", "timeout.error", "error high in %d cycles %s for %d forced (SLVERR) responses" % (n, smp.high[:10], nforced))
    checks += check_error_counter(V, smp, cnt_smp, bench)
    stats = {"cycles": bench.cycle["sys"], "checks": checks, "nontrivial": bool(nforced and nreal),
             "faults": dict(bench.fault_counts, forced_terminations=nforced,
                            unmapped_addr=sum(1 for ma in mag for o in ma.writes + ma.reads_ if dec(o["addr"]) is None)),
             "probes": {"t_%d" % t: 1}}
    return {"violations": viols, "digest": bench.digest(), "stats": stats}


def run_axi(scn):
    from migen import Module
    from litex.soc.interconnect.axi import axi_full
    from litex.soc.integration.soc import SoCRegion
    from dsim.axi_agents import AXIMaster, AXISlave
    p = scn["params"]
    nm, ns, t, kind = p["nm"], p["ns"], p["t"], p["kind"]
    wins = p.get("wins") or AX_WINS
    cnt_sig = None
    masters = [axi_full.AXIInterface(data_width=32, address_width=32) for _ in range(nm)]
    slaves = [axi_full.AXIInterface(data_width=32, address_width=32) for _ in range(ns)]

    class FB:
        data_width, address_width = 32, 32
    m = Module()
    if kind == "timeout_only":
        m.comb += masters[0].connect(slaves[0])
        m.submodules.timeout = to = axi_full.AXITimeout(masters[0], t)
        err_sig = to.error
    elif kind in ("soc", "handler"):
        inner, err_sig, cnt_sig = via_soc(kind, "axi", masters, slaves, [(o, 1 << k) for o, k in wins[:ns]], t)
        m.submodules.inner = inner
    else:
        preds = [SoCRegion(origin=o, size=1 << k).decoder(FB) for o, k in wins[:ns]]
        cls = axi_full.AXICrossbar if kind == "crossbar" else axi_full.AXIInterconnectShared
        m.submodules.ic = ic = cls(masters, list(zip(preds, slaves)), timeout_cycles=t)
        err_sig = ic.timeout.error if hasattr(ic, "timeout") else None
    nops = sum(len(o) for o in scn["ops"])
    bench = Bench(wrap_top(m), max_cycles=nops * (t + 16) + 300, tail=8, fingerprint=False)
    dec = lambda a: adec(a, ns, wins)  # noqa
    ibyte = lambda si: (lambda a: ((si + 1) * 37 + a * 7) & 0xff)  # noqa
    mag = [bench.add(AXIMaster(mb, scn["ops"][i], name="m%d" % i, max_out=1)) for i, mb in enumerate(masters)]
    sag = []
    for i, sb in enumerate(slaves):
        sc = scn["slaves"][i]
        f = next((f for f in scn["faults"] if f["slave"] == i), None)
        sag.append(bench.add(AXISlave(sb, name="s%d" % i, awready=sc["aw"], wready=sc["w"], arready=sc["ar"], lat=sc["lat"], depth=sc["depth"],
                                      init=ibyte(i), silent_from=f["at"] if f else None)))
        sag[-1].silent_between = bool(f and f.get("between_aw_w"))
    smp = bench.add(Sampler(err_sig)) if err_sig is not None else None
    cnt_smp = bench.add(LastValue(cnt_sig)) if cnt_sig is not None else None
    bench.run()
    viols = []

    def V(cls, obs, msg, cycle=None):
        if len(viols) < 5:
            viols.append({"prop": "C11", "cls": cls, "observable": obs, "msg": msg, "cycle": cycle})
    checks = 0
    nforced = nreal = 0
    for mi, ma in enumerate(mag):
        if not ma.done():
            V("bus_hung", "m%d" % mi, "%d/%d writes, %d/%d reads completed after %d cycles (timeout %d)"
              % (ma.b_n, len(ma.writes), ma.r_n, len(ma.reads_), bench.cycle["sys"], t))
        for k, beats in enumerate(ma.r_log):
            if k >= len(ma.reads_):
                V("spurious_response", "m%d.r" % mi, "read response #%d received, only %d reads were issued (surplus response)" % (k, len(ma.reads_)), beats[0][0] if beats else None)
                break
            op = ma.reads_[k]
            d = dec(op["addr"])
            accepted = d is not None and any(e[1] == op["addr"] for e in sag[d].log["ar"])
            checks += 1
            if len(beats) != 1 or not beats[0][3]:
                V("wrong_error_value", "m%d.r" % mi, "single-beat read %#x answered with %d beats, last=%s" % (op["addr"], len(beats), [b[3] for b in beats]), beats[0][0])
                continue
            tr, data, resp = beats[0][0], beats[0][1], beats[0][2]
            if accepted:
                nreal += 1
                exp = sum(ibyte(d)(op["addr"] + i) << (8 * i) for i in range(4))
                if resp != 0 or data != exp:
                    V("answer_disturbed", "m%d.r" % mi, "read %#x accepted by slave %d returned data=%#x resp=%d (slave holds %#x)" % (op["addr"], d, data, resp, exp), tr)
            else:
                nforced += 1
                if resp != 2 or data != 0xffffffff:
                    V("wrong_error_value", "m%d.r" % mi, "read %#x not accepted by any slave returned data=%#x resp=%d (expected all ones, SLVERR)" % (op["addr"], data, resp), tr)
        for k, (tb, resp, id_) in enumerate(ma.b_log):
            if k >= len(ma.writes):
                V("spurious_response", "m%d.b" % mi, "write response #%d received, only %d writes were issued (surplus response)" % (k, len(ma.writes)), tb)
                break
            op = ma.writes[k]
            d = dec(op["addr"])
            accepted = d is not None and any(e[1] == op["addr"] and e[2] == op["data"][0] for e in sag[d].log["wbeats"])
            checks += 1
            if accepted:
                nreal += 1
                if resp != 0:
                    V("answer_disturbed", "m%d.b" % mi, "write %#x accepted by slave %d answered resp=%d" % (op["addr"], d, resp), tb)
            else:
                nforced += 1
                if resp != 2:
                    V("wrong_error_value", "m%d.b" % mi, "write %#x not accepted by any slave answered resp=%d (expected SLVERR)" % (op["addr"], resp), tb)
        for (tt, ch, what) in ma.proto[:2]:
            V("protocol_master_side", "m%d.%s" % (mi, ch), "cycle %d: %s" % (tt, what), tt)
    for si, sa in enumerate(sag):
        for (tt, a, dta, s_) in sa.log["wbeats"]:
            checks += 1
            mi = (dta >> 28) - 1
            if not (0 <= mi < nm) or not any(o["addr"] == a and o["data"][0] == dta for o in mag[mi].writes):
                V("answer_disturbed", "s%d" % si, "slave received write addr=%#x data=%#x that no master sent" % (a, dta), tt)
    if smp is not None:
        checks += 1
        n = len(smp.high)
        if n > nforced or n < (nforced + 1) // 2:
            V("error_pulse", "timeout.error", "error high in %d cycles %s for %d forced (SLVERR) responses" % (n, smp.high[:10], nforced))
    checks += check_error_counter(V, smp, cnt_smp, bench)
    stats = {"cycles": bench.cycle["sys"], "checks": checks, "nontrivial": bool(nforced and nreal),
             "faults": dict(bench.fault_counts, forced_terminations=nforced,
                            unmapped_addr=sum(1 for ma in mag for o in ma.writes + ma.reads_ if dec(o["addr"]) is None)),
             "probes": {"t_%d" % t: 1, "axi_full": 1}}
    return {"violations": viols, "digest": bench.digest(), "stats": stats}


def run_waittimer(scn):
    from litex.gen.genlib.misc import WaitTimer
    t = scn["t"]
    dut = WaitTimer(t)
    pat = scn["wait_pattern"]
    bench = Bench(wrap_top(dut), max_cycles=len(pat) + 8, tail=2, fingerprint=False)
    rows = []

    class Drv(Agent):
        reads = (dut.wait, dut.done)

        def done(self):
            return len(rows) >= len(pat)

        def step(self, v, tt, w):
            rows.append((v[dut.wait], v[dut.done]))
            nxt = int(pat[tt] == "1") if tt < len(pat) else 0
            if nxt != v[dut.wait]:
                w(dut.wait, nxt)
    bench.add(Drv())
    bench.run()
    viols = []
    run_len = 0
    checks = 0
    for c, (wt, dn) in enumerate(rows):
        # done must be high exactly when wait has been high for >= t consecutive cycles before this one
        exp = int(run_len >= t)
        checks += 1
        if dn != exp:
            viols.append({"prop": "C11", "cls": "waittimer", "observable": "done", "cycle": c,
                          "msg": "t=%d: cycle %d wait has been high for %d cycles, done=%d expected %d" % (t, c, run_len, dn, exp)})
            break
        run_len = run_len + 1 if wt else 0
    import hashlib
    return {"violations": viols, "digest": hashlib.sha256(repr((t, pat)).encode()).hexdigest()[:16],
            "stats": {"cycles": len(rows), "checks": checks, "nontrivial": any(r[1] for r in rows), "faults": {}, "probes": {}}}


def known_match(scn, v):
    p = scn.get("params", {})
    if p.get("w_first"):
        return "C11-F3"
    if scn.get("family") == "soc" and p.get("kind") == "handler" and p["nm"] == 1 and p["ns"] == 1 and not p.get("wins") \
            and v["cls"] in ("bus_hung", "unmapped_reached_slave"):
        return "C11-F4"
    if p.get("kind") == "crossbar" and v["cls"] == "bus_hung":
        fam = scn.get("family", "wb")
        return "C11-F1" if fam.startswith("wb") else ("C11-F1c" if fam == "axi" else "C11-F1b")
    if any(f.get("mid_request") for f in scn.get("faults", [])) and v["cls"] == "bus_hung":
        return "C11-F2"
    return None
