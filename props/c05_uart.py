"""C05, family UART: litex.soc.cores.uart.UART(phy=None, phy_cd="b") - the TX and RX FIFOs cross between the system
domain (software side: the _rxtx CSR strobes, driven directly) and the PHY domain "b" (stream side). Bytes written by
software must leave the PHY-side source exactly once and in order, bytes offered on the PHY-side sink must be read by
software exactly once and in order, under the seeded edge schedules and per-bit synchroniser resolutions of C05."""
from dsim import prng, cdc
from dsim.kernel import Bench, Agent


def generate(rng, tier):
    n_ticks = rng.choice([400, 800, 1200])
    sched, desc = cdc.gen_schedule(rng, n_ticks, 2)
    ntx, nrx = rng.randint(5, 40), rng.randint(5, 40)
    return {"family": "UART", "params": {"tx_depth": rng.choice([4, 8, 16]), "rx_depth": rng.choice([4, 8, 16])},
            "schedule": sched, "sched_desc": desc,
            "tx": [rng.getrandbits(8) for _ in range(ntx)], "rx": [rng.getrandbits(8) for _ in range(nrx)],
            "sw_tx_pattern": prng.pattern(rng, 300, rng.choice([1.0, 0.5, 0.2])), "sw_rx_pattern": prng.pattern(rng, 300, rng.choice([1.0, 0.5, 0.2])),
            "phy_tx_ready": prng.pattern(rng, 300, rng.choice([1.0, 0.6, 0.2])), "phy_rx_valid": prng.pattern(rng, 300, rng.choice([1.0, 0.6, 0.2])),
            "meta": [rng.getrandbits(16) for _ in range(64)] if rng.random() < 0.8 else [0]}


def run(scn):
    from migen import Module, ClockDomain
    from litex.soc.cores.uart import UART
    p = scn["params"]
    reg = cdc.new_registry()
    dut = UART(phy=None, tx_fifo_depth=p["tx_depth"], rx_fifo_depth=p["rx_depth"], rx_fifo_rx_we=True, phy_cd="b")

    class Top(Module):
        def __init__(self):
            self.submodules.dut = dut
            self.clock_domains.cd_sys = ClockDomain("sys")
            self.clock_domains.cd_b = ClockDomain("b")
    tx, rx = scn["tx"], scn["rx"]
    nsys = sum(1 for c in scn["schedule"] if (ord(c) - ord("a") + 1) & 1)
    bench = Bench(Top(), domains=["sys", "b"], schedule=scn["schedule"], overrides=cdc.overrides(),
                  max_cycles=nsys + 40 * (len(tx) + len(rx)) + 600, fingerprint=False)
    st = {"tx_i": 0, "sw_got": [], "phy_got": [], "rx_i": 0, "last": 0}

    def pat(s, t):
        return 1 if t >= len(s) else int(s[t] == "1")

    class Software(Agent):
        """system-domain side: writes a byte when the TX FIFO is not full, reads one when the RX FIFO is not empty."""
        reads = (dut._txfull.status, dut._rxempty.status, dut._rxtx.w)

        def __init__(s_):
            s_.rd = False
            s_.wr = False
            s_.wrote = False
            s_.popped = False

        def done(s_):
            return st["tx_i"] >= len(tx) and len(st["sw_got"]) >= len(rx)

        def step(s_, v, t, w):
            # the strobes written in the previous cycle took effect at this edge
            if s_.rd:
                st["sw_got"].append(s_.rd_data)
                bench.event("sw", "rx", t, s_.rd_data)
            s_.wrote = s_.wr
            s_.rd = s_.wr = False
            w(dut._rxtx.re, 0)
            w(dut._rxtx.we, 0)
            # (the full flag seen now does not include a byte written in the previous cycle: software never writes twice in a row)
            if st["tx_i"] < len(tx) and not v[dut._txfull.status] and pat(scn["sw_tx_pattern"], t) and not s_.wrote:
                w(dut._rxtx.re, 1)
                w(dut._rxtx.r, tx[st["tx_i"]])
                st["tx_i"] += 1
                s_.wr = True
            # a read strobe pops the byte that is visible now; it must not follow a pop directly (the status is one cycle old)
            if not v[dut._rxempty.status] and pat(scn["sw_rx_pattern"], t) and not s_.popped:
                w(dut._rxtx.we, 1)
                s_.rd = True
                s_.rd_data = v[dut._rxtx.w]
            s_.popped = s_.rd

    class Phy(Agent):
        """PHY-domain side: consumes the TX stream with a literal ready pattern, offers the RX bytes with a literal valid pattern."""
        reads = (dut.source.valid, dut.source.ready, dut.source.data, dut.sink.valid, dut.sink.ready)

        def __init__(s_):
            s_.offering = False

        def done(s_):
            return len(st["phy_got"]) >= len(tx) and st["rx_i"] >= len(rx)

        def step(s_, v, t, w):
            if v[dut.source.valid] and v[dut.source.ready]:
                st["phy_got"].append(v[dut.source.data])
                bench.event("phy", "tx", t, v[dut.source.data])
            if s_.offering and v[dut.sink.valid] and v[dut.sink.ready]:
                st["rx_i"] += 1
                s_.offering = False
            w(dut.source.ready, pat(scn["phy_tx_ready"], t))
            if not s_.offering:
                if st["rx_i"] < len(rx) and pat(scn["phy_rx_valid"], t):
                    w(dut.sink.valid, 1)
                    w(dut.sink.data, rx[st["rx_i"]])
                    s_.offering = True
                else:
                    w(dut.sink.valid, 0)
    bench.add(Software(), "sys")
    bench.add(Phy(), "b")
    cdc.MetaInjector(reg, scn.get("meta")).attach(bench, {})
    bench.run()
    viols = []

    def V(cls, obs, msg):
        if len(viols) < 4:
            viols.append({"prop": "C05", "cls": cls, "observable": obs, "msg": msg, "cycle": None})
    checks = 0
    for name, sent, got, n_sent in (("tx (software -> PHY side)", tx, st["phy_got"], st["tx_i"]), ("rx (PHY side -> software)", rx, st["sw_got"], st["rx_i"])):
        for k, g in enumerate(got):
            checks += 1
            if k >= n_sent:
                V("token_invented", name, "byte #%d (%#04x) delivered, only %d were accepted" % (k, g, n_sent))
                break
            if g != sent[k]:
                what = "duplicated" if k > 0 and g == sent[k - 1] else "lost or reordered" if g in sent[k + 1:k + 4] else "corrupted"
                V("token_mismatch", name, "byte #%d is %#04x, expected %#04x (%s)" % (k, g, sent[k], what))
                break
        else:
            checks += 1
            if len(got) < n_sent:
                V("token_missing", name, "%d of %d accepted bytes delivered after %d ticks" % (len(got), n_sent, bench.clocks.ticks))
    stats = {"cycles": bench.cycle["sys"], "checks": checks, "nontrivial": len(st["phy_got"]) >= 5 and len(st["sw_got"]) >= 5,
             "faults": dict(bench.fault_counts), "probes": {"uart_tx_bytes": len(st["phy_got"]), "uart_rx_bytes": len(st["sw_got"])}}
    return {"violations": viols, "digest": bench.digest(), "stats": stats}
