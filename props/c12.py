"""C12 - CSR banks give software exact, side-effect-free register semantics.

DUT: csr_bus.CSRBankArray (real scan/sort/bank construction) + csr_bus.Interconnect over 1-3 banks built
from seeded register sets (CSR, CSRStatus ro/writable, CSRStorage plain/atomic/device-writable/reset_less,
fields with offsets/pulse/reset, sizes 1..70, fixed and automatic locations), bus width 8/16/32, big/little
ordering, paging. Parties: "software" (one CSR-bus access per cycle from a literal list, any address) and
"device" (drives status / CSR.w / storage we+dat_w from a literal list, racing bus writes). Oracle: a
register-file model stepped on the recorded inputs, compared with every observable every cycle.
Family 'mem' (props/c12_mem.py): memories mapped into the CSR space next to a register bank."""
from dsim.kernel import Bench, wrap_top, Agent
from dsim.wb_agents import PortRecorder

PROPERTY = "C12"
LEVEL = "exploration"
RULE = ("one run = 1-3 real CSR banks (through CSRBankArray + Interconnect) with a seeded register set and bus parameters, a "
        "literal per-cycle list of bus accesses (reads/writes to mapped, unmapped, other-bank and other-page addresses) and "
        "device-side updates (status changes, CSR.w changes, device writes racing bus writes in the same cycle); a register-"
        "file model is stepped on the recorded inputs and every observable (dat_r, storage, status strobes, re/we strobes, "
        "CSR.r under re, field and pulse-field signals) is compared every cycle. Non-trivial = the run wrote a multi-word "
        "register, read a value back and had at least one same-cycle device/bus race or foreign-address access; distinct = "
        "distinct event-log digest")
ASSUMPTIONS = [
    "one bus access per cycle (we and re never both high), as the bridges generate them",
    "a bus write wins over a device write in the same cycle on the bits it addresses (the statement: a bus write changes "
    "exactly the addressed bits); other bits take the device value",
    "atomic multi-word CSRStorage commits when the LAST address is written (docstring); with little ordering the code commits "
    "on the first address: listed known finding C12-F1, not generated",
    "register/bank layout follows creation order with fixed locations `n` counted in registers, holes reserved",
]
COMPONENTS = {"real": ["litex.soc.interconnect.csr.CSR/CSRStatus/CSRStorage/CSRField/AutoCSR/_sort_gathered_items/GenericBank",
                       "litex.soc.interconnect.csr_bus.CSRBank/CSRBankArray/SRAM/Interconnect/Interface", "litex.gen.sim.core.Simulator"],
              "stub": ["software and device agents", "clock source", "tracer shim (not needed: explicit names)"]}
CHUNK = 4


SEEDED_SCALE = {"quick": 8, "thorough": 8}      # multiplies the run counts of the sampled families in plan()

def plan(tier):
    return [("bank", 200 if tier == "quick" else 12000), ("mem", 40 if tier == "quick" else 3000)]


# ------------------------------------------------------------------------------------------------
# generate
# ------------------------------------------------------------------------------------------------
def draw_reg(rng, busword, idx, allow_atomic_little=False, ordering="big"):
    kind = rng.choice(["csr", "status", "status", "storage", "storage", "storage"])
    size = rng.choice([1, 1, 3, 8, busword - 1, busword, busword + 1, 2 * busword, 2 * busword + 5, 33, 64, 70])
    size = max(1, min(size, 70))
    r = {"kind": kind, "name": "r%d" % idx, "n": None}
    if kind == "csr":
        r["size"] = max(1, min(size, busword))
        return r
    fields = None
    if rng.random() < 0.3:
        fields, off = [], 0
        for f in range(rng.randint(1, 4)):
            # a field either declares its offset (possibly after a gap) or leaves it to the aggregate (offset=None): it then sits
            # right after the previous field, wherever that one was placed
            explicit = rng.random() < 0.6
            if explicit:
                off += rng.choice([0, 0, 1, 3])
            fs = rng.choice([1, 1, 2, 5, 8])
            pulse = kind == "storage" and fs == 1 and rng.random() < 0.4
            fields.append({"name": "f%d" % f, "size": fs, "offset": off, "explicit": explicit, "reset": rng.getrandbits(fs) if not pulse else 0, "pulse": pulse})
            off += fs
        size = off
    r["size"] = size
    r["fields"] = fields
    r["reset"] = rng.getrandbits(size) if (fields is None and rng.random() < 0.5) else 0
    if kind == "status":
        r["read_only"] = rng.random() < 0.7
    else:
        nwords = -(-size // busword)
        r["atomic"] = rng.random() < 0.4 and (ordering == "big" or allow_atomic_little or nwords == 1)
        r["wfd"] = rng.random() < 0.4
        r["reset_less"] = rng.random() < 0.2
    return r


def generate(family, rng, tier, atomic_little=False):
    if family == "mem":
        from props import c12_mem
        return c12_mem.generate(rng, tier)
    busword = rng.choice([8, 8, 32, 32, 16])
    ordering = rng.choice(["big", "little"]) if not atomic_little else "little"
    paging = rng.choice([0x800, 0x800, 0x400, 0x1000])
    nb = rng.choice([1, 2, 2, 3])
    banks, idx = [], 0
    addrs = rng.sample(range(0, 6), nb)
    for b in range(nb):
        regs = []
        for _ in range(rng.randint(1, 6)):
            regs.append(draw_reg(rng, busword, idx, atomic_little, ordering))
            idx += 1
        if atomic_little:
            regs.append({"kind": "storage", "name": "r%d" % idx, "n": None, "size": 2 * busword + 4, "fields": None, "reset": 0,
                         "atomic": True, "wfd": False, "reset_less": False})
            idx += 1
        if rng.random() < 0.3:
            # fixed locations (in registers); n == number of registers is legal too
            free = list(range(len(regs) + 2))
            for r in rng.sample(regs, rng.randint(1, min(2, len(regs)))):
                r["n"] = free.pop(rng.randrange(len(free)))
        banks.append({"address": addrs[b], "regs": regs})
    p = {"busword": busword, "ordering": ordering, "paging": paging, "banks": banks}
    if nb >= 2 and not atomic_little and rng.random() < 0.2:
        # two CSR masters of different address widths on a csr_bus.InterconnectShared (a wide one listed first, a 14-bit one second); one
        # bank sits on a page only the wide master can reach
        p["shared_aw"] = [rng.choice([15, 16]), 14]
        banks[-1]["address"] = (1 << 14) // (paging // 4) + rng.randrange(4)
    lay = layout(p)
    # literal per-cycle program
    ncyc = rng.randint(80, 200)
    steps = []
    words = [(bi, a) for bi, L in enumerate(lay) for a in range(len(L["words"]))]
    apg = paging // 4
    allregs = [(bi, ri) for bi, b in enumerate(banks) for ri in range(len(b["regs"]))]
    last_target = None
    for c in range(ncyc):
        st = {}
        r_ = rng.random()
        if r_ < 0.65:
            x = rng.random()
            if x < 0.75 and words:
                if last_target and rng.random() < 0.5:
                    bi, a = last_target
                    a = min(a + 1, len(lay[bi]["words"]) - 1)       # walk through a multi-word register
                else:
                    bi, a = rng.choice(words)
                last_target = (bi, a)
                adr = banks[bi]["address"] * apg + a
            elif x < 0.85:
                adr = rng.randrange(8) * apg + rng.randrange(12)      # another page/bank, maybe unmapped
            else:
                adr = banks[0]["address"] * apg + len(lay[0]["words"]) + rng.randrange(4)   # beyond the last register
            if rng.random() < 0.55:
                st["bus"] = ["w", adr, rng.getrandbits(busword)]
            else:
                st["bus"] = ["r", adr]
            if "shared_aw" in p:
                st["m"] = 0 if (adr >= (1 << 14) or rng.random() < 0.5) else 1
        dev = []
        for (bi, ri) in allregs:
            rg = banks[bi]["regs"][ri]
            if rg["kind"] == "status" and rng.random() < 0.15:
                if rg.get("fields"):
                    f = rng.randrange(len(rg["fields"]))
                    dev.append([bi, ri, "field", f, rng.getrandbits(rg["fields"][f]["size"])])
                else:
                    dev.append([bi, ri, "status", rng.getrandbits(rg["size"])])
            elif rg["kind"] == "csr" and rng.random() < 0.15:
                dev.append([bi, ri, "w", rng.getrandbits(rg["size"])])
            elif rg["kind"] == "storage" and rg.get("wfd"):
                # bias towards racing the bus write to this very register
                hit = "bus" in st and st["bus"][0] == "w" and any(
                    banks[bi]["address"] * apg + a == st["bus"][1] for a, wd in enumerate(lay[bi]["words"]) if wd and wd["reg"] == ri)
                if rng.random() < (0.5 if hit else 0.06):
                    dev.append([bi, ri, "we", rng.getrandbits(rg["size"])])
        if dev:
            st["dev"] = dev
        steps.append(st)
    return {"family": "bank", "params": p, "steps": steps}


# ------------------------------------------------------------------------------------------------
# model of the layout (written from the documented behaviour, not read from the DUT)
# ------------------------------------------------------------------------------------------------
def layout(p):
    """per bank: {"order": [reg index or None(reserved)], "words": [ {reg, i, lo, nbits, last} or None(reserved) ]}"""
    out = []
    bw = p["busword"]
    for b in p["banks"]:
        regs = b["regs"]
        n_items = len(regs)
        for r in regs:
            if r["n"] is not None and r["n"] >= n_items:
                n_items = r["n"] + 1
        slots = [None] * n_items
        for ri, r in enumerate(regs):
            if r["n"] is not None:
                slots[r["n"]] = ri
        var = [ri for ri, r in enumerate(regs) if r["n"] is None]
        for ri in var:
            for i in range(n_items):
                if slots[i] is None:
                    slots[i] = ri
                    break
        words = []
        for s in slots:
            if s is None or s == "res":
                words.append(None)
                continue
            r = regs[s]
            if r["kind"] == "csr":
                words.append({"reg": s, "i": 0, "lo": 0, "nbits": r["size"], "last": True, "first": True})
                continue
            nw = -(-r["size"] // bw)
            order = list(reversed(range(nw))) if p["ordering"] == "big" else list(range(nw))
            for k, i in enumerate(order):
                words.append({"reg": s, "i": i, "lo": i * bw, "nbits": min(r["size"] - i * bw, bw), "last": k == nw - 1, "first": k == 0})
        out.append({"order": slots, "words": words})
    return out


# ------------------------------------------------------------------------------------------------
# build
# ------------------------------------------------------------------------------------------------
def build(p):
    from migen import Module
    from litex.soc.interconnect import csr, csr_bus
    top = Module()
    objs = []

    class Src(Module):
        pass
    src = Src()
    for bi, b in enumerate(p["banks"]):
        class Periph(Module, csr.AutoCSR):
            pass
        per = Periph()
        robjs = []
        for r in b["regs"]:
            if r["kind"] == "csr":
                o = csr.CSR(r["size"], name=r["name"], n=r["n"])
            elif r["kind"] == "status":
                flds = [csr.CSRField(f["name"], size=f["size"], offset=f["offset"] if f.get("explicit", True) else None, reset=f["reset"]) for f in (r.get("fields") or [])]
                o = csr.CSRStatus(r["size"], reset=r["reset"], fields=flds, name=r["name"], read_only=r["read_only"], n=r["n"])
            else:
                flds = [csr.CSRField(f["name"], size=f["size"], offset=f["offset"] if f.get("explicit", True) else None, reset=f["reset"], pulse=f["pulse"]) for f in (r.get("fields") or [])]
                o = csr.CSRStorage(r["size"], reset=r["reset"], reset_less=r["reset_less"], fields=flds, atomic_write=r["atomic"],
                                   write_from_dev=r["wfd"], name=r["name"], n=r["n"])
            setattr(per, "_" + r["name"], o)
            robjs.append(o)
        setattr(src, "bank%d" % bi, per)
        src.submodules += per
        objs.append(robjs)
    addr_of = {"bank%d" % bi: b["address"] for bi, b in enumerate(p["banks"])}
    top.submodules.src = src
    aws = p.get("shared_aw")
    top.submodules.arr = arr = csr_bus.CSRBankArray(src, lambda name, mem: addr_of.get(name), data_width=p["busword"], address_width=aws[0] if aws else 14,
                                                    paging=p["paging"], ordering=p["ordering"])
    if aws:
        masters = [csr_bus.Interface(data_width=p["busword"], address_width=a) for a in aws]
        top.submodules.ic = csr_bus.InterconnectShared(masters, arr.get_buses())
        return top, masters, objs, arr
    master = csr_bus.Interface(data_width=p["busword"], address_width=14)
    top.submodules.ic = csr_bus.Interconnect(master, arr.get_buses())
    return top, [master], objs, arr


class Driver(Agent):
    def __init__(self, masters, objs, p, steps):
        self.masters, self.objs, self.p, self.steps = masters, objs, p, steps
        self.reads = ()
        self.prev_we = []
        self.n = 0

    def done(self):
        return self.n > len(self.steps) + 3

    def step(self, v, t, w):
        self.n = t
        for m in self.masters:         # (a master that is not accessing drives zeros: InterconnectShared ORs the masters together)
            w(m.we, 0)
            w(m.re, 0)
            w(m.adr, 0)
            w(m.dat_w, 0)
        for o in self.prev_we:
            w(o.we, 0)
        self.prev_we = []
        if t >= len(self.steps):
            return
        st = self.steps[t]
        if "bus" in st:
            b = st["bus"]
            m = self.masters[st.get("m", 0)]
            w(m.adr, b[1])
            if b[0] == "w":
                w(m.we, 1)
                w(m.dat_w, b[2])
            else:
                w(m.re, 1)
        for d in st.get("dev", ()):
            o = self.objs[d[0]][d[1]]
            if d[2] == "status":
                w(o.status, d[3])
            elif d[2] == "field":
                rg = self.p["banks"][d[0]]["regs"][d[1]]
                w(getattr(o.fields, rg["fields"][d[3]]["name"]), d[4])
            elif d[2] == "w":
                w(o.w, d[3])
            elif d[2] == "we":
                w(o.we, 1)
                w(o.dat_w, d[3])
                self.prev_we.append(o)


def run(scn):
    if scn.get("family") == "mem":
        from props import c12_mem
        return c12_mem.run(scn)
    p = scn["params"]
    bw = p["busword"]
    lay = layout(p)
    top, masters, objs, arr = build(p)
    master = masters[0]
    viols = []

    def V(cls, obs, msg, cycle=None):
        if len(viols) < 4:
            viols.append({"prop": "C12", "cls": cls, "observable": obs, "msg": msg, "cycle": cycle})
    # layout check against the DUT's bank contents (names only)
    bank_by_name = {name: rmap for name, csrs, mapaddr, rmap in arr.banks}
    for bi, L in enumerate(lay):
        rmap = bank_by_name.get("bank%d" % bi)
        exp = []
        for wd in L["words"]:
            if wd is None:
                exp.append(None)
                continue
            r = p["banks"][bi]["regs"][wd["reg"]]
            nw = 1 if r["kind"] == "csr" else -(-r["size"] // bw)
            if r["kind"] == "csr":
                exp.append(r["name"])
            elif r["kind"] == "status":
                exp.append("%s%s" % (r["name"], str(wd["i"]) if nw > 1 else ""))
            else:
                exp.append("%s%d" % (r["name"], wd["i"]) if nw > 1 else r["name"])
        got = [c.name for c in rmap.simple_csrs]
        ok = len(got) == len(exp) and all(e is None or e == g or (e + "0" == g) for e, g in zip(exp, got))
        if not ok:
            V("layout", "bank%d" % bi, "bank word layout %s differs from the documented layout %s" % (got, exp))
            return {"violations": viols, "digest": "layout", "stats": {"checks": 1}}
    # observables
    sigs = [master.adr, master.we, master.re, master.dat_w, master.dat_r]
    index = {}

    def add(key, sig):
        index[key] = len(sigs)
        sigs.append(sig)
    for bi, b in enumerate(p["banks"]):
        for ri, r in enumerate(b["regs"]):
            o = objs[bi][ri]
            if r["kind"] == "csr":
                for nm in ("re", "r", "we", "w"):
                    add((bi, ri, nm), getattr(o, nm))
            elif r["kind"] == "status":
                add((bi, ri, "status"), o.status)
                add((bi, ri, "we"), o.we)
                add((bi, ri, "re"), o.re)
                if not r["read_only"]:
                    add((bi, ri, "r"), o.r)
                for f in (r.get("fields") or []):
                    add((bi, ri, "fld", f["name"]), getattr(o.fields, f["name"]))
            else:
                add((bi, ri, "storage"), o.storage)
                add((bi, ri, "re"), o.re)
                if r["wfd"]:
                    add((bi, ri, "dwe"), o.we)
                    add((bi, ri, "ddat"), o.dat_w)
                for f in (r.get("fields") or []):
                    add((bi, ri, "fld", f["name"]), getattr(o.fields, f["name"]))
    rows = []
    bench = Bench(wrap_top(top), max_cycles=len(scn["steps"]) + 12, tail=2, fingerprint=False)
    bench.add(Driver(masters, objs, p, scn["steps"]))
    if len(masters) > 1:
        # the access of a cycle is whatever the active master presents (the other one drives zeros); both masters must see the same read data
        m1 = masters[1]
        extra = [m1.adr, m1.we, m1.re, m1.dat_w, m1.dat_r]
        n0 = len(sigs)

        def rec(t, row):
            a = list(row[:n0])
            e = row[n0:]
            if e[4] != a[4]:
                V("read_data", "bus.dat_r", "cycle %d: the two masters of the shared interconnect see different read data (%#x / %#x)" % (t, a[4], e[4]), t)
            for i_ in range(4):
                a[i_] |= e[i_]
            rows.append(a)
        bench.add(PortRecorder(sigs + extra, rec))
    else:
        bench.add(PortRecorder(sigs, lambda t, row: rows.append(row)))
    bench.run()
    # ---- model
    apg = p["paging"] // 4
    mask = lambda n: (1 << n) - 1  # noqa
    st = {}
    for bi, b in enumerate(p["banks"]):
        for ri, r in enumerate(b["regs"]):
            if r["kind"] == "storage":
                rst = r["reset"]
                for f in (r.get("fields") or []):
                    rst |= f["reset"] << f["offset"]
                st[(bi, ri)] = {"storage": rst, "back": 0, "re": 0}
            elif r["kind"] == "status":
                st[(bi, ri)] = {"re": 0, "r": 0}
    exp_dat_r = 0
    checks = 0
    races = foreign = multi = readback = 0
    for k, row in enumerate(rows):
        adr, we, re_, dat_w, dat_r = row[:5]
        g = lambda key: row[index[key]]  # noqa
        # ---- compare registered observables (state after the previous edge)
        checks += 1
        if dat_r != exp_dat_r:
            V("read_data", "bus.dat_r", "cycle %d: dat_r=%#x expected %#x (address presented in the previous cycle: %#x)"
              % (k, dat_r, exp_dat_r, rows[k - 1][0] if k else 0), k)
            break
        bad = False
        for (bi, ri), s in st.items():
            r = p["banks"][bi]["regs"][ri]
            if r["kind"] == "storage":
                checks += 2
                if g((bi, ri, "storage")) != s["storage"]:
                    V("storage_value", r["name"], "cycle %d: %s.storage=%#x expected %#x" % (k, r["name"], g((bi, ri, "storage")), s["storage"]), k)
                    bad = True
                if g((bi, ri, "re")) != s["re"]:
                    V("strobe", r["name"] + ".re", "cycle %d: %s.re=%d expected %d" % (k, r["name"], g((bi, ri, "re")), s["re"]), k)
                    bad = True
                for f in (r.get("fields") or []):
                    fv = (s["storage"] >> f["offset"]) & mask(f["size"])
                    if f["pulse"] and not s["re"]:
                        fv = 0
                    checks += 1
                    if g((bi, ri, "fld", f["name"])) != fv:
                        V("field_value", "%s.%s" % (r["name"], f["name"]), "cycle %d: field %s.%s=%#x expected %#x (pulse=%s)"
                          % (k, r["name"], f["name"], g((bi, ri, "fld", f["name"])), fv, f["pulse"]), k)
                        bad = True
            else:
                checks += 1
                if g((bi, ri, "re")) != s["re"]:
                    V("strobe", r["name"] + ".re", "cycle %d: %s.re=%d expected %d" % (k, r["name"], g((bi, ri, "re")), s["re"]), k)
                    bad = True
                if not r["read_only"] and g((bi, ri, "r")) != s["r"]:
                    V("status_r", r["name"] + ".r", "cycle %d: %s.r=%#x expected %#x" % (k, r["name"], g((bi, ri, "r")), s["r"]), k)
                    bad = True
        if bad:
            break
        # ---- decode this cycle's access
        page, off = adr // apg, adr % apg
        hit = None
        for bi, b in enumerate(p["banks"]):
            if b["address"] == page and off < len(lay[bi]["words"]) and lay[bi]["words"][off] is not None:
                hit = (bi, lay[bi]["words"][off])
        if (we or re_) and hit is None:
            foreign += 1
        # ---- compare combinational strobes of this cycle
        for bi, b in enumerate(p["banks"]):
            for ri, r in enumerate(b["regs"]):
                mine = hit is not None and hit[0] == bi and hit[1]["reg"] == ri
                if r["kind"] == "csr":
                    e_re = int(bool(mine and we))
                    e_we = int(bool(mine and re_))
                    checks += 2
                    if g((bi, ri, "re")) != e_re or g((bi, ri, "we")) != e_we:
                        V("strobe", r["name"], "cycle %d: CSR %s re=%d we=%d expected re=%d we=%d (bus adr=%#x we=%d re=%d)"
                          % (k, r["name"], g((bi, ri, "re")), g((bi, ri, "we")), e_re, e_we, adr, we, re_), k)
                        bad = True
                    if e_re and g((bi, ri, "r")) != dat_w & mask(r["size"]):
                        V("write_data", r["name"] + ".r", "cycle %d: CSR %s.r=%#x expected %#x" % (k, r["name"], g((bi, ri, "r")), dat_w & mask(r["size"])), k)
                        bad = True
                elif r["kind"] == "status":
                    e_we = int(bool(mine and re_ and hit[1]["last"]))
                    checks += 1
                    if g((bi, ri, "we")) != e_we:
                        V("strobe", r["name"] + ".we", "cycle %d: status %s.we=%d expected %d" % (k, r["name"], g((bi, ri, "we")), e_we), k)
                        bad = True
        if bad:
            break
        # ---- next state
        nxt_dat_r = 0
        if hit is not None:
            bi, wd = hit
            ri = wd["reg"]
            r = p["banks"][bi]["regs"][ri]
            if r["kind"] == "csr":
                nxt_dat_r = g((bi, ri, "w"))
            elif r["kind"] == "status":
                nxt_dat_r = (g((bi, ri, "status")) >> wd["lo"]) & mask(wd["nbits"])
            else:
                nxt_dat_r = (st[(bi, ri)]["storage"] >> wd["lo"]) & mask(wd["nbits"])
            if re_:
                readback += 1
        for (bi, ri), s in st.items():
            r = p["banks"][bi]["regs"][ri]
            mine = hit is not None and hit[0] == bi and hit[1]["reg"] == ri and we
            wd = hit[1] if mine else None
            if r["kind"] == "storage":
                new = s["storage"]
                dev = r["wfd"] and g((bi, ri, "dwe"))
                if dev:
                    new = g((bi, ri, "ddat")) & mask(r["size"])
                    if mine:
                        races += 1
                nw = -(-r["size"] // bw)
                if mine:
                    val = dat_w & mask(wd["nbits"])
                    if nw > 1:
                        multi += 1
                    if r["atomic"] and nw > 1:
                        if wd["last"]:
                            full = s["back"] & ~(mask(wd["nbits"]) << wd["lo"]) | (val << wd["lo"])
                            new = full & mask(r["size"])
                        else:
                            s["back"] = s["back"] & ~(mask(wd["nbits"]) << wd["lo"]) | (val << wd["lo"])
                    else:
                        new = new & ~(mask(wd["nbits"]) << wd["lo"]) | (val << wd["lo"])
                s["storage"] = new
                s["re"] = int(bool(mine and wd["last"]))
            else:
                s["re"] = int(bool(mine and wd["last"]))
                if mine and not r["read_only"]:
                    s["r"] = s["r"] & ~(mask(wd["nbits"]) << wd["lo"]) | ((dat_w & mask(wd["nbits"])) << wd["lo"])
        exp_dat_r = nxt_dat_r
    stats = {"cycles": bench.cycle["sys"], "checks": checks, "nontrivial": bool(multi and readback and (races or foreign)),
             "faults": {"dev_write_race": races, "foreign_address_access": foreign},
             "probes": {"multiword_writes": multi, "reads": readback, "busword_%d" % bw: 1, "ordering_" + p["ordering"]: 1, "shared_two_masters": int("shared_aw" in p)}}
    return {"violations": viols, "digest": bench.digest() if bench.log else __import__("hashlib").sha256(repr(rows[:200]).encode()).hexdigest()[:16],
            "stats": stats}


def known_match(scn, v):
    p = scn.get("params", {})
    if p.get("ordering") == "little" and v["cls"] in ("storage_value", "field_value", "read_data"):
        for b in p["banks"]:
            for r in b["regs"]:
                if r["kind"] == "storage" and r.get("atomic") and -(-r["size"] // p["busword"]) > 1:
                    return "C12-F1"
    return None
