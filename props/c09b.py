"""C09 part 2: bridges with an AXI4-full side (AXI2AXILite, AXI2Wishbone, AXILite2AXI, Wishbone2AXI) and AHB2Wishbone."""
from dsim.kernel import Bench, wrap_top, Agent
from dsim.axil_agents import AXILMaster, AXILSlave
from dsim.axi_agents import AXIMaster, AXISlave, beat_addresses
from dsim.wb_agents import WBMaster, WBSlave, PortRecorder, CombSlave


def hb(b):
    return ((b * 2246822519) >> 9) & 0xff


class AHBMaster(Agent):
    """Single (NONSEQ) AHB transfers: address phase one cycle while readyout is high, then data phase until readyout."""

    def __init__(self, bus, ops, name="m"):
        self.bus, self.ops, self.name = bus, ops, name
        self.reads = (bus.readyout, bus.rdata, bus.resp)
        self.idx = 0
        self.state = "idle"
        self.gap = ops[0].get("gap", 0) if ops else 0
        self.results = []
        self.wait = 0

    def done(self):
        return self.idx >= len(self.ops)

    def step(self, v, t, w):
        b = self.bus
        if self.state == "addr":
            # address phase was on the bus in the cycle that ends now; it is accepted when readyout was high
            if v[b.readyout]:
                w(b.trans, 0)
                w(b.wdata, self.ops[self.idx]["data"])
                self.state = "data_wait"
            return
        if self.state == "data_wait":
            # first cycle of the data phase: readyout is registered low by the bridge while it works
            self.state = "data"
            return
        if self.state == "data":
            if v[b.readyout]:
                self.results.append({"op": self.idx, "done": t, "rdata": v[b.rdata], "resp": v[b.resp]})
                self.bench.event(self.name, "done", t, self.idx, v[b.rdata])
                self.idx += 1
                self.state = "idle"
                self.gap = self.ops[self.idx].get("gap", 0) if self.idx < len(self.ops) else 0
            else:
                self.wait += 1
                return
        if self.state == "idle" and self.idx < len(self.ops):
            if self.gap > 0:
                self.gap -= 1
                return
            o = self.ops[self.idx]
            w(b.sel, 1)
            w(b.trans, 2)
            w(b.addr, o["addr"])
            w(b.size, o["size"])
            w(b.write, o["write"])
            self.state = "addr"


def run(scn):
    from migen import Module
    from litex.soc.interconnect import wishbone, axi, ahb
    p = scn["params"]
    fam = scn["family"]
    top = Module()
    viols = []

    def V(cls, obs, msg, cycle=None):
        if len(viols) < 5:
            viols.append({"prop": "C09", "cls": cls, "observable": obs, "msg": msg, "cycle": cycle})
    ops = scn["ops"]
    bench = None
    store_byte = None
    wb_mon_bus = None
    if fam in ("axi2axil", "axi2wb"):
        mb = axi.AXIInterface(data_width=32, address_width=32, id_width=4)
        if fam == "axi2axil":
            sb = axi.AXILiteInterface(data_width=32, address_width=32)
            top.submodules.dut = axi.AXI2AXILite(mb, sb)
        else:
            wb = wishbone.Interface(data_width=32, adr_width=30)
            top.submodules.dut = axi.AXI2Wishbone(mb, wb)
            wb_mon_bus = wb
        nbeats = sum(o["len"] + 1 for o in ops)
        bench = Bench(wrap_top(top), max_cycles=nbeats * 60 + 600, tail=8, fingerprint=False)
        ma = bench.add(AXIMaster(mb, ops, name="m", max_out=scn["max_out"], bready=scn["bready"], rready=scn["rready"], hazard_key=lambda a: a >> 2))
        if fam == "axi2axil":
            sc = scn["slave"]
            sa = bench.add(AXILSlave(sb, name="s", awready=sc["aw"], wready=sc["w"], arready=sc["ar"], lat=sc["lat"], depth=sc["depth"],
                                     read_data=lambda a: sum(hb(a + i) << (8 * i) for i in range(4)), memory=True, ar_with_r=sc.get("ar_with_r", False)))
            store_byte = lambda b_: (sa._rdata(b_ & ~3) >> (8 * (b_ & 3))) & 0xff  # noqa
        else:
            if scn.get("comb_slave"):
                sa = bench.add(CombSlave(top, wb, 12, lambda a: sum(hb(a * 4 + i) << (8 * i) for i in range(4)), scn["comb_slave"]))
            else:
                sa = bench.add(WBSlave(wb, scn["lat"], name="s", init=lambda a: sum(hb(a * 4 + i) << (8 * i) for i in range(4))))
            store_byte = lambda b_: (sa.read_word(b_ >> 2) >> (8 * (b_ & 3))) & 0xff  # noqa
    elif fam == "axil2axi":
        mb = axi.AXILiteInterface(data_width=32, address_width=32)
        sb = axi.AXIInterface(data_width=32, address_width=32, id_width=4)
        top.submodules.dut = axi.AXILite2AXI(mb, sb)
        bench = Bench(wrap_top(top), max_cycles=len(ops) * 60 + 400, tail=8, fingerprint=False)
        ma = bench.add(AXILMaster(mb, ops, name="m", max_out=scn["max_out"], bready=scn["bready"], rready=scn["rready"], hazard=True))
        sc = scn["slave"]
        sa = bench.add(AXISlave(sb, name="s", awready=sc["aw"], wready=sc["w"], arready=sc["ar"], lat=sc["lat"], depth=sc["depth"], init=hb,
                                err_range=(0x400, 1 << 32) if p.get("err") else None))
        store_byte = sa.rbyte
    elif fam == "wb2axi":
        wbm = wishbone.Interface(data_width=32, adr_width=30)
        sb = axi.AXIInterface(data_width=32, address_width=32, id_width=4)
        top.submodules.dut = axi.Wishbone2AXI(wbm, sb)
        bench = Bench(wrap_top(top), max_cycles=len(ops) * 60 + 400, tail=8, fingerprint=False)
        ma = bench.add(WBMaster(wbm, ops, name="m"))
        sc = scn["slave"]
        sa = bench.add(AXISlave(sb, name="s", awready=sc["aw"], wready=sc["w"], arready=sc["ar"], lat=sc["lat"], depth=sc["depth"], init=hb,
                                err_range=(0x400, 1 << 32) if p.get("err") else None))
        store_byte = sa.rbyte
    else:   # ahb2wb
        dw = p.get("dw", 32)
        nb = dw // 8
        lg = nb.bit_length() - 1
        hbus = ahb.AHBInterface(data_width=dw, address_width=32)
        wb = wishbone.Interface(data_width=dw, adr_width=32 - lg, addressing=p["addressing"])
        top.submodules.dut = ahb.AHB2Wishbone(hbus, wb)
        wb_mon_bus = wb
        bench = Bench(wrap_top(top), max_cycles=len(ops) * 40 + 300, tail=8, fingerprint=False)
        ma = bench.add(AHBMaster(hbus, ops))
        shift = 0 if p["addressing"] == "word" else lg
        if scn.get("comb_slave"):
            sa = bench.add(CombSlave(top, wb, 12, lambda a, shift=shift, nb=nb: sum(hb((a >> shift) * nb + i) << (8 * i) for i in range(nb)), scn["comb_slave"], shift=shift))
        else:
            sa = bench.add(WBSlave(wb, scn["lat"], name="s", init=lambda a, shift=shift, nb=nb: sum(hb((a >> shift) * nb + i) << (8 * i) for i in range(nb))))
        sa.key_shift = shift
        store_byte = lambda b_, shift=shift, nb=nb, lg=lg: (sa.read_word((b_ >> lg) << shift) >> (8 * (b_ & (nb - 1)))) & 0xff  # noqa
    if wb_mon_bus is not None:
        wbs = wb_mon_bus
        prev = [None]

        def mon(t, row):
            cyc, stb, we, adr, dat_w, sel, ack, err = row
            if stb and not cyc:
                bench.violate("wb_stb_without_cyc", "slave side", "cycle %d: stb high while cyc low" % t)
            cur = (cyc, stb, we, adr, sel, dat_w if we else 0)
            if prev[0] is not None and cur != prev[0]:
                bench.violate("wb_request_changed", "slave side", "cycle %d: request changed before ack: %r -> %r" % (t, prev[0], cur))
            prev[0] = cur if (cyc and stb and not ack and not err) else None
        bench.add(PortRecorder([wbs.cyc, wbs.stb, wbs.we, wbs.adr, wbs.dat_w, wbs.sel, wbs.ack, wbs.err], mon))
    bench.run()
    if bench.violation is not None:
        viols.append(dict(bench.violation.as_dict(), prop="C09"))
    checks = 0
    ref = {}
    raw = 0
    ntr = 0
    stalls = 0
    if fam in ("axi2axil", "axi2wb"):
        if not ma.done():
            V("no_response", "master", "%d/%d write bursts and %d/%d read bursts completed after %d cycles" % (ma.b_n, len(ma.writes), ma.r_n, len(ma.reads_), bench.cycle["sys"]))
        wi = ri = 0
        for o in ops:
            addrs = beat_addresses(o["addr"], o["len"], o["size"], o["burst"])
            if o["kind"] == "w":
                if wi < len(ma.b_log):
                    checks += 1
                    if ma.b_log[wi][1] != 0 or ma.b_log[wi][2] != o["id"]:
                        V("write_response", "master.b", "write burst #%d answered resp=%d id=%d (sent id %d)" % (wi, ma.b_log[wi][1], ma.b_log[wi][2], o["id"]))
                        break
                    for n, a in enumerate(addrs):
                        base = a & ~3
                        for i in range(4):
                            if (o["strb"][n] >> i) & 1:
                                ref[base + i] = (o["data"][n] >> (8 * i)) & 0xff
                wi += 1
            else:
                if ri < len(ma.r_log):
                    beats = ma.r_log[ri]
                    checks += 1
                    if len(beats) != o["len"] + 1 or not beats[-1][3] or any(x[3] for x in beats[:-1]):
                        V("read_beats", "master.r", "read burst #%d (len %d): %d beats, last flags %s" % (ri, o["len"], len(beats), [x[3] for x in beats]))
                        break
                    bad = False
                    for n, a in enumerate(addrs):
                        base = (a >> o["size"]) << o["size"]
                        lo = a if n == 0 else base
                        for b_ in range(lo, base + (1 << o["size"])):
                            exp = ref.get(b_, hb(b_))
                            got = (beats[n][1] >> (8 * (b_ & 3))) & 0xff
                            checks += 1
                            raw += b_ in ref
                            if got != exp:
                                V("read_data", "master.r", "read burst #%d beat %d byte %#x: got %#04x expected %#04x (%s)" % (ri, n, b_, got, exp, "written earlier" if b_ in ref else "initial"))
                                bad = True
                                break
                        if bad:
                            break
                        if beats[n][2] != 0 or beats[n][4] != o["id"]:
                            V("read_response", "master.r", "read burst #%d beat %d resp=%d id=%d (sent id %d)" % (ri, n, beats[n][2], beats[n][4], o["id"]))
                            bad = True
                            break
                    if bad:
                        break
                ri += 1
        for (t, ch, what) in ma.proto[:2]:
            V("protocol_master_side", "master." + ch, "cycle %d: %s" % (t, what), t)
        ntr, stalls = ma.b_n + ma.r_n, ma.stall
    elif fam == "axil2axi":
        if not ma.done():
            V("no_response", "master", "%d/%d writes and %d/%d reads answered after %d cycles" % (ma.b_n, len(ma.writes), ma.r_n, len(ma.reads_), bench.cycle["sys"]))
        wi = ri = 0
        for o in ops:
            if o["kind"] == "w":
                if wi < len(ma.log["b"]):
                    checks += 1
                    e_ = bool(p.get("err")) and o["addr"] >= 0x400
                    if ma.log["b"][wi][1] != (2 if e_ else 0):
                        V("write_response", "master.b", "write #%d addr %#x answered resp=%d, the AXI slave answered %s" % (wi, o["addr"], ma.log["b"][wi][1], "SLVERR" if e_ else "OKAY"))
                        break
                    for i in range(4):
                        if (o["strb"] >> i) & 1 and not e_:
                            ref[o["addr"] + i] = (o["data"] >> (8 * i)) & 0xff
                wi += 1
            else:
                if ri < len(ma.log["r"]):
                    _, data, resp = ma.log["r"][ri]
                    if p.get("err") and o["addr"] >= 0x400:
                        checks += 1
                        if resp != 2:
                            V("read_response", "master.r", "read #%d addr %#x answered resp=%d, the AXI slave answered SLVERR" % (ri, o["addr"], resp))
                            break
                        ri += 1
                        continue
                    for i in range(4):
                        exp = ref.get(o["addr"] + i, hb(o["addr"] + i))
                        checks += 1
                        raw += (o["addr"] + i) in ref
                        if (data >> (8 * i)) & 0xff != exp or resp:
                            V("read_data", "master.r", "read #%d addr %#x lane %d: got %#04x expected %#04x resp=%d" % (ri, o["addr"], i, (data >> (8 * i)) & 0xff, exp, resp))
                            break
                    else:
                        ri += 1
                        continue
                    break
                ri += 1
        for (t, ch, what) in ma.proto[:2]:
            V("protocol_master_side", "master." + ch, "cycle %d: %s" % (t, what), t)
        ntr, stalls = ma.b_n + ma.r_n, sum(ma.stall.values())
    elif fam == "wb2axi":
        if not ma.done():
            V("no_response", "master", "operation #%d not terminated after %d cycles" % (ma.idx, bench.cycle["sys"]))
        for r in ma.results:
            o = ops[r["op"]]
            checks += 1
            e_ = bool(p.get("err")) and o["adr"] * 4 >= 0x400
            if bool(r["err"]) != e_:
                V("wb_error_propagation", "master", "op #%d %r terminated with err=%d, the AXI slave answered %s" % (r["op"], o, r["err"], "SLVERR" if e_ else "OKAY"))
                break
            if e_:
                continue
            for i in range(4):
                if not (o["sel"] >> i) & 1:
                    continue
                b_ = o["adr"] * 4 + i
                if o["we"]:
                    ref[b_] = (o["dat"] >> (8 * i)) & 0xff
                else:
                    exp = ref.get(b_, hb(b_))
                    checks += 1
                    raw += b_ in ref
                    if (r["dat_r"] >> (8 * i)) & 0xff != exp:
                        V("read_data", "master", "op #%d read %#x lane %d: got %#04x expected %#04x" % (r["op"], o["adr"], i, (r["dat_r"] >> (8 * i)) & 0xff, exp))
                        break
            else:
                continue
            break
        ntr, stalls = len(ma.results), ma.wait_cycles
    else:
        if not ma.done():
            V("no_response", "master", "AHB transfer #%d not completed after %d cycles" % (ma.idx, bench.cycle["sys"]))
        for r in ma.results:
            o = ops[r["op"]]
            nbytes = 1 << o["size"]
            checks += 1
            if r["resp"]:
                V("ahb_resp", "master", "transfer #%d answered with an error response" % r["op"])
                break
            lm = p.get("dw", 32) // 8 - 1
            for b_ in range(o["addr"], o["addr"] + nbytes):
                if o["write"]:
                    ref[b_] = (o["data"] >> (8 * (b_ & lm))) & 0xff
                else:
                    exp = ref.get(b_, hb(b_))
                    checks += 1
                    raw += b_ in ref
                    if (r["rdata"] >> (8 * (b_ & lm))) & 0xff != exp:
                        V("read_data", "master", "AHB read #%d addr %#x size %d byte %#x: got %#04x expected %#04x" % (r["op"], o["addr"], o["size"], b_, (r["rdata"] >> (8 * (b_ & lm))) & 0xff, exp))
                        break
            else:
                continue
            break
        ntr, stalls = len(ma.results), ma.wait
    if hasattr(sa, "proto"):
        for (t, ch, what) in sa.proto[:2]:
            V("protocol_slave_side", "slave." + ch, "cycle %d: %s" % (t, what), t)
    if hasattr(sa, "errors"):
        for (t, what) in sa.errors[:2]:
            V("burst_structure", "slave.w", "cycle %d: %s" % (t, what), t)
    if not viols:
        for b_, val in ref.items():
            checks += 1
            if store_byte(b_) != val:
                V("store_content", "slave memory", "store byte %#x holds %#04x, reference %#04x" % (b_, store_byte(b_), val))
                break
    stats = {"cycles": bench.cycle["sys"], "checks": checks, "nontrivial": bool(raw and stalls and ntr >= 6),
             "faults": {"stall_cycles": stalls}, "probes": {"transactions": ntr, "read_after_write_lanes": raw, "fam_" + fam: 1}}
    return {"violations": viols, "digest": bench.digest(), "stats": stats}
