"""C10 - AXI bursts are expanded and resized according to the AXI address rules.

Families: b2b_enum (AXIBurst2Beat: enumerated (address, len, size, type) x literal stall patterns),
b2b (seeded bursts, all capability sets, garbage while idle), conv (AXIUpConverter / AXIDownConverter /
AXIConverter ratios 2/4/8 between an AXI burst master and an AXI memory slave that expands bursts with its
own implementation of the AMBA equations)."""
from dsim import prng
from dsim.kernel import Bench, wrap_top
from dsim.stream_agents import Producer, Consumer
from dsim.axi_agents import AXIMaster, AXISlave, beat_addresses, FIXED, INCR, WRAP

PROPERTY = "C10"
LEVEL = "fault_enumeration"
RULE = ("b2b_enum: every legal burst of the grid addr in {boundary-biased low 12 bits}, len in {0..17,31,63,127,255} (WRAP: 1,3,7,15), "
        "size 0..3, type FIXED/INCR/WRAP is pushed through the real AXIBurst2Beat under four literal stall patterns (none, "
        "alternate, stall on the first/last beat, seeded); b2b: seeded bursts incl. reduced capability sets and idle garbage; "
        "conv: seeded supported bursts through the real converters against a reference AXI memory slave. Oracle: beat "
        "addresses at transfer-size granularity == AMBA equations, len+1 beats, first/last on the ends, id kept, request "
        "consumed once; converters: byte memory + all R beats with last on the final one. Non-trivial = at least one multi-"
        "beat WRAP or INCR burst was stalled mid-burst; distinct = distinct event-log digest")
ASSUMPTIONS = [
    "legal bursts only: WRAP aligned to its size with 2/4/8/16 beats, INCR not crossing a 4 KiB boundary",
    "converters are driven with what they support: full-width transfers (size = master bus width), INCR (FIXED with one beat), "
    "start address aligned to the narrow bus; up-conversion additionally wide-aligned start and (len+1) a multiple of the "
    "ratio; WRAP through the converters is not generated",
    "the reference slave's address expansion (dsim/axi_agents.beat_addresses) is written from the AMBA AXI4 specification",
]
COMPONENTS = {"real": ["litex.soc.interconnect.axi.axi_full.AXIBurst2Beat/AXIUpConverter/AXIDownConverter/AXIConverter",
                       "litex.soc.interconnect.stream.StrideConverter", "litex.gen.sim.core.Simulator"],
              "stub": ["burst issuer / beat consumer (stream agents)", "AXI burst master and reference memory slave", "clock source"]}
CHUNK = 4

ADDRS = [0x000, 0x001, 0x002, 0x003, 0x004, 0x006, 0x008, 0x00c, 0x010, 0x01c, 0x020, 0x03c, 0x040, 0x07c, 0x080, 0x0fc, 0x400,
         0x7f8, 0xf00, 0xfc0, 0xff0, 0xff8, 0xffc]
LENS = list(range(0, 18)) + [31, 63, 127, 255]


def legal(addr, ln, size, burst):
    nbytes = 1 << size
    if burst == WRAP:
        return ln in (1, 3, 7, 15) and addr % nbytes == 0
    if burst == INCR:
        aligned = (addr >> size) << size
        return aligned + (ln + 1) * nbytes <= ((addr >> 12) + 1) << 12
    return True


def grid():
    out = []
    for burst in (FIXED, INCR, WRAP):
        for size in range(8):           # AxSIZE 0..7: 1 to 128 bytes per transfer (the expansion does not depend on the bus width)
            for ln in LENS:
                for a in ADDRS:
                    if legal(a, ln, size, burst):
                        out.append((a, ln, size, burst))
    return out


_GRID = None


def the_grid():
    global _GRID
    if _GRID is None:
        _GRID = grid()
    return _GRID


PER_RUN = 24


SEEDED_SCALE = {"quick": 4, "thorough": 5}      # multiplies the run counts of the sampled families in plan()
ENUMERATED = ('b2b_enum', 'axsize')       # families whose size is the size of an enumeration

AXSIZE_BYTES = [1, 2, 4, 8, 16, 32, 64, 128]


def plan(tier):
    n_enum = -(-len(the_grid()) // PER_RUN)
    if tier == "quick":
        return [("b2b_enum", n_enum // 10), ("b2b", 60), ("conv", 80), ("axsize", len(AXSIZE_BYTES))]
    return [("b2b_enum", n_enum * 4), ("b2b", 4000), ("conv", 5000), ("axsize", len(AXSIZE_BYTES))]


def stall_pattern(kind, n, rng):
    if kind == 0:
        return "1" * n
    if kind == 1:
        return "10" * (n // 2 + 1)
    if kind == 2:
        return "0" + "1" * 6 + "0" + "1" * n
    return prng.pattern(rng, n, 0.6)


def generate_indexed(family, index, rng, tier):
    if family == "axsize":
        # a burst whose AxSIZE is taken from the repository's own table of transfer sizes (axi_common.AXSIZE[bytes]), as a user of the
        # table builds it: the beats must advance by that many bytes
        nbytes = AXSIZE_BYTES[index % len(AXSIZE_BYTES)]
        return {"family": family, "params": {"caps": [0, 1, 2]}, "nbytes": nbytes, "addr": 0x3000, "len": 3,
                "src_pattern": "1" * 10, "dst_pattern": stall_pattern(index % 4, 60, rng), "garbage": None}
    if family == "b2b_enum":
        g = the_grid()
        n_enum = -(-len(g) // PER_RUN)
        if tier == "quick":
            chunk = (index * 10 + 3) % n_enum
            kind = index % 4
        else:
            chunk, kind = index % n_enum, index // n_enum
        bursts = g[chunk * PER_RUN:(chunk + 1) * PER_RUN]
        nb = sum(b[1] + 1 for b in bursts)
        return {"family": family, "params": {"caps": [0, 1, 2]},
                "bursts": [{"addr": 0x3000 + a, "len": ln, "size": size, "burst": burst, "id": (i * 7 + 1) & 0xff} for i, (a, ln, size, burst) in enumerate(bursts)],
                "src_pattern": "1" * 10, "dst_pattern": stall_pattern(kind, 2 * nb + 50, rng), "garbage": None, "stall_kind": kind}
    if family == "b2b":
        caps = rng.choice([[0, 1, 2], [0, 1, 2], [0, 1], [0]])
        bursts = []
        for i in range(rng.randint(3, 12)):
            for _ in range(100):
                burst = rng.choice(caps)
                size = rng.randint(0, 3) if rng.random() < 0.6 else rng.randint(4, 7)
                ln = rng.choice([1, 3, 7, 15]) if burst == WRAP else rng.choice([0, 1, 2, 3, 5, 8, 15, 16, 40, 63, 127, 255])
                addr = (rng.getrandbits(20) << 12) | rng.choice(ADDRS + [rng.getrandbits(12)])
                if burst == WRAP:
                    addr = (addr >> size) << size
                if legal(addr, ln, size, burst):
                    bursts.append({"addr": addr, "len": ln, "size": size, "burst": burst, "id": rng.getrandbits(8)})
                    break
        nb = sum(b["len"] + 1 for b in bursts)
        return {"family": family, "params": {"caps": caps}, "bursts": bursts,
                "src_pattern": prng.pattern(rng, 200, rng.choice([1.0, 0.5, 0.2])),
                "dst_pattern": prng.pattern(rng, 2 * nb + 100, rng.choice([1.0, 0.7, 0.4])),
                "garbage": [rng.getrandbits(32) for _ in range(23)] if rng.random() < 0.6 else None}
    if family == "conv":
        ratio = rng.choice([2, 2, 4, 8])
        narrow = rng.choice([8, 16, 32]) if ratio < 8 else rng.choice([8, 16])
        down = rng.random() < 0.5
        dw_m, dw_s = (narrow * ratio, narrow) if down else (narrow, narrow * ratio)
        nbm = dw_m // 8
        size = (nbm - 1).bit_length()
        ops = []
        for j in range(rng.randint(6, 20)):
            if down:
                ln = rng.choice([0, 0, 1, 2, 3, 7]) if rng.random() < 0.93 else 256 // ratio - 1      # (the longest one: 256 narrow beats)
                start = rng.randrange(0, 8) * nbm + (rng.choice([0, 0, 1, 2, 3]) * (dw_s // 8)) % nbm
            else:
                ln = (rng.choice([1, 2, 3, 4, 8]) if rng.random() < 0.9 else 256 // ratio - rng.choice([0, 0, 1])) * ratio - 1   # (up to 256 beats)
                start = rng.randrange(0, 6) * (dw_s // 8)
            if ln > 255:
                continue
            op = {"kind": rng.choice(["w", "r"]), "addr": 0x1000 + start, "len": ln, "size": size, "burst": INCR, "id": 0,
                  "gap": rng.choice([0, 0, 1, 4])}
            if op["kind"] == "w":
                op["data"] = [rng.getrandbits(dw_m) for _ in range(ln + 1)]
                full = (1 << nbm) - 1
                op["strb"] = [full if rng.random() < 0.7 else rng.getrandbits(nbm) for _ in range(ln + 1)]
                # unaligned start: the lanes below the start address carry nothing in the first beat
                lowmask = (1 << (op["addr"] % nbm)) - 1
                op["strb"][0] &= ~lowmask
                op["wgaps"] = [rng.choice([0, 0, 1, 3]) for _ in range(4)]
            ops.append(op)
        return {"family": family, "params": {"dw_m": dw_m, "dw_s": dw_s, "wrapper": rng.random() < 0.5}, "ops": ops, "max_out": rng.choice([1, 1, 2]),
                "bready": prng.pattern(rng, 300, rng.choice([1.0, 0.6])), "rready": prng.pattern(rng, 300, rng.choice([1.0, 0.6, 0.3])),
                "slave": {"aw": prng.pattern(rng, 300, rng.choice([1.0, 0.7])), "w": prng.pattern(rng, 300, rng.choice([1.0, 0.7, 0.4])),
                          "ar": prng.pattern(rng, 300, rng.choice([1.0, 0.7])), "lat": [rng.choice([0, 1, 3, 6]) for _ in range(4)],
                          "depth": rng.choice([1, 2, 4])}}
    raise KeyError(family)


def generate(family, rng, tier):
    return generate_indexed(family, rng.randrange(10 ** 6), rng, tier)


def run(scn):
    if scn["family"] == "axsize":
        from litex.soc.interconnect.axi import axi_common
        n = scn["nbytes"]
        if n not in axi_common.AXSIZE:
            return {"violations": [], "digest": "axsize-%d-absent" % n, "stats": {"checks": 0, "probes": {"axsize_absent": 1}}}
        code = axi_common.AXSIZE[n]
        sub = dict(scn, family="b2b", bursts=[{"addr": scn["addr"], "len": scn["len"], "size": code, "burst": INCR, "id": 0x5a}])
        r = run_b2b(sub, step_bytes=n)
        r["stats"].setdefault("probes", {})["axsize_entries"] = 1
        return r
    if scn["family"] in ("b2b", "b2b_enum"):
        return run_b2b(scn)
    return run_conv(scn)


def run_b2b(scn, step_bytes=None):
    from litex.soc.interconnect import axi
    from litex.soc.interconnect.axi.axi_full import ax_description
    caps = set(scn["params"]["caps"])
    ax_burst = axi.AXIStreamInterface(layout=ax_description(32), id_width=8)
    ax_beat = axi.AXIStreamInterface(layout=ax_description(32), id_width=8)
    dut = axi.AXIBurst2Beat(ax_burst, ax_beat, capabilities=caps)
    bursts = scn["bursts"]
    toks = [{"addr": b["addr"], "len": b["len"], "size": b["size"], "burst": b["burst"], "id": b["id"], "first": 0, "last": 0} for b in bursts]
    nb = sum(b["len"] + 1 for b in bursts)
    bench = Bench(wrap_top(dut), max_cycles=len(scn["dst_pattern"]) + len(scn["src_pattern"]) + 2 * nb + 200, tail=6, fingerprint=False)
    prod = bench.add(Producer(ax_burst, toks, scn["src_pattern"], scn.get("garbage"), name="burst"))
    cons = Consumer(ax_beat, scn["dst_pattern"], name="beat", check_stability=True)
    cons.quiet = 40
    bench.add(cons)
    bench.run()
    viols = []

    def V(cls, obs, msg, cycle=None):
        if len(viols) < 4:
            viols.append({"prop": "C10", "cls": cls, "observable": obs, "msg": msg, "cycle": cycle})
    if bench.violation is not None:
        viols.append(dict(bench.violation.as_dict(), prop="C10"))
    got = cons.got
    k = 0
    checks = 0
    stalled_multi = 0
    for bi, b in enumerate(bursts):
        eff = b["burst"] if b["burst"] in caps else FIXED      # a core without the capability treats the burst as FIXED
        exp = beat_addresses(b["addr"], b["len"], b["size"], eff)
        if step_bytes is not None:
            # (family axsize) the size code came from the repository's table for `step_bytes` bytes per transfer
            want = [b["addr"] + i * step_bytes for i in range(b["len"] + 1)]
            checks += 1
            if exp != want:
                V("axsize_table", "axi_common.AXSIZE", "AXSIZE[%d] = %s: a 4-beat INCR burst with that AxSIZE advances by %d bytes per beat (AMBA: AxSIZE = log2(bytes)), "
                  "the table promises %d" % (step_bytes, bin(b["size"]), 1 << b["size"], step_bytes))
        for n, a in enumerate(exp):
            if k >= len(got):
                V("beats_missing", "ax_beat", "burst #%d %r: %d of %d beats delivered" % (bi, b, n, len(exp)))
                break
            tg, g = got[k]
            checks += 4
            if (g["addr"] >> b["size"]) != (a >> b["size"]):
                V("beat_address", "ax_beat.addr", "burst #%d %r beat %d: addr %#x (>>size %#x), AMBA says %#x" % (bi, b, n, g["addr"], g["addr"] >> b["size"], a), tg)
                break
            if g["first"] != int(n == 0) or g["last"] != int(n == len(exp) - 1):
                V("beat_markers", "ax_beat", "burst #%d %r beat %d of %d: first=%d last=%d" % (bi, b, n, len(exp), g["first"], g["last"]), tg)
                break
            if g["id"] != b["id"]:
                V("beat_id", "ax_beat.id", "burst #%d beat %d: id %#x expected %#x" % (bi, n, g["id"], b["id"]), tg)
                break
            k += 1
        else:
            continue
        break
    if not viols and k < len(got):
        V("beats_invented", "ax_beat", "%d beats delivered, %d expected" % (len(got), k))
    if not viols and not prod.done():
        V("burst_not_consumed", "ax_burst", "%d of %d burst requests consumed" % (prod.idx, len(toks)))
    # each request consumed exactly once: acceptance of burst i coincides with the delivery of its last beat
    if not viols:
        ends = [tg for tg, g in got if g["last"]]
        accs = [t for t, _ in prod.accepted]
        checks += len(accs)
        if accs != ends[:len(accs)]:
            V("request_consumption", "ax_burst", "burst requests accepted at cycles %s, last beats delivered at %s" % (accs[:6], ends[:6]))
    stats = {"cycles": bench.cycle["sys"], "checks": checks + cons.stability_armed,
             "nontrivial": bool(cons.stall_cycles and any(b["len"] > 0 and b["burst"] != FIXED for b in bursts)),
             "faults": {"stall_dst": cons.stall_cycles, "stall_src": prod.paused_cycles},
             "probes": {"bursts": len(bursts), "beats": len(got), "wrap_bursts": sum(1 for b in bursts if b["burst"] == WRAP)}}
    return {"violations": viols, "digest": bench.digest(), "stats": stats}


def hb(b):
    return ((b * 2654435761) >> 11) & 0xff


def run_conv(scn):
    from migen import Module
    from litex.soc.interconnect import axi
    p = scn["params"]
    mb = axi.AXIInterface(data_width=p["dw_m"], address_width=32, id_width=4)
    sb = axi.AXIInterface(data_width=p["dw_s"], address_width=32, id_width=4)
    top = Module()
    if p["wrapper"]:
        top.submodules.dut = axi.AXIConverter(mb, sb)
    elif p["dw_m"] > p["dw_s"]:
        top.submodules.dut = axi.AXIDownConverter(mb, sb)
    else:
        top.submodules.dut = axi.AXIUpConverter(mb, sb)
    ops = scn["ops"]
    nbm = p["dw_m"] // 8
    nbeats = sum(o["len"] + 1 for o in ops)
    bench = Bench(wrap_top(top), max_cycles=nbeats * 30 * max(p["dw_m"] // p["dw_s"], 1) + 600, tail=8, fingerprint=False)
    ma = bench.add(AXIMaster(mb, ops, name="m", max_out=scn["max_out"], bready=scn["bready"], rready=scn["rready"],
                             hazard_key=lambda a: a // nbm))
    sc = scn["slave"]
    sa = bench.add(AXISlave(sb, name="s", awready=sc["aw"], wready=sc["w"], arready=sc["ar"], lat=sc["lat"], depth=sc["depth"], init=hb))
    bench.run()
    viols = []

    def V(cls, obs, msg, cycle=None):
        if len(viols) < 4:
            viols.append({"prop": "C10", "cls": cls, "observable": obs, "msg": msg, "cycle": cycle})
    checks = 0
    if not ma.done():
        V("not_completed", "master", "%d/%d write bursts and %d/%d read bursts completed after %d cycles"
          % (ma.b_n, len(ma.writes), ma.r_n, len(ma.reads_), bench.cycle["sys"]))
    ref = {}
    wi = ri = 0
    for o in ops:
        addrs = beat_addresses(o["addr"], o["len"], o["size"], o["burst"])
        if o["kind"] == "w":
            if wi < len(ma.b_log):
                checks += 1
                if ma.b_log[wi][1] != 0:
                    V("write_response", "master.b", "write burst #%d answered resp=%d" % (wi, ma.b_log[wi][1]))
                    break
                for n, a in enumerate(addrs):
                    base = (a // nbm) * nbm
                    for i in range(nbm):
                        if (o["strb"][n] >> i) & 1:
                            ref[base + i] = (o["data"][n] >> (8 * i)) & 0xff
            wi += 1
        else:
            if ri < len(ma.r_log):
                beats = ma.r_log[ri]
                checks += 1
                if len(beats) != o["len"] + 1 or not beats[-1][3] or any(x[3] for x in beats[:-1]):
                    V("read_beats", "master.r", "read burst #%d (len %d): %d beats, last flags %s" % (ri, o["len"], len(beats), [x[3] for x in beats]))
                    break
                bad = False
                for n, a in enumerate(addrs):
                    base = (a // nbm) * nbm
                    lo = a if n == 0 else base
                    for b_ in range(lo, base + nbm):
                        exp = ref.get(b_, hb(b_))
                        got = (beats[n][1] >> (8 * (b_ % nbm))) & 0xff
                        checks += 1
                        if got != exp:
                            V("read_data", "master.r", "read burst #%d beat %d byte %#x: got %#04x expected %#04x (%s)"
                              % (ri, n, b_, got, exp, "written earlier" if b_ in ref else "initial"))
                            bad = True
                            break
                    if bad:
                        break
                    if beats[n][2] != 0:
                        V("read_response", "master.r", "read burst #%d beat %d resp=%d" % (ri, n, beats[n][2]))
                        bad = True
                        break
                if bad:
                    break
            ri += 1
    if not viols:
        for b_, val in ref.items():
            checks += 1
            if sa.rbyte(b_) != val:
                V("store_content", "slave memory", "byte %#x holds %#04x, reference %#04x" % (b_, sa.rbyte(b_), val))
                break
    for (t, what) in sa.errors[:2]:
        V("burst_structure", "slave.w", "cycle %d: %s" % (t, what), t)
    for (t, ch, what) in (sa.proto + ma.proto)[:2]:
        V("protocol", ch, "cycle %d: %s" % (t, what), t)
    # narrow-side bursts are legal AXI
    for e in sa.log["aw"] + sa.log["ar"]:
        t, addr, ln, size, burst, id_ = e
        checks += 1
        if not legal(addr, ln, size, burst) or (1 << size) > p["dw_s"] // 8:
            V("illegal_burst_issued", "slave side", "cycle %d: converter issued addr=%#x len=%d size=%d burst=%d on a %d-bit bus" % (t, addr, ln, size, burst, p["dw_s"]), t)
            break
    stats = {"cycles": bench.cycle["sys"], "checks": checks, "nontrivial": bool(ma.stall and ma.b_n + ma.r_n >= 4),
             "faults": {"stall_cycles": ma.stall}, "probes": {"bursts": ma.b_n + ma.r_n, "ratio_%d" % max(p["dw_m"] // p["dw_s"], p["dw_s"] // p["dw_m"]): 1}}
    return {"violations": viols, "digest": bench.digest(), "stats": stats}
