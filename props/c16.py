"""C16 - Packet framing: headers round-trip and packets are never interleaved or torn.

Families: Packetizer, Depacketizer, RoundTrip (Packetizer -> Depacketizer), PacketFIFO, Arbiter,
Dispatcher. Byte-level framing reference written from the Header definition; C04's stability and
progress oracles run on the same simulations (tagged C04)."""
from dsim import prng
from dsim.kernel import Bench, wrap_top
from dsim.stream_agents import Producer, Consumer, Controller
from props.streams import Probe, rand_val

PROPERTY = "C16"
ALSO = ()
LEVEL = "exploration"
RULE = ("one run = one real packet block (Packetizer, Depacketizer, both back to back, PacketFIFO, Arbiter with 1-4 "
        "masters, Dispatcher with 1-4 slaves) with a seeded header definition / data width / packet list and literal "
        "valid/ready (and selector) patterns; recorded output beats are compared with a byte-level framing reference "
        "built from the Header definition, with per-packet atomicity and destination checks. Non-trivial = both sides "
        "stalled at least once and at least one packet delivered; distinct = distinct handshake-log digest")
ASSUMPTIONS = [
    "packets have at least one payload beat; header fields are constant over the beats of a packet",
    "header length >= one data word (shorter headers are outside what Packetizer supports: listed finding if it hangs)",
    "with swap_field_bytes, fields wider than 8 bits are whole bytes",
    "PacketFIFO: packets are not longer than payload_depth (a longer packet can never be released: by construction)",
    "Dispatcher selector is steady between the offer and the acceptance of a first beat",
    "producers legal, agents registered partners; first is not carried by Packetizer/Depacketizer/PacketFIFO (masked)",
]
COMPONENTS = {"real": ["litex.soc.interconnect.packet.*", "litex.soc.interconnect.stream.SyncFIFO",
                       "migen.genlib.roundrobin.RoundRobin", "litex.gen.sim.core.Simulator"],
              "stub": ["producer/consumer/selector agents", "clock source", "tracer shim"]}
CHUNK = 6
FAMILY_NAMES = ["Packetizer", "Depacketizer", "RoundTrip", "PacketFIFO", "Arbiter", "Dispatcher"]


SEEDED_SCALE = {"quick": 2, "thorough": 1.5}      # multiplies the run counts of the sampled families in plan()

def plan(tier):
    n = 300 if tier == "quick" else 6000
    return [(f, n) for f in FAMILY_NAMES]


# ------------------------------------------------------------------------------------------------
# header model (reference, written from the Header definition)
# ------------------------------------------------------------------------------------------------

def draw_header(rng, dw):
    bpc = dw // 8
    kind = rng.random()
    if kind < 0.35:
        length = bpc * rng.choice([1, 1, 2, 3])                  # aligned
    elif kind < 0.9:
        length = bpc * rng.choice([1, 1, 2, 3]) + rng.randint(1, bpc - 1) if bpc > 1 else bpc * rng.randint(1, 4)
    else:
        length = rng.randint(1, 3 * bpc)
    length = max(length, bpc)
    length = min(length, 24)
    if length < bpc:
        length = bpc
    swap = rng.random() < 0.5
    # place fields on a bit map
    fields = []
    used = [False] * (length * 8)
    nf = rng.randint(1, 6)
    for i in range(nf):
        for _ in range(20):
            if swap:
                w = rng.choice([1, 2, 4, 8, 8, 16, 16, 32, 48])
            else:
                w = rng.choice([1, 2, 3, 4, 7, 8, 12, 16, 24, 32, 48, 64, 128])
            if w > length * 8:
                continue
            if w >= 8 and rng.random() < 0.8:
                start = 8 * rng.randint(0, (length * 8 - w) // 8)
            else:
                start = rng.randint(0, length * 8 - w)
            if any(used[start:start + w]):
                continue
            for b in range(start, start + w):
                used[b] = True
            fields.append(["h%d" % i, start // 8, start % 8, w])
            break
    return {"length": length, "swap": swap, "fields": fields}


def reverse_bytes(v, w):
    n = (w + 7) // 8
    out, sh = 0, 0
    for i in reversed(range(n)):
        bw = min(8, w - 8 * i)
        out |= ((v >> (8 * i)) & ((1 << bw) - 1)) << sh
        sh += bw
    return out


def header_int(hd, vals):
    h = 0
    for name, byte, off, w in hd["fields"]:
        v = vals[name]
        if hd["swap"]:
            v = reverse_bytes(v, w)
        h |= v << (byte * 8 + off)
    return h


def header_care(hd):
    m = 0
    for name, byte, off, w in hd["fields"]:
        m |= ((1 << w) - 1) << (byte * 8 + off)
    return m


def header_fields(hd, h):
    out = {}
    for name, byte, off, w in hd["fields"]:
        v = (h >> (byte * 8 + off)) & ((1 << w) - 1)
        if hd["swap"]:
            v = reverse_bytes(v, w)
        out[name] = v
    return out


def make_header(hd):
    from litex.soc.interconnect.packet import Header, HeaderField
    return Header({n: HeaderField(b, o, w) for n, b, o, w in hd["fields"]}, hd["length"], swap_field_bytes=hd["swap"])


def packetize_ref(hd, dw, fields, words):
    """-> list of (data, care mask, last)."""
    bpc = dw // 8
    H = hd["length"]
    stream_int = header_int(hd, fields)
    care = header_care(hd)     # bits of the header not covered by any field are zero in `header` (comb default)
    care = (1 << (H * 8)) - 1
    nbytes = H + len(words) * bpc
    for i, w in enumerate(words):
        stream_int |= w << ((H + i * bpc) * 8)
        care |= ((1 << dw) - 1) << ((H + i * bpc) * 8)
    if H % bpc == 0:
        nbeats = H // bpc + len(words)
    else:
        nbeats = H // bpc + len(words) + 1
    out = []
    for k in range(nbeats):
        d = (stream_int >> (k * dw)) & ((1 << dw) - 1)
        c = (care >> (k * dw)) & ((1 << dw) - 1)
        out.append((d, c, int(k == nbeats - 1)))
    return out


def depacketize_ref(hd, dw, words):
    """input data words of one packet -> (fields, [payload words]); None if no payload beat."""
    bpc = dw // 8
    H = hd["length"]
    s = 0
    for i, w in enumerate(words):
        s |= w << (i * dw)
    fields = header_fields(hd, s & ((1 << (H * 8)) - 1))
    hw, L = H // bpc, H % bpc
    if L == 0:
        nout = len(words) - hw
    else:
        nout = len(words) - hw - 1
    if nout < 1:
        return None
    out = [(s >> ((H + k * bpc) * 8)) & ((1 << dw) - 1) for k in range(nout)]
    return fields, out


# ------------------------------------------------------------------------------------------------
# generate
# ------------------------------------------------------------------------------------------------

def draw_packets(rng, n, dw, hd=None, maxlen=12, minlen=1):
    pk = []
    for _ in range(n):
        ln = rng.choice([minlen, minlen, 2, 3, 4, rng.randint(minlen, maxlen)])
        ln = max(ln, minlen)
        ln = min(ln, maxlen)
        f = {n_: rand_val(rng, w) for n_, _, _, w in hd["fields"]} if hd else {}
        pk.append({"fields": f, "words": [rand_val(rng, dw) for _ in range(ln)]})
    return pk


def generate(family, rng, tier):
    horizon = rng.choice([80, 200, 400])
    ps = rng.choice([0.1, 0.5, 0.9, 1.0, 0.5, 0.9])
    pd = rng.choice([0.1, 0.5, 0.9, 1.0, 0.5, 0.9])
    scn = {"family": family, "horizon": horizon,
           "garbage": [rng.getrandbits(16) for _ in range(61)] if rng.random() < 0.5 else None,
           "dst_tail": rng.choice([1, 1, 1, 2, 3])}
    if family in ("Packetizer", "Depacketizer", "RoundTrip"):
        dw = rng.choice([8, 16, 32, 32, 64, 128])
        hd = draw_header(rng, dw)
        p = {"dw": dw, "header": hd}
        npk = rng.randint(2, 7)
        bpc = dw // 8
        if family == "Depacketizer":
            hw = hd["length"] // bpc
            minlen = hw + (1 if hd["length"] % bpc == 0 else 2)
            pk = draw_packets(rng, npk, dw, None, maxlen=minlen + 8, minlen=minlen)
        else:
            pk = draw_packets(rng, npk, dw, hd, maxlen=10)
        scn.update(params=p, packets=[pk], src_patterns=[prng.pattern(rng, horizon, ps)],
                   dst_patterns=[prng.pattern(rng, horizon, pd)])
    elif family == "PacketFIFO":
        dw = rng.choice([8, 16, 32])
        depth = rng.choice([2, 3, 4, 8, 16])
        p = {"dw": dw, "payload_depth": depth, "param_depth": rng.choice([None, 1, 2, 4]),
             "buffered": rng.random() < 0.5, "params": rng.choice([[], [["p0", 8]], [["p0", 4], ["p1", 1]]])}
        npk = rng.randint(3, 10)
        pk = []
        for _ in range(npk):
            ln = rng.randint(1, depth)
            pk.append({"fields": {n_: rand_val(rng, w) for n_, w in p["params"]},
                       "words": [rand_val(rng, dw) for _ in range(ln)]})
        scn.update(params=p, packets=[pk], src_patterns=[prng.pattern(rng, horizon, ps)],
                   dst_patterns=[prng.pattern(rng, horizon, pd)])
    elif family == "Arbiter":
        n = rng.choice([1, 2, 2, 3, 4])
        p = {"dw": 16, "n": n}
        pks, pats = [], []
        for m in range(n):
            pk = []
            for k in range(rng.randint(2, 6)):
                ln = rng.choice([1, 1, 2, 3, 5, 8])
                pk.append({"fields": {}, "words": [(m << 12) | (k << 6) | i for i in range(ln)]})
            pks.append(pk)
            pats.append(prng.pattern(rng, horizon, rng.choice([0.1, 0.5, 0.9, 1.0])))
        scn.update(params=p, packets=pks, src_patterns=pats, dst_patterns=[prng.pattern(rng, horizon, pd)])
    elif family == "Dispatcher":
        n = rng.choice([1, 2, 2, 3, 4])
        one_hot = rng.random() < 0.5
        p = {"dw": 16, "n": n, "one_hot": one_hot}
        pk = []
        for k in range(rng.randint(3, 9)):
            ln = rng.choice([1, 1, 2, 3, 5, 8])
            pk.append({"fields": {}, "words": [(k << 6) | i for i in range(ln)]})
        # selector events: legal destinations mostly, occasionally "nowhere" (dropped by design)
        ev, t = [], 0
        while t < horizon:
            d = rng.randint(0, n - 1)
            val = (1 << d) if one_hot else d
            if rng.random() < 0.08 and (one_hot or n & (n - 1)) and n > 1:
                val = 0 if one_hot else (1 << (n - 1).bit_length()) - 1
                if not one_hot and val < n:
                    val = d
            ev.append([t, 0, val])
            t += rng.choice([1, 2, 3, 5, 10, 30])
        scn.update(params=p, packets=[pk], src_patterns=[prng.pattern(rng, horizon, ps)],
                   dst_patterns=[prng.pattern(rng, horizon, pd) for _ in range(n)], ctl=ev)
    return scn


# ------------------------------------------------------------------------------------------------
# build + run
# ------------------------------------------------------------------------------------------------

def _tokens(pk, data_field="data"):
    toks = []
    for p in pk:
        n = len(p["words"])
        for i, w in enumerate(p["words"]):
            t = {"first": int(i == 0), "last": int(i == n - 1), data_field: w}
            t.update(p["fields"])
            toks.append(t)
    return toks


def _split_packets(got):
    """[(cycle, token)] -> list of packets (list of (cycle, token)), incomplete tail returned separately."""
    pks, cur = [], []
    for c, t in got:
        cur.append((c, t))
        if t["last"]:
            pks.append(cur)
            cur = []
    return pks, cur


def run(scn):
    from migen import Module
    from litex.soc.interconnect import stream, packet
    fam = scn["family"]
    p = scn["params"]
    horizon = scn["horizon"]
    tailk = scn.get("dst_tail", 1)
    viol = []

    def V(prop, cls, obs, msg, cycle=None):
        viol.append({"prop": prop, "cls": cls, "observable": obs, "msg": msg, "cycle": cycle})
    dw = p["dw"]
    m = Module()
    ctl = []
    if fam in ("Packetizer", "Depacketizer", "RoundTrip"):
        hd = p["header"]
        header = make_header(hd)
        flds = [(n, w) for n, _, _, w in sorted(hd["fields"])]
        d_user = stream.EndpointDescription([("data", dw)], flds)
        d_raw = stream.EndpointDescription([("data", dw)])
        if fam == "Packetizer":
            m.submodules.dut = d = packet.Packetizer(d_user, d_raw, header)
            sinks, sources = [d.sink], [d.source]
        elif fam == "Depacketizer":
            m.submodules.dut = d = packet.Depacketizer(d_raw, d_user, header)
            sinks, sources = [d.sink], [d.source]
        else:
            m.submodules.pk = a = packet.Packetizer(d_user, d_raw, header)
            m.submodules.dpk = b = packet.Depacketizer(stream.EndpointDescription([("data", dw)]),
                                                       stream.EndpointDescription([("data", dw)], flds), header)
            m.comb += a.source.connect(b.sink)
            sinks, sources = [a.sink], [b.source]
    elif fam == "PacketFIFO":
        desc = stream.EndpointDescription([("data", dw)], [(n, w) for n, w in p["params"]])
        m.submodules.dut = d = packet.PacketFIFO(desc, p["payload_depth"], p["param_depth"], p["buffered"])
        sinks, sources = [d.sink], [d.source]
    elif fam == "Arbiter":
        masters = [stream.Endpoint([("data", dw)]) for _ in range(p["n"])]
        slave = stream.Endpoint([("data", dw)])
        m.submodules.dut = packet.Arbiter(list(masters), slave)
        sinks, sources = masters, [slave]
    elif fam == "Dispatcher":
        master = stream.Endpoint([("data", dw)])
        slaves = [stream.Endpoint([("data", dw)]) for _ in range(p["n"])]
        m.submodules.dut = d = packet.Dispatcher(master, list(slaves), one_hot=p["one_hot"])
        sinks, sources = [master], slaves
        ctl = [d.sel]
    toks = [_tokens(pk) for pk in scn["packets"]]
    ntok = sum(len(t) for t in toks)
    bound = horizon + (ntok * 3 + 96) * tailk * 2 + 64
    bench = Bench(wrap_top(m), max_cycles=bound)
    prods, conss = [], []
    for i, ep in enumerate(sinks):
        prods.append(bench.add(Producer(ep, toks[i], scn["src_patterns"][i], scn.get("garbage"), name="sink%d" % i,
                                        coop_from=horizon)))
    probe = None
    if ctl:
        probe = bench.add(Probe(ctl))
        ev = [e for e in scn.get("ctl", []) if e[0] < horizon]
        # cooperative tail: a steady, existing destination
        ev.append([horizon, 0, 1 if p.get("one_hot") else 0])
        bench.add(Controller(ctl, ev))
    for i, ep in enumerate(sources):
        pat = scn["dst_patterns"][i % len(scn["dst_patterns"])]
        if tailk > 1:
            pat = pat + ("0" * (tailk - 1) + "1") * ((bound - len(pat)) // tailk + 1)
        c = Consumer(ep, pat, name="source%d" % i)
        c.quiet = 8 * tailk + 48
        if probe is not None:
            c.premise = (lambda pr=probe: len(pr.hist) < 2 or pr.hist[-1] == pr.hist[-2])
        conss.append(bench.add(c))
    bench.run()
    if bench.violation is not None:
        d_ = bench.violation.as_dict()
        d_["prop"] = "C04"
        viol.append(d_)
    acc = [[(t, pr.tokens[i]) for t, i in pr.accepted] for pr in prods]
    got = [c.got for c in conss]
    checks = 0
    all_acc = all(pr.done() for pr in prods)
    cyc = bench.cycle["sys"]
    # number of whole packets accepted per sink
    exp_packets = []      # expected output packets for families with one source
    mask_all = (1 << dw) - 1
    if fam == "Packetizer":
        hd = p["header"]
        for pk in _split_packets(acc[0])[0]:
            f = {n: pk[0][1][n] for n, _, _, _ in hd["fields"]}
            exp_packets.append([({"data": d, "last": l}, {"data": mask_all & ~c}) for d, c, l in
                                packetize_ref(hd, dw, f, [t["data"] for _, t in pk])])
    elif fam == "Depacketizer":
        hd = p["header"]
        for pk in _split_packets(acc[0])[0]:
            r = depacketize_ref(hd, dw, [t["data"] for _, t in pk])
            if r is None:
                continue
            f, words = r
            beats = []
            for i, w in enumerate(words):
                e = {"data": w, "last": int(i == len(words) - 1)}
                e.update(f)
                beats.append((e, {}))
            exp_packets.append(beats)
    elif fam == "RoundTrip":
        hd = p["header"]
        for pk in _split_packets(acc[0])[0]:
            beats = []
            for i, (_, t) in enumerate(pk):
                e = {"data": t["data"], "last": int(i == len(pk) - 1)}
                for n, _, _, _ in hd["fields"]:
                    e[n] = pk[0][1][n]
                beats.append((e, {}))
            exp_packets.append(beats)
    elif fam == "PacketFIFO":
        for pk in _split_packets(acc[0])[0]:
            beats = []
            for i, (_, t) in enumerate(pk):
                e = {"data": t["data"], "last": int(i == len(pk) - 1)}
                for n, _ in p["params"]:
                    e[n] = pk[-1][1][n]
                beats.append((e, {}))
            exp_packets.append(beats)
    if fam in ("Packetizer", "Depacketizer", "RoundTrip", "PacketFIFO"):
        exp = [b for pk in exp_packets for b in pk]
        g = got[0]
        for k, (tg, tok) in enumerate(g):
            if k >= len(exp):
                V("C16", "beat_invented", "source0", "beat #%d delivered at cycle %d, only %d expected: %r"
                  % (k, tg, len(exp), tok), tg)
                break
            e, dc = exp[k]
            bad = [(f, val, tok[f]) for f, val in e.items() if (tok[f] ^ val) & ~dc.get(f, 0)]
            checks += len(e)
            if bad:
                V("C16", "beat_mismatch", "source0", "beat #%d at cycle %d: %s (field, expected, got)" % (k, tg, bad[:4]), tg)
                break
        else:
            if len(g) < len(exp):
                V("C16", "beat_missing", "source0", "%d of %d expected beats delivered after %d cycles (tail from %d)"
                  % (len(g), len(exp), cyc, horizon))
                V("C04", "no_progress", "source0", "%d of %d expected beats delivered after %d cycles (tail from %d)"
                  % (len(g), len(exp), cyc, horizon))
        if fam == "PacketFIFO":
            # release only complete packets: first beat of packet k leaves after its last beat has entered
            in_pk = _split_packets(acc[0])[0]
            out_pk = _split_packets(g)[0]
            for k, (ip, op) in enumerate(zip(in_pk, out_pk)):
                checks += 1
                if op[0][0] <= ip[-1][0]:
                    V("C16", "released_incomplete", "source0",
                      "packet #%d: first beat left at cycle %d, its last beat entered at cycle %d" % (k, op[0][0], ip[-1][0]),
                      op[0][0])
                    break
    elif fam == "Arbiter":
        # slave side: packets contiguous, each from one master, per-master order preserved, exactly once
        pos = [0] * p["n"]
        cur_master = None
        for k, (tg, tok) in enumerate(got[0]):
            mi = tok["data"] >> 12
            checks += 1
            if mi >= p["n"] or pos[mi] >= len(acc[mi]) or acc[mi][pos[mi]][1]["data"] != tok["data"] \
                    or acc[mi][pos[mi]][1]["last"] != tok["last"]:
                V("C16", "beat_mismatch", "slave", "beat #%d at cycle %d (%#x last=%d) is not the next accepted beat of "
                  "master %d" % (k, tg, tok["data"], tok["last"], mi), tg)
                break
            if acc[mi][pos[mi]][0] != tg:
                V("C16", "beat_mismatch", "slave", "beat #%d delivered at cycle %d but accepted from master %d at cycle %d"
                  % (k, tg, mi, acc[mi][pos[mi]][0]), tg)
                break
            if cur_master is not None and mi != cur_master:
                V("C16", "interleaved", "slave", "beat #%d at cycle %d comes from master %d inside a packet of master %d"
                  % (k, tg, mi, cur_master), tg)
                break
            pos[mi] += 1
            cur_master = None if tok["last"] else mi
        else:
            tot = sum(len(a) for a in acc)
            if len(got[0]) < tot:
                V("C16", "beat_missing", "slave", "%d of %d accepted beats delivered" % (len(got[0]), tot))
    elif fam == "Dispatcher":
        n = p["n"]
        hist = probe.hist

        def dest_of(selv):
            if n == 1 and not p["one_hot"]:
                return 0
            if p["one_hot"]:
                for i in range(n):
                    if selv == (1 << i):
                        return i
                return None
            return selv if selv < n else None
        exp = [[] for _ in range(n)]
        for pk in _split_packets(acc[0])[0] + ([_split_packets(acc[0])[1]] if _split_packets(acc[0])[1] else []):
            t0 = pk[0][0]
            d_ = dest_of(hist[t0][0]) if t0 < len(hist) else None
            if d_ is None:
                bench.probe("packet_dropped_by_design")
                continue
            for c_, t in pk:
                exp[d_].append((c_, t))
        for i in range(n):
            for k, (tg, tok) in enumerate(got[i]):
                checks += 1
                if k >= len(exp[i]):
                    V("C16", "beat_invented", "slave%d" % i, "beat #%d at cycle %d (%#x): nothing (more) expected here"
                      % (k, tg, tok["data"]), tg)
                    break
                ec, et = exp[i][k]
                if et["data"] != tok["data"] or et["last"] != tok["last"] or ec != tg:
                    V("C16", "misrouted_or_torn", "slave%d" % i, "beat #%d at cycle %d is %#x last=%d, expected %#x last=%d "
                      "(accepted at cycle %d)" % (k, tg, tok["data"], tok["last"], et["data"], et["last"], ec), tg)
                    break
            else:
                if len(got[i]) < len(exp[i]):
                    V("C16", "beat_missing", "slave%d" % i, "%d of %d beats delivered" % (len(got[i]), len(exp[i])))
    if not all_acc:
        for i, pr in enumerate(prods):
            if not pr.done():
                V("C04", "sink_blocked", "sink%d" % i, "%d of %d beats accepted after %d cycles (cooperative tail from %d)"
                  % (pr.idx, len(pr.tokens), cyc, horizon))
                V("C16", "sink_blocked", "sink%d" % i, "%d of %d beats accepted after %d cycles (cooperative tail from %d)"
                  % (pr.idx, len(pr.tokens), cyc, horizon))
                break
    stalled_src = sum(pr.stalled_cycles for pr in prods)
    stalled_dst = sum(c.stall_cycles for c in conss)
    stats = {"cycles": cyc, "checks": checks + sum(c.stability_armed for c in conss),
             "nontrivial": bool(stalled_src and stalled_dst and sum(len(g) for g in got)),
             "faults": {"stall_src": sum(pr.paused_cycles for pr in prods), "stall_dst": stalled_dst},
             "probes": dict(bench.probes), "fingerprints": sorted(bench.fingerprints)[:300]}
    if scn.get("garbage"):
        stats["faults"]["garbage_idle"] = sum(pr.gpos for pr in prods)
    if ctl:
        stats["faults"]["sel_change"] = sum(1 for a, b in zip(probe.hist, probe.hist[1:]) if a != b)
    stats["probes"]["packets_delivered"] = sum(sum(1 for _, t in g if t["last"]) for g in got)
    return {"violations": viol, "digest": bench.digest(), "stats": stats}


def known_match(scn, v):
    p = scn.get("params", {})
    if scn.get("family") in ("Packetizer", "RoundTrip") and "header" in p and p["header"]["length"] < p["dw"] // 8:
        return "C16-F5"
    return None
