"""C05 - Clock-domain crossings never corrupt, drop, duplicate or reorder data.

DUTs: stream.AsyncFIFO, stream.ClockDomainCrossing (all variants), BusSynchronizer. Two independent
clock domains "a" (source) and "b" (destination) on a seeded literal tick schedule (ratio classes,
jitter, drift, bursts, coincident edges); every MultiReg is lowered through MetaMultiReg and a
MetaInjector resolves the first flop per bit when its input changes next to the sampling edge."""
import hashlib

from dsim import prng, cdc
from dsim.kernel import Bench, Agent
from dsim.stream_agents import Producer, Consumer
from props.streams import draw_layout, draw_params_layout, gen_tokens, lay

PROPERTY = "C05"
LEVEL = "exploration"
RULE = ("one run = one real crossing (AsyncFIFO depth 4-32 buffered or not; ClockDomainCrossing same/different domains, "
        "buffered, with_common_rst; BusSynchronizer width 1-16) between domains a and b on a literal tick schedule (periodic "
        "with ratio 1:8..8:1 + jitter/drift, bursty, or adversarial symbol-by-symbol; coincident ticks), literal producer/"
        "consumer patterns, literal per-opportunity resolution masks for every synchroniser first flop, and reset pulses for "
        "the common-reset variant. Non-trivial = at least one synchroniser bit resolved against the clean capture or a "
        "coincident tick occurred, and data crossed; distinct = distinct event-log digest")
ASSUMPTIONS = [
    "metastability model: a first flop whose input changed at the adjacent preceding tick (or in the same tick) takes, per "
    "changed bit, the old or the new value and is clean one destination cycle later; longer metastability is not modelled",
    "'source edge just after the destination edge' is represented by the opposite edge order plus an all-old resolution",
    "BusSynchronizer: clock ratio <= 3 either way and timeout >= 8*ratio+16 (the property's premise: time-out longer than one "
    "request/acknowledge round trip); input words are changed no faster than the environment chooses, any instant",
    "reset pulses of the common-reset variant last until both domains have taken the reset and then seen >= 4 further edges each (the synchroniser flops are reset-less and need flushing); producer and consumer are idle around a pulse",
]
COMPONENTS = {"real": ["litex.soc.interconnect.stream.AsyncFIFO/ClockDomainCrossing", "migen.genlib.fifo.AsyncFIFO(Buffered)",
                       "litex.gen.genlib.cdc.BusSynchronizer", "migen.genlib.cdc.PulseSynchronizer/MultiRegImpl",
                       "litex.gen.sim.core.Simulator"],
              "stub": ["clock source (SeededClocks)", "MultiReg lowering wrapper + resolution injector",
                       "AsyncResetSynchronizer (simulator's own dummy lowering)", "producer/consumer/value-changer agents"]}
CHUNK = 4
FAMS = ["AsyncFIFO", "CDC", "CDCSame", "BusSync", "CDCReset"]


SEEDED_SCALE = {"quick": 3, "thorough": 5}      # multiplies the run counts of the sampled families in plan()

def plan(tier):
    if tier == "quick":
        return [("AsyncFIFO", 60), ("CDC", 60), ("CDCSame", 16), ("BusSync", 80), ("CDCReset", 40), ("AXILiteCDC", 40), ("UART", 40), ("UARTBone", 30), ("FreqMeter", 30)]
    return [("AsyncFIFO", 3000), ("CDC", 3000), ("CDCSame", 300), ("BusSync", 4000), ("CDCReset", 2000), ("AXILiteCDC", 2000), ("UART", 2000), ("UARTBone", 1500), ("FreqMeter", 1500)]


def count_dom(schedule, d):
    bit = 1 << d
    return sum(1 for c in schedule if (ord(c) - ord('a') + 1) & bit)


def generate(family, rng, tier):
    n_ticks = rng.choice([300, 600, 1000])
    scn = {"family": family}
    if family == "UART":
        from props import c05_uart
        return c05_uart.generate(rng, tier)
    if family == "UARTBone":
        from props import c05_uartbone
        return c05_uartbone.generate(rng, tier)
    if family == "FreqMeter":
        from props import c05_freqmeter
        return c05_freqmeter.generate(rng, tier)
    if family == "AXILiteCDC":
        # AXILiteClockDomainCrossing: memory semantics through five stream crossings (oracle and agents of C09)
        from props import c09
        n = rng.randint(15, 40)
        sched, desc = cdc.gen_schedule(rng, n_ticks, 2)
        scn.update(params={"family": "axil_cdc"}, max_out=rng.choice([1, 2, 4]),
                   bready=prng.pattern(rng, 300, rng.choice([1.0, 0.6, 0.3])), rready=prng.pattern(rng, 300, rng.choice([1.0, 0.6, 0.3])),
                   ops=[dict(o, prot=rng.getrandbits(3)) for o in c09.gen_axil_ops(rng, n, 4, lambda r: 0x40 + r.randrange(8))], slave=c09.slave_cfg(rng),
                   schedule=sched, sched_desc=desc, meta=[rng.getrandbits(16) for _ in range(64)] if rng.random() < 0.8 else [0])
        return scn
    if family == "BusSync":
        # ratio <= 3: restrict schedule styles to periodic with ratio <= 3 or adversarial with bounded bias
        style = rng.choice(["periodic", "periodic", "adversarial"])
        if style == "periodic":
            for _ in range(20):
                sched, desc = cdc.gen_schedule(rng, n_ticks, 2, "periodic")
                r = desc["ratio"]
                if max(r) / min(r) <= 3:
                    break
        else:
            # adversarial but ratio-bounded: in every window of 4 ticks each domain rises at least once
            out, last = [], [0, 0]
            for k in range(n_ticks):
                if k - last[0] >= 3:
                    d = 0
                elif k - last[1] >= 3:
                    d = 1
                else:
                    d = rng.randrange(2)
                if rng.random() < 0.1:
                    out.append("c")
                    last = [k, k]
                else:
                    out.append("ab"[d])
                    last[d] = k
            sched, desc = "".join(out), {"style": "adversarial_bounded"}
        width = rng.choice([1, 2, 8, 8, 16])
        timeout = rng.choice([40, 64, 128])
        na = count_dom(sched, 0)
        changes, t = [], rng.randint(1, 10)
        while t < na:
            changes.append([t, rng.getrandbits(width)])
            t += rng.choice([1, 2, 3, 7, 20, 50, 150])
        scn.update(params={"width": width, "timeout": timeout}, schedule=sched, sched_desc=desc, changes=changes,
                   meta=[rng.getrandbits(16) for _ in range(64)] if rng.random() < 0.8 else [0])
        return scn
    sched, desc = cdc.gen_schedule(rng, n_ticks, 2)
    if family == "CDCSame":
        sched = "a" * n_ticks
    payload, param = draw_layout(rng), draw_params_layout(rng)
    p = {"payload": payload, "param": param, "depth": rng.choice([4, 4, 8, 16, 32]), "buffered": rng.random() < 0.5}
    if family in ("CDC", "CDCReset"):
        p["depth"] = rng.choice([None, 4, 8, 16])
        p["with_common_rst"] = True if family == "CDCReset" else rng.random() < 0.4
    if family == "CDCSame":
        p["depth"] = None
    toks = gen_tokens(rng, rng.randint(20, 80), lay(payload), lay(param), mode=rng.choice(["packets", "random"]))
    na, nb = count_dom(sched, 0), count_dom(sched, 1)
    ps = rng.choice([0.2, 0.5, 0.9, 1.0])
    pd = rng.choice([0.2, 0.5, 0.9, 1.0])
    scn.update(params=p, schedule=sched, sched_desc=desc, tokens=[toks],
               src_patterns=[prng.pattern(rng, na, ps)], dst_patterns=[prng.pattern(rng, max(nb, 1), pd)],
               garbage=[rng.getrandbits(16) for _ in range(31)] if rng.random() < 0.4 else None,
               meta=[rng.getrandbits(16) for _ in range(64)] if rng.random() < 0.8 else [0])
    if family == "CDCReset":
        # reset pulses: [start tick, length in ticks, which domain's reset (0=a,1=b)]
        pulses, t = [], rng.randint(30, 200)
        while t < n_ticks - 100 and len(pulses) < 3:
            pulses.append([t, rng.choice([40, 60, 80]), rng.randrange(2)])
            t += rng.randint(150, 400)
        scn["faults"] = pulses
    return scn


# ------------------------------------------------------------------------------------------------
class Changer(Agent):
    """Drives BusSynchronizer.i from a literal list of [a-cycle, value]; records (tick, value)."""

    def __init__(self, sig, changes):
        self.sig, self.changes = sig, changes
        self.pos = 0
        self.hist = [(0, 0)]
        self.reads = ()

    def done(self):
        return self.pos >= len(self.changes)

    def step(self, v, t, w):
        while self.pos < len(self.changes) and self.changes[self.pos][0] <= t:
            val = self.changes[self.pos][1]
            w(self.sig, val)
            self.hist.append((self.bench.clocks.ticks, val))
            self.bench.event("i", self.bench.clocks.ticks, val)
            self.pos += 1


class Observer(Agent):
    def __init__(self, sig):
        self.sig = sig
        self.reads = (sig,)
        self.hist = []      # (tick, value) on change
        self.last = None
        self.samples = 0

    def step(self, v, t, w):
        x = v[self.sig]
        self.samples += 1
        if x != self.last:
            self.hist.append((self.bench.clocks.ticks, x))
            self.bench.event("o", self.bench.clocks.ticks, x)
            self.last = x


class ResetPulser(Agent):
    """Drives the rst of the two domains' ClockDomains. A pulse [start tick, min length in ticks, which] stays
    asserted until BOTH domains have seen at least 4 rising edges under reset (the synchroniser flops are
    reset-less and need flushing: stated assumption) and at least the literal length; producer and consumer are
    held idle from 30 ticks / 3 edges of each domain before the pulse until 8 edges of each domain after it.
    Works on whichever domain's coordinator calls it (registered in both)."""

    def __init__(self, rsts, pulses, prod, cons):
        self.rsts, self.pulses = rsts, sorted(pulses)
        self.prod, self.cons = prod, cons
        self.reads = ()
        self.k = 0
        self.phase = "idle"      # idle -> pre -> pulse -> post
        self.mark = None
        self.windows = []        # [pulse start tick, window end tick]
        self.in_window = False
        self.last_tick = -1

    def done(self):
        return self.phase == "idle"

    def _edges_since(self, mark):
        r = self.bench.clocks.rises
        return min(r[d] - mark[d] for d in ("a", "b"))

    def step(self, v, t, w):
        clk = self.bench.clocks
        tick = clk.ticks
        if tick == self.last_tick:
            return
        self.last_tick = tick
        if self.phase == "idle":
            if self.k < len(self.pulses) and tick >= self.pulses[self.k][0] - 30:
                self.phase = "pre"
                self.mark = dict(clk.rises)
                self.prod.hold = self.cons.hold = True
                self.in_window = True
        elif self.phase == "pre":
            start, ln, which = self.pulses[self.k]
            if tick >= start and self._edges_since(self.mark) >= 3:
                w(self.rsts[which], 1)
                self.bench.fault("rst_pulse")
                self.bench.event("rst", tick, which)
                self.t_start = tick
                self.mark = dict(clk.rises)
                self.mark2 = None
                self.phase = "pulse"
        elif self.phase == "pulse":
            start, ln, which = self.pulses[self.k]
            # long enough to flush the reset-less synchroniser flops under ANY edge order: first both domains
            # take the reset (>= 1 edge each), then both see >= 4 further edges
            if self.mark2 is None:
                if self._edges_since(self.mark) >= 1:
                    self.mark2 = dict(clk.rises)
            elif tick >= self.t_start + ln and self._edges_since(self.mark2) >= 4:
                w(self.rsts[which], 0)
                self.mark = dict(clk.rises)
                self.phase = "post"
        elif self.phase == "post":
            if self._edges_since(self.mark) >= 8:
                self.windows.append([self.t_start, tick])
                self.k += 1
                self.phase = "idle"
                self.prod.hold = self.cons.hold = False
                self.in_window = False


def run(scn):
    fam = scn["family"]
    if fam == "UART":
        from props import c05_uart
        return c05_uart.run(scn)
    if fam == "UARTBone":
        from props import c05_uartbone
        return c05_uartbone.run(scn)
    if fam == "FreqMeter":
        from props import c05_freqmeter
        return c05_freqmeter.run(scn)
    if fam == "AXILiteCDC":
        from props import c09
        res = c09.run1(scn)
        for v in res["violations"]:
            v["prop"] = "C05"
        return res
    if fam == "BusSync":
        return run_bussync(scn)
    return run_stream(scn)


def _top(dut, domains):
    from migen import Module, ClockDomain

    class Top(Module):
        def __init__(self):
            self.submodules.dut = dut
            for d in domains:
                setattr(self.clock_domains, "cd_" + d, ClockDomain(d))
    return Top()


def run_stream(scn):
    from migen import ClockDomainsRenamer
    from litex.soc.interconnect import stream
    fam = scn["family"]
    p = scn["params"]
    desc = stream.EndpointDescription(lay(p["payload"]), lay(p["param"]))
    reg = cdc.new_registry()
    aliases, alias_of = None, {}
    if fam == "AsyncFIFO":
        dut = ClockDomainsRenamer({"write": "a", "read": "b"})(stream.AsyncFIFO(desc, p["depth"], buffered=p["buffered"]))
        domains = ["a", "b"]
    elif fam == "CDCSame":
        dut = stream.ClockDomainCrossing(desc, cd_from="a", cd_to="a", buffered=p["buffered"])
        domains = ["a"]
    else:
        dut = stream.ClockDomainCrossing(desc, cd_from="a", cd_to="b", depth=p["depth"], buffered=p["buffered"],
                                         with_common_rst=p["with_common_rst"])
        domains = ["a", "b"]
        if p["with_common_rst"]:
            aliases = {"a": ["from%d" % dut.duid], "b": ["to%d" % dut.duid]}
            alias_of = {"from%d" % dut.duid: "a", "to%d" % dut.duid: "b"}
    top = _top(dut, domains)
    toks = scn["tokens"][0]
    sched = scn["schedule"]
    na = count_dom(sched, 0)
    bound = na + 6 * len(toks) + 200
    bench = Bench(top, domains=domains, schedule=sched if len(domains) > 1 else None, aliases=aliases,
                  overrides=cdc.overrides(), max_cycles=bound, fingerprint=False)
    ddom = domains[-1]
    prod = bench.add(Producer(dut.sink, toks, scn["src_patterns"][0], scn.get("garbage"), name="sink", coop_from=na), "a")
    cons = Consumer(dut.source, scn["dst_patterns"][0], name="source")
    cons.quiet = 240       # ticks without any handshake
    rp = [None]
    if scn.get("faults"):
        cons.premise = lambda: not (rp[0] is not None and rp[0].in_window)
    bench.add(cons, ddom)
    inj = cdc.MetaInjector(reg, scn.get("meta"))
    if len(domains) > 1:
        inj.attach(bench, alias_of)
    pulses = scn.get("faults") or []
    if pulses:
        rp[0] = ResetPulser([top.cd_a.rst, top.cd_b.rst], pulses, prod, cons)
        bench.add(rp[0], "a")
        bench.agents["b"].append(rp[0])      # stepped from both domains (first call per tick acts)
    bench.run()
    viol = []

    def V(cls, obs, msg, cycle=None, prop="C05"):
        viol.append({"prop": prop, "cls": cls, "observable": obs, "msg": msg, "cycle": cycle})
    if bench.violation is not None:
        d_ = bench.violation.as_dict()
        d_["prop"] = "C05"
        viol.append(d_)
    acc = [toks[i] for _, i in prod.accepted]
    got = [g for _, g in cons.got]
    checks = 0
    if not pulses:
        for k, g in enumerate(got):
            if k >= len(acc):
                V("token_invented", "source", "token #%d delivered but only %d accepted: %r" % (k, len(acc), g))
                break
            bad = [(f, acc[k].get(f, 0), g[f]) for f in g if g[f] != acc[k].get(f, 0)]
            checks += len(g)
            if bad:
                V("token_mismatch", "source", "token #%d: %s (field, sent, received)" % (k, bad[:4]))
                break
        else:
            if len(got) < len(acc):
                V("token_missing", "source", "%d of %d accepted tokens delivered after %d/%d cycles"
                  % (len(got), len(acc), bench.cycle["a"], bench.cycle[ddom]))
        if not prod.done():
            V("sink_blocked", "sink", "%d of %d tokens accepted after %d source cycles" % (prod.idx, len(toks), bench.cycle["a"]))
    else:
        # under reset pulses: both sides are reset together; tokens in flight at a pulse may be lost. Per epoch
        # (clean interval between two pulse windows) the delivered tokens are a prefix of what was accepted in it
        # (optionally preceded by tokens accepted while the previous window was closing); the last epoch is complete.
        wins = sorted(rp[0].windows)
        if rp[0].phase in ("pulse", "post"):
            wins.append([rp[0].t_start, 10 ** 9])
        n_ep = len(wins) + 1

        def epoch_of(tick):
            """(epoch index, in_window)"""
            for e, (a_, b_) in enumerate(wins):
                if tick < a_:
                    return e, False
                if tick < b_:
                    return e, True
            return len(wins), False
        accC = [[] for _ in range(n_ep)]
        accW = [[] for _ in range(n_ep + 1)]
        for (c_, i), tk in zip(prod.accepted, prod.acc_ticks):
            e, inw = epoch_of(tk)
            (accW[e + 1] if inw else accC[e]).append(toks[i])
        gotE = [[] for _ in range(n_ep)]
        for g, tk in zip(got, cons.got_ticks):
            e, inw = epoch_of(tk)
            if inw:
                V("delivered_in_reset_window", "source", "token %r handed over at tick %d although the consumer was not ready" % (g, tk))
                break
            gotE[e].append(g)
        proj = lambda t, g: {f: t.get(f, 0) for f in g}  # noqa
        for e in range(n_ep):
            ge = gotE[e]
            ok = False
            for s_ in range(len(accW[e]) + 1):
                seq = accW[e][s_:] + accC[e]
                if len(ge) <= len(seq) and all(proj(seq[k], ge[k]) == ge[k] for k in range(len(ge))):
                    if e < n_ep - 1 or len(ge) == len(seq):
                        ok = True
                        break
            checks += len(ge) + 1
            if not ok:
                V("epoch_mismatch", "source", "epoch %d (between reset pulses): %d tokens delivered are not a prefix%s of the %d(+%d "
                  "in the closing window) accepted in it: first delivered %r" % (e, len(ge), " (complete, last epoch)" if e == n_ep - 1
                  else "", len(accC[e]), len(accW[e]), ge[:2]))
                break
        if not prod.done():
            V("sink_blocked", "sink", "%d of %d tokens accepted after %d source cycles (after resets)" % (prod.idx, len(toks), bench.cycle["a"]))
    stats = {"cycles": bench.cycle["a"] + (bench.cycle.get("b", 0)), "checks": checks + cons.stability_armed,
             "faults": dict(bench.fault_counts), "probes": {"meta_opportunities": inj.opportunities,
                                                            "coincident_ticks": bench.stats.get("coincident_ticks", 0),
                                                            "tokens_crossed": len(got)}}
    stats["faults"]["edge_order_ticks"] = bench.stats.get("ticks", 0)
    stats["faults"]["stall_src"] = prod.paused_cycles
    stats["faults"]["stall_dst"] = cons.stall_cycles
    stats["nontrivial"] = bool((inj.fired or inj.coincident_fired or bench.stats.get("coincident_ticks")) and got)
    stats["grams"] = sorted({sched[i:i + 4] for i in range(0, max(len(sched) - 3, 0), 7)})[:50]
    return {"violations": viol, "digest": bench.digest(), "stats": stats}


def run_bussync(scn):
    from litex.gen.genlib.cdc import BusSynchronizer
    p = scn["params"]
    reg = cdc.new_registry()
    dut = BusSynchronizer(p["width"], "a", "b", timeout=p["timeout"])
    top = _top(dut, ["a", "b"])
    sched = scn["schedule"]
    na = count_dom(sched, 0)
    settle_a = 2 * p["timeout"] + 40
    bench = Bench(top, domains=["a", "b"], schedule=sched, overrides=cdc.overrides(),
                  max_cycles=na + settle_a + 60, fingerprint=False)
    ch = bench.add(Changer(dut.i, [c for c in scn["changes"] if c[0] < na]), "a")
    ob = bench.add(Observer(dut.o), "b")
    inj = cdc.MetaInjector(reg, scn.get("meta"))
    inj.attach(bench, src_hint={dut.i: "a"})

    class Tail(Agent):
        reads = ()

        def __init__(s_):
            s_.n = 0

        def done(s_):
            return s_.n >= na + settle_a

        def step(s_, v, t, w):
            s_.n = t
    bench.add(Tail(), "a")
    bench.run()
    viol = []

    def V(cls, obs, msg):
        viol.append({"prop": "C05", "cls": cls, "observable": obs, "msg": msg, "cycle": None})
    ih, oh = ch.hist, ob.hist
    checks = 0
    # every observed word was really present at i (never a mix), and o follows i's history in order
    j = 0
    for tick, x in oh:
        checks += 1
        # candidates: values i held at or before this tick, not older than the last matched position
        k = j
        found = None
        while k < len(ih) and ih[k][0] <= tick:
            if ih[k][1] == x:
                found = k
                break
            k += 1
        if found is None:
            held = [hex(v_) for t_, v_ in ih if t_ <= tick][-4:]
            V("torn_or_stale_word", "o", "o=%#x at tick %d: i never held it since the word o showed before (recent i: %s)"
              % (x, tick, held))
            break
        j = found
    # settle: at the end i has been stable for settle_a source cycles
    checks += 1
    if ob.last != ih[-1][1]:
        V("not_settled", "o", "i=%#x stable for >= %d source cycles, o=%#x" % (ih[-1][1], settle_a, ob.last))
    stats = {"cycles": bench.cycle["a"] + bench.cycle["b"], "checks": checks,
             "faults": dict(bench.fault_counts), "probes": {"meta_opportunities": inj.opportunities,
                                                            "coincident_ticks": bench.stats.get("coincident_ticks", 0),
                                                            "o_updates": len(oh)}}
    stats["faults"]["edge_order_ticks"] = bench.stats.get("ticks", 0)
    stats["nontrivial"] = bool((inj.fired or inj.coincident_fired) and len(oh) > 1)
    stats["grams"] = sorted({sched[i:i + 4] for i in range(0, max(len(sched) - 3, 0), 7)})[:50]
    return {"violations": viol, "digest": bench.digest(), "stats": stats}
