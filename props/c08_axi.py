"""C08, family 'axi': the AXI4 versions of the same structure (axi_full.py: _AXIRequestCounter, AXIArbiter, AXIDecoder,
AXIInterconnectShared, AXICrossbar, AXIInterconnectPointToPoint) with multi-beat bursts: the read lock is released by
the LAST beat of a response only, W bursts follow their AW to the slave it selected.
Masters own disjoint address slots (bits [9:8] of the address = master index, data bits [31:28] = master index + 1), so every
slave-side event has an owner. Oracle: program-order memory semantics per master (read beats = slave content or own earlier
writes, beat count = len+1, last on the final beat only, id and OKAY returned), every accepted address appears exactly once, at
the slave it decodes to, with unchanged len/size/burst/id, every W beat a slave stores was sent by the owner of that address, no
request of another master is accepted where responses are outstanding (shared: anywhere; crossbar: at that slave), every
master is served."""
from dsim import prng
from dsim.kernel import Bench, wrap_top
from dsim.axi_agents import AXIMaster, AXISlave, beat_addresses, FIXED, INCR, WRAP

KINDS = ["shared", "crossbar", "shared", "crossbar", "p2p", "arbiter", "decoder"]


def ibyte(si, a):
    return ((si + 1) * 59 + a * 13 + (a >> 8) * 7) & 0xff


def generate(rng, tier):
    kind = rng.choice(KINDS)
    big = rng.random() < 0.25
    nm = 1 if kind in ("p2p", "decoder") else rng.choice([1, 2, 2, 3] if big else [1, 2, 2])
    ns = 1 if kind in ("p2p", "arbiter") else rng.choice([1, 2, 2, 3] if big else [1, 2, 2])
    wins, used = [], set()
    for i in range(ns):
        while True:
            slot = rng.randrange(16)
            if slot not in used:
                used.add(slot)
                wins.append([slot << 12, rng.choice([10, 12])])    # byte origin, log2 size (bytes)
                break
    if kind in ("p2p", "arbiter"):
        wins = [[0, 32]]
    ops, max_out, bre, rre = [], [], [], []
    horizon = 400
    for m in range(nm):
        lst = []
        for j in range(rng.randint(5, 14)):
            o, k = rng.choice(wins)
            burst = rng.choice([INCR, INCR, INCR, FIXED, WRAP])
            ln = rng.choice([1, 3, 7]) if burst == WRAP else rng.choice([0, 0, 1, 2, 3, 5, 7])
            word = rng.randrange(0, 40)
            if burst == WRAP:
                word = (word // (ln + 1)) * (ln + 1) + rng.randrange(ln + 1)
            addr = (o if k < 32 else (rng.randrange(4) << 12)) + (m << 8) + word * 4
            op = {"kind": rng.choice(["w", "r"]), "addr": addr, "len": ln, "size": 2, "burst": burst, "id": rng.randrange(4), "gap": rng.choice([0, 0, 1, 3, 8])}
            if op["kind"] == "w":
                op["data"] = [((m + 1) << 28) | (j << 20) | (n << 16) | rng.getrandbits(16) for n in range(ln + 1)]
                op["strb"] = [rng.choice([15, 15, 15, 3, 12, 5]) for _ in range(ln + 1)]
                op["wgaps"] = [rng.choice([0, 0, 1, 3]) for _ in range(4)]
            lst.append(op)
        ops.append(lst)
        max_out.append(rng.choice([1, 2, 4]))
        bre.append(prng.pattern(rng, horizon, rng.choice([1.0, 0.7, 0.3])))
        rre.append(prng.pattern(rng, horizon, rng.choice([1.0, 0.7, 0.3])))
    slaves = []
    for s in range(ns):
        slaves.append({"aw": prng.pattern(rng, horizon, rng.choice([1.0, 0.7, 0.3])), "w": prng.pattern(rng, horizon, rng.choice([1.0, 0.7, 0.3])),
                       "ar": prng.pattern(rng, horizon, rng.choice([1.0, 0.7, 0.3])), "lat": [rng.choice([0, 1, 2, 5, 8]) for _ in range(8)],
                       "depth": rng.choice([1, 2, 4])})
    return {"family": "axi", "params": {"kind": kind, "nm": nm, "ns": ns, "wins": wins}, "ops": ops, "max_out": max_out,
            "bready": bre, "rready": rre, "slaves": slaves,
            # values on the address fields while no address is presented (they wander over all windows: an unlocked decoder follows them)
            "garbage": [rng.choice(wins)[0] + rng.getrandbits(10) if rng.random() < 0.7 else rng.getrandbits(32) for _ in range(11)] if rng.random() < 0.6 else None}


def decode(wins, addr):
    for i, (o, k) in enumerate(wins):
        if k >= 32 or (addr >> k) == (o >> k):
            return i
    return None


def build(p):
    from migen import Module
    from litex.soc.interconnect.axi import axi_full
    from litex.soc.integration.soc import SoCRegion
    nm, ns = p["nm"], p["ns"]
    masters = [axi_full.AXIInterface(data_width=32, address_width=32, id_width=2) for _ in range(nm)]
    slaves = [axi_full.AXIInterface(data_width=32, address_width=32, id_width=2) for _ in range(ns)]

    class FakeBus:
        data_width, address_width = 32, 32
    preds = [(lambda a: 1) if k >= 32 else SoCRegion(origin=o, size=1 << k).decoder(FakeBus) for (o, k) in p["wins"]]
    m = Module()
    kind = p["kind"]
    if kind == "p2p":
        m.submodules.ic = axi_full.AXIInterconnectPointToPoint(masters[0], slaves[0])
    elif kind == "arbiter":
        m.submodules.ic = axi_full.AXIArbiter(masters, slaves[0])
    elif kind == "decoder":
        m.submodules.ic = axi_full.AXIDecoder(masters[0], list(zip(preds, slaves)))
    elif kind == "shared":
        m.submodules.ic = axi_full.AXIInterconnectShared(masters, list(zip(preds, slaves)), timeout_cycles=None)
    else:
        m.submodules.ic = axi_full.AXICrossbar(masters, list(zip(preds, slaves)), timeout_cycles=None)
    return m, masters, slaves


def run(scn):
    p = scn["params"]
    nm, ns, wins, kind = p["nm"], p["ns"], p["wins"], p["kind"]
    top, masters, slaves = build(p)
    nbeats = sum(o["len"] + 1 for lst in scn["ops"] for o in lst)
    bench = Bench(wrap_top(top), max_cycles=500 + nbeats * 30, tail=8, fingerprint=False)
    dec = (lambda a: decode(wins, a))
    mag, sag = [], []
    for i, mb in enumerate(masters):
        mag.append(bench.add(AXIMaster(mb, scn["ops"][i], name="m%d" % i, max_out=scn["max_out"][i], bready=scn["bready"][i], rready=scn["rready"][i],
                                       hazard_key=lambda a: a >> 2, single_target=dec, idle_garbage=scn.get("garbage"))))
    for i, sb in enumerate(slaves):
        sc = scn["slaves"][i]
        sag.append(bench.add(AXISlave(sb, name="s%d" % i, awready=sc["aw"], wready=sc["w"], arready=sc["ar"], lat=sc["lat"], depth=sc["depth"],
                                      init=(lambda a, i=i: ibyte(i, a)))))
    bench.run()
    viols = []

    def V(cls, obs, msg, cycle=None):
        if len(viols) < 6:
            viols.append({"prop": "C08", "cls": cls, "observable": obs, "msg": msg, "cycle": cycle})
    if bench.violation is not None:
        viols.append(dict(bench.violation.as_dict(), prop="C08"))
    checks = 0
    owner = lambda a: (a >> 8) & 3  # noqa
    # ---- every accepted address appears exactly once, at the slave it decodes to, in the same cycle, unchanged
    for ch in ("aw", "ar"):
        by_cycle = {}
        for mi, ma in enumerate(mag):
            lst = ma.writes if ch == "aw" else ma.reads_
            for (t, i) in ma.log[ch]:
                o = lst[i]
                by_cycle.setdefault(t, {"m": [], "s": []})["m"].append((dec(o["addr"]), o["addr"], o["len"], o["size"], o["burst"], o["id"]))
        for si, sa in enumerate(sag):
            for e in sa.log[ch]:
                by_cycle.setdefault(e[0], {"m": [], "s": []})["s"].append((si,) + tuple(e[1:]))
        for t in sorted(by_cycle):
            mm, ss = sorted(by_cycle[t]["m"]), sorted(by_cycle[t]["s"])
            checks += 1
            if mm != ss:
                lost = [x for x in mm if x not in ss]
                extra = [x for x in ss if x not in mm]
                cls = "misrouted" if lost and extra else ("request_lost" if lost else "request_invented")
                V(cls, ch, "cycle %d: master-side %s handshakes (slave, addr, len, size, burst, id) %s, slave-side %s" % (t, ch.upper(), lost[:2] or mm[:2], extra[:2] or ss[:2]), t)
                break
    # ---- W beats stored by a slave were sent by the owner of the address, with that data and strobe
    sent = {}
    for mi, ma in enumerate(mag):
        for o in ma.writes:
            for n, a in enumerate(beat_addresses(o["addr"], o["len"], o["size"], o["burst"])):
                sent.setdefault((a, o["data"][n], o["strb"][n]), []).append(mi)
    for si, sa in enumerate(sag):
        for (t, a, dta, st) in sa.log["wbeats"]:
            checks += 1
            if (a, dta, st) not in sent or dec(a) != si:
                V("write_beat_misrouted", "s%d.w" % si, "slave %d stored beat addr=%#x data=%#x strb=%#x (burst completed at cycle %d): no master sent that beat to this slave"
                  % (si, a, dta, st, t), t)
                break
        for (t, what) in sa.errors[:2]:
            V("burst_structure", "s%d.w" % si, "cycle %d: %s" % (t, what), t)
        for (t, ch, what) in sa.proto[:2]:
            V("protocol_slave_side", "s%d.%s" % (si, ch), "cycle %d: %s" % (t, what), t)
    # ---- per master: responses in issue order, memory semantics
    raw = 0
    for mi, ma in enumerate(mag):
        for (t, ch, what) in ma.proto[:2]:
            V("protocol_master_side", "m%d.%s" % (mi, ch), "cycle %d: %s" % (t, what), t)
        if not ma.done():
            V("not_served", "m%d" % mi, "%d/%d writes and %d/%d reads completed after %d cycles" % (ma.b_n, len(ma.writes), ma.r_n, len(ma.reads_), bench.cycle["sys"]))
        ref = {}
        wi = ri = 0
        for o in ma.ops:
            si = dec(o["addr"])
            addrs = beat_addresses(o["addr"], o["len"], o["size"], o["burst"])
            if o["kind"] == "w":
                if wi >= len(ma.b_log):
                    break
                tb, resp, id_ = ma.b_log[wi]
                wi += 1
                checks += 1
                if resp != 0 or id_ != o["id"]:
                    V("write_response", "m%d.b" % mi, "write #%d (addr %#x id %d) answered resp=%d id=%d at cycle %d" % (wi - 1, o["addr"], o["id"], resp, id_, tb), tb)
                    break
                for n, a in enumerate(addrs):
                    base = (a >> 2) << 2
                    for i in range(4):
                        if (o["strb"][n] >> i) & 1:
                            ref[base + i] = (o["data"][n] >> (8 * i)) & 0xff
            else:
                if ri >= len(ma.r_log):
                    break
                beats = ma.r_log[ri]
                ri += 1
                checks += 1 + len(beats)
                lasts = [b_[3] for b_ in beats]
                if len(beats) != o["len"] + 1 or lasts != [0] * o["len"] + [1]:
                    V("read_beats", "m%d.r" % mi, "read #%d (addr %#x len %d) answered with %d beats, last flags %s" % (ri - 1, o["addr"], o["len"], len(beats), lasts), beats[0][0])
                    break
                bad = False
                for n, (a, (tr, data, resp, last, id_)) in enumerate(zip(addrs, beats)):
                    base = (a >> 2) << 2
                    exp = sum(ref.get(base + i, ibyte(si, base + i)) << (8 * i) for i in range(4))
                    raw += any((base + i) in ref for i in range(4))
                    if data != exp or resp != 0 or id_ != o["id"]:
                        V("read_order_or_data", "m%d.r" % mi, "read #%d (addr %#x id %d) beat %d (byte address %#x, slave %d): data=%#x resp=%d id=%d, expected data %#x"
                          % (ri - 1, o["addr"], o["id"], n, a, si, data, resp, id_, exp), tr)
                        bad = True
                        break
                if bad:
                    break
        else:
            if not viols:
                for b_, val in ref.items():
                    checks += 1
                    if sag[dec(b_)].rbyte(b_) != val:
                        V("store_content", "s%d memory" % dec(b_), "byte %#x holds %#04x, master %d wrote %#04x" % (b_, sag[dec(b_)].rbyte(b_), mi, val))
                        break
    # ---- lock: no request of another master is accepted where responses are outstanding
    for direction, req_ch, resp_ch in (("write", "aw", "b"), ("read", "ar", "r")):
        groups = [list(range(ns))] if kind in ("shared", "arbiter") else [[s] for s in range(ns)]
        for grp in groups:
            evs = []
            for si in grp:
                sa = sag[si]
                for e in sa.log[req_ch]:
                    evs.append((e[0], 0, owner(e[1])))
                for e in sa.log[resp_ch]:
                    if resp_ch == "b" or e[2]:          # a read response is complete with its last beat
                        evs.append((e[0], 1, None))
            evs.sort(key=lambda x: (x[0], -x[1]))       # a response completing in the same cycle frees the lock first
            out, own_now = 0, None
            for t, is_resp, own in evs:
                checks += 1
                if is_resp:
                    out -= 1
                    if out <= 0:
                        out, own_now = 0, None
                else:
                    if out > 0 and own_now is not None and own != own_now:
                        V("grant_changed_while_outstanding", direction, "cycle %d: %s request of master %d accepted while master %d still has %d response(s) outstanding"
                          % (t, direction, own, own_now, out), t)
                        break
                    out += 1
                    own_now = own
    ntr = sum(len(ma.b_log) + len(ma.r_log) for ma in mag)
    stalls = sum(ma.stall for ma in mag)
    maxout = max([0] + [ma.max_out for ma in mag])
    stats = {"cycles": bench.cycle["sys"], "checks": checks, "nontrivial": bool(stalls and (maxout > 1 or nm > 1) and ntr >= 8),
             "faults": {"stall_cycles": stalls, "lat_slave": sum(len(sa.log["b"]) + len(sa.log["r"]) for sa in sag)},
             "probes": {"transactions": ntr, "axi4_kind_" + kind: 1, "axi4_size_%dx%d" % (nm, ns): 1, "read_after_write_beats": raw,
                        "multi_beat_reads": sum(1 for ma in mag for b_ in ma.r_log if len(b_) > 1)}}
    return {"violations": viols, "digest": bench.digest(), "stats": stats}
