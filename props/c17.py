"""C17 - 8b/10b coding is invertible, DC-balanced and comma-safe.

DUTs: Encoder(nwords, lsb_first) -> simulated serial line -> Decoder(s); StreamEncoder -> line ->
StreamDecoder. Schedule space: clock-enable / valid-ready patterns; faults: bit flips on the line.
Oracles are computed on the *serial bit stream* the real encoder produced (disparity, run length,
comma windows) and on the real decoder's outputs (invertibility, invalid flag). The reference tables
below are typed from the 8b/10b standard (Widmer/Franaszek; IEEE 802.3 clause 36) and are used only to
align pipeline latency and as a non-failing probe."""
from dsim import prng
from dsim.kernel import Bench, wrap_top, Agent
from dsim.stream_agents import Producer, Consumer

PROPERTY = "C17"
LEVEL = "exploration"
RULE = ("families: 'pairs' = enumerated slices of all ordered symbol pairs (256 data + 12 control symbols) under both entry "
        "disparities streamed through the real Encoder and Decoder under a literal clock-enable pattern; 'seq' = seeded "
        "symbol sequences (data-only, mixed, comma-adjacent) through Encoder(nwords 1-4, msb/lsb first) with ce patterns; "
        "'stream' = StreamEncoder -> line (bit flips) -> StreamDecoder under valid/ready patterns; 'invalid' = all 1024 line "
        "words into the Decoder. Non-trivial = at least one ce/ready stall and >= 16 symbols compared; distinct = distinct "
        "digest of the recorded line words")
ASSUMPTIONS = [
    "pipeline latency is inferred per run (any constant latency is accepted), not hard-coded",
    "comma windows are checked only inside maximal runs of data symbols (control symbols legitimately contain commas)",
    "StreamEncoder disparity continuity is demanded for stall-only schedules (producer always offering); with bubbles only "
    "invertibility is checked (the property speaks of stalls)",
    "the typed reference tables are harness code (probe and latency alignment only)",
]
COMPONENTS = {"real": ["litex.soc.cores.code_8b10b.Encoder/SingleEncoder/Decoder/StreamEncoder/StreamDecoder",
                       "litex.gen.sim.core.Simulator"],
              "stub": ["symbol source, serial line with bit-flip injection, sink", "clock source", "tracer shim"]}
CHUNK = 4

# ------------------------------------------------------------------------------------------------
# reference tables typed from the standard: abcdei (a = first transmitted bit = MSB here)
# ------------------------------------------------------------------------------------------------
T5B6B = {  # x: (RD-, RD+)
    0: ("100111", "011000"), 1: ("011101", "100010"), 2: ("101101", "010010"), 3: ("110001", "110001"),
    4: ("110101", "001010"), 5: ("101001", "101001"), 6: ("011001", "011001"), 7: ("111000", "000111"),
    8: ("111001", "000110"), 9: ("100101", "100101"), 10: ("010101", "010101"), 11: ("110100", "110100"),
    12: ("001101", "001101"), 13: ("101100", "101100"), 14: ("011100", "011100"), 15: ("010111", "101000"),
    16: ("011011", "100100"), 17: ("100011", "100011"), 18: ("010011", "010011"), 19: ("110010", "110010"),
    20: ("001011", "001011"), 21: ("101010", "101010"), 22: ("011010", "011010"), 23: ("111010", "000101"),
    24: ("110011", "001100"), 25: ("100110", "100110"), 26: ("010110", "010110"), 27: ("110110", "001001"),
    28: ("001110", "001110"), 29: ("101110", "010001"), 30: ("011110", "100001"), 31: ("101011", "010100"),
}
K28_6B = ("001111", "110000")
T3B4B_D = {0: ("1011", "0100"), 1: ("1001", "1001"), 2: ("0101", "0101"), 3: ("1100", "0011"),
           4: ("1101", "0010"), 5: ("1010", "1010"), 6: ("0110", "0110"), 7: ("1110", "0001")}
A7 = ("0111", "1000")
T3B4B_K = {0: ("1011", "0100"), 1: ("0110", "1001"), 2: ("1010", "0101"), 3: ("1100", "0011"),
           4: ("1101", "0010"), 5: ("0101", "1010"), 6: ("1001", "0110"), 7: ("0111", "1000")}
CONTROL = [(28 | (y << 5)) for y in range(8)] + [23 | (7 << 5), 27 | (7 << 5), 29 | (7 << 5), 30 | (7 << 5)]
SYMBOLS = [(d, 0) for d in range(256)] + [(c, 1) for c in CONTROL]
FLIP_RD = (3, 0)     # D.3.0: balanced 6b, unbalanced 4b -> flips the running disparity


def _disp(bits):
    return bits.count("1") - bits.count("0")


def ref_encode(d, k, rd):
    """rd: -1/+1 -> (10-bit string abcdeifghj, new rd)."""
    x, y = d & 31, d >> 5
    i = 0 if rd < 0 else 1
    if k and x == 28:
        six = K28_6B[i]
    else:
        six = T5B6B[x][i]
    rd2 = rd if _disp(six) == 0 else -rd
    j = 0 if rd2 < 0 else 1
    if k:
        four = T3B4B_K[y][j]
    elif y == 7 and ((rd2 < 0 and x in (17, 18, 20)) or (rd2 > 0 and x in (11, 13, 14))):
        four = A7[j]
    else:
        four = T3B4B_D[y][j]
    rd3 = rd2 if _disp(four) == 0 else -rd2
    return six + four, rd3


def word_to_bits(w, lsb_first):
    """10-bit word -> string in transmission order."""
    if lsb_first:
        return "".join(str((w >> i) & 1) for i in range(10))
    return "".join(str((w >> (9 - i)) & 1) for i in range(10))


# ------------------------------------------------------------------------------------------------
# plan / generate
# ------------------------------------------------------------------------------------------------
N_SLICES = 268 * 2          # one slice = (entry rd, first symbol) x all second symbols


SEEDED_SCALE = {"quick": 4, "thorough": 5}      # multiplies the run counts of the sampled families in plan()
ENUMERATED = ('pairs', 'invalid')       # families whose size is the size of an enumeration

def plan(tier):
    if tier == "quick":
        return [("pairs", 34), ("seq", 60), ("stream", 60), ("invalid", 8)]
    return [("pairs", N_SLICES), ("seq", 3000), ("stream", 3000), ("invalid", 64)]


def ce_pattern(rng, n):
    p = rng.choice([1.0, 1.0, 0.9, 0.5, 0.2])
    return prng.pattern(rng, n, p)


def generate_indexed(family, index, rng, tier):
    scn = generate(family, rng, tier)
    if family == "pairs":
        # thorough: every slice once (exhaustive over ordered pairs x entry disparity); quick: fixed stride
        scn["slice"] = index % N_SLICES if tier != "quick" else (index * 16 + 5) % N_SLICES
    return scn


def generate(family, rng, tier):
    if family == "pairs":
        # the run index is hidden in the rng stream; slices are chosen by a draw so that quick covers a spread
        # (thorough: plan() gives N_SLICES runs and `slice` is set by index through generate_indexed)
        sl = rng.randrange(N_SLICES)
        return {"family": "pairs", "slice": sl, "lsb_first": rng.random() < 0.5,
                "ce_pattern": ce_pattern(rng, 400)}
    if family == "seq":
        n = rng.randint(40, 160)
        mode = rng.choice(["data", "data", "mixed", "comma_adjacent"])
        syms = []
        for _ in range(n):
            if mode == "data":
                syms.append([rng.randrange(256), 0])
            elif mode == "mixed":
                syms.append(list(rng.choice(SYMBOLS)) if rng.random() < 0.3 else [rng.randrange(256), 0])
            else:
                # symbols whose code words begin/end with runs: neighbours of comma patterns
                syms.append([rng.choice([0x07, 0xf8, 0xe0, 0x1f, 0x3c, 0xbc, 0x7c, 0xfc, 0x00, 0xff, 0x3f, 0xe7,
                                         rng.randrange(256)]), 0])
        nwords = rng.choice([1, 1, 2, 3, 4])
        while len(syms) % nwords:
            syms.append([rng.randrange(256), 0])
        return {"family": "seq", "symbols": syms, "nwords": nwords, "lsb_first": rng.random() < 0.5,
                "ce_pattern": ce_pattern(rng, 300)}
    if family == "stream":
        nwords = rng.choice([1, 1, 2, 4])
        n = rng.randint(20, 80)
        syms = [[(list(rng.choice(SYMBOLS)) if rng.random() < 0.15 else [rng.randrange(256), 0]) for _ in range(nwords)]
                for _ in range(n)]
        bubbles = rng.random() < 0.4
        horizon = 200
        flips = []
        if rng.random() < 0.4:
            for _ in range(rng.randint(1, 6)):
                nb = rng.choice([1, 1, 2])
                flips.append([rng.randrange(n), rng.randrange(nwords), sorted(rng.sample(range(10), nb))])
        return {"family": "stream", "symbols": syms, "nwords": nwords, "bubbles": bubbles, "horizon": horizon,
                "src_pattern": prng.pattern(rng, horizon, rng.choice([0.3, 0.7, 0.9])) if bubbles else "1" * horizon,
                "mid_pattern": prng.pattern(rng, horizon, rng.choice([0.3, 0.7, 1.0])),
                "dst_pattern": prng.pattern(rng, horizon, rng.choice([0.3, 0.7, 1.0])), "faults": flips}
    if family == "invalid":
        words = list(range(1024))
        rng.shuffle(words)
        return {"family": "invalid", "words": words, "lsb_first": rng.random() < 0.5, "ce_pattern": ce_pattern(rng, 600)}
    raise KeyError(family)


# ------------------------------------------------------------------------------------------------
# agents
# ------------------------------------------------------------------------------------------------
class CEDriver(Agent):
    """Presents items[idx] on `signals` and advances when the DUT's ce was high at the edge; records
    `observe` signals at every enabled edge."""

    def __init__(self, ce, signals, items, pattern, observe):
        self.ce, self.signals, self.items, self.pattern = ce, signals, items, pattern
        self.observe = observe
        self.reads = tuple([ce] + list(observe))
        self.idx = 0
        self.samples = []
        self.stalls = 0
        self.flush = 8
        self.first = True

    def done(self):
        return self.idx >= len(self.items) + self.flush

    def step(self, v, t, w):
        if self.first:
            self.first = False
        elif v[self.ce]:
            self.samples.append(tuple(v[s] for s in self.observe))
            self.idx += 1
        else:
            self.stalls += 1
        nce = 1 if t >= len(self.pattern) else int(self.pattern[t] == "1")
        w(self.ce, nce)
        it = self.items[self.idx] if self.idx < len(self.items) else self.items[-1]
        for s, val in zip(self.signals, it):
            w(s, val)


# ------------------------------------------------------------------------------------------------
# oracles on a line word sequence
# ------------------------------------------------------------------------------------------------
def check_line(words, kflags, lsb_first, V, where):
    """words: 10-bit line words in transmission order (already aligned to symbols); kflags parallel."""
    bits = "".join(word_to_bits(w, lsb_first) for w in words)
    checks = 0
    # running disparity after each symbol: starts at -1, must stay in {-1,+1}
    c = -1
    for i, w in enumerate(words):
        ones = bin(w).count("1")
        c += ones - (10 - ones)
        checks += 1
        if c not in (-1, 1):
            V("disparity_unbounded", where, "running disparity %+d after symbol #%d (word %s)" % (c, i, word_to_bits(w, lsb_first)))
            return checks
    # run length
    run, prev = 0, None
    for i, b in enumerate(bits):
        run = run + 1 if b == prev else 1
        prev = b
        if run > 5:
            V("run_length", where, "%d equal bits ending at bit %d (symbol #%d): ...%s" % (run, i, i // 10, bits[max(0, i - 12):i + 1]))
            return checks
    checks += len(bits)
    # comma windows inside maximal data-only runs
    i = 0
    n = len(words)
    while i < n:
        if kflags[i]:
            i += 1
            continue
        j = i
        while j < n and not kflags[j]:
            j += 1
        seg = bits[i * 10:j * 10]
        for pat in ("0011111", "1100000"):
            pos = seg.find(pat)
            checks += 1
            if pos >= 0:
                V("comma_in_data", where, "comma %s at bit %d of a data-only run starting at symbol #%d" % (pat, pos, i))
                return checks
        i = j
    return checks


def align(samples, expect, maxlat=8):
    """smallest latency L with samples[i+L] == expect[i] for all comparable i (None if none)."""
    for L in range(maxlat):
        n = min(len(expect), len(samples) - L)
        if n >= max(1, len(expect) - 1) and all(samples[i + L] == expect[i] for i in range(n)):
            return L, n
    return None, 0


# ------------------------------------------------------------------------------------------------
# run
# ------------------------------------------------------------------------------------------------
def run(scn):
    fam = scn["family"]
    viol = []

    def V(cls, obs, msg, cycle=None):
        viol.append({"prop": "C17", "cls": cls, "observable": obs, "msg": msg, "cycle": cycle})
    if fam in ("pairs", "seq"):
        return run_encdec(scn, viol, V)
    if fam == "stream":
        return run_stream(scn, viol, V)
    if fam == "invalid":
        return run_invalid(scn, viol, V)
    raise KeyError(fam)


def pair_slice_symbols(sl):
    rd_want = -1 if sl < 268 else 1
    s1 = SYMBOLS[sl % 268]
    syms, rd = [], -1
    for s2 in SYMBOLS:
        if rd != rd_want:
            syms.append(list(FLIP_RD))
            rd = -rd
        for s in (s1, s2):
            syms.append(list(s))
            _, rd = ref_encode(s[0], s[1], rd)
    return syms


def run_encdec(scn, viol, V):
    from migen import Module
    from litex.soc.cores.code_8b10b import Encoder, Decoder
    lsb = scn["lsb_first"]
    if scn["family"] == "pairs":
        syms, nwords = pair_slice_symbols(scn["slice"]), 1
    else:
        syms, nwords = scn["symbols"], scn["nwords"]
    m = Module()
    m.submodules.enc = enc = Encoder(nwords, lsb_first=lsb)
    decs = [Decoder(lsb_first=lsb) for _ in range(nwords)]
    m.submodules += decs
    for i in range(nwords):
        m.comb += [decs[i].input.eq(enc.output[i]), decs[i].ce.eq(enc.ce)]
    items = []
    for g in range(0, len(syms), nwords):
        grp = syms[g:g + nwords]
        items.append([s[0] for s in grp] + [s[1] for s in grp])
    obs = list(enc.output) + [d.d for d in decs] + [d.k for d in decs] + [d.invalid for d in decs]
    bench = Bench(wrap_top(m), max_cycles=len(scn["ce_pattern"]) + len(items) + 64, fingerprint=False)
    drv = bench.add(CEDriver(enc.ce, list(enc.d) + list(enc.k), items, scn["ce_pattern"], obs))
    bench.run()
    S = drv.samples
    checks = 0
    # invertibility through the real decoder
    exp_dec = [tuple(it[:nwords]) + tuple(it[nwords:]) for it in items]
    got_dec = [s[nwords:3 * nwords] for s in S]
    L2, n2 = align(got_dec, exp_dec)
    if L2 is None:
        # find first mismatch under the most plausible latency for the message
        best = max(range(8), key=lambda L: sum(1 for i in range(min(len(exp_dec), len(got_dec) - L)) if got_dec[i + L] == exp_dec[i]))
        i = next(i for i in range(min(len(exp_dec), len(got_dec) - best)) if got_dec[i + best] != exp_dec[i])
        V("not_invertible", "decoder", "symbol group #%d %r decodes to %r (latency %d)" % (i, exp_dec[i], got_dec[i + best], best))
    else:
        checks += n2 * nwords
        for i in range(n2):
            if any(S[i + L2][3 * nwords:]):
                V("valid_flagged_invalid", "decoder.invalid", "symbol group #%d %r flagged invalid" % (i, exp_dec[i]))
                break
    # line words: align with the typed reference; fall back to decoder latency - 1
    rd = -1
    ref_words = []
    for s in syms:
        b, rd = ref_encode(s[0], s[1], rd)
        wv = int(b, 2) if not lsb else int(b[::-1], 2)
        ref_words.append(wv)
    ref_groups = [tuple(ref_words[g:g + nwords]) for g in range(0, len(ref_words), nwords)]
    got_line = [s[:nwords] for s in S]
    L1, n1 = align(got_line, ref_groups)
    standard = L1 is not None
    if L1 is None:
        L1 = (L2 - 1) if L2 else 2
        n1 = min(len(items), len(got_line) - L1)
    line = [w for g in got_line[L1:L1 + n1] for w in g]
    kfl = [s[1] for s in syms][:len(line)]
    checks += check_line(line, kfl, lsb, V, "encoder.output")
    bench.probe("matches_standard_table" if standard else "nonstandard_code_words")
    stats = {"cycles": bench.cycle["sys"], "checks": checks, "nontrivial": drv.stalls > 0 and n1 >= 16,
             "faults": {"ce_stall": drv.stalls}, "probes": dict(bench.probes)}
    stats["probes"]["symbols_checked"] = len(line)
    import hashlib
    dg = hashlib.sha256(repr((line, scn["ce_pattern"][:64])).encode()).hexdigest()[:16]
    return {"violations": viol, "digest": dg, "stats": stats}


class Line(Agent):
    """Registered stage between StreamEncoder.source and StreamDecoder.sink with bit-flip injection.
    Behaves as a legal one-entry buffer (consumer towards the encoder, producer towards the decoder)."""

    def __init__(self, src, dst, pattern, flips, nwords):
        self.src, self.dst, self.pattern = src, dst, pattern
        self.flips = {}
        for tok, word, bits_ in flips:
            self.flips.setdefault(tok, []).append((word, bits_))
        self.reads = (src.valid, src.ready, src.data, dst.valid, dst.ready)
        self.words = []      # clean line tokens in order
        self.sent = []       # (possibly corrupted) tokens handed to the decoder
        self.holding = None
        self.offering = False
        self.prev = None
        self.stall = 0
        self.flipped = 0

    def done(self):
        return self.holding is None and not self.offering

    def step(self, v, t, w):
        src, dst = self.src, self.dst
        if self.prev is not None and v[src.valid] and False:
            pass
        # downstream handshake
        if self.offering and v[dst.ready]:
            self.offering = False
            self.holding = None
        # upstream handshake
        if v[src.valid] and v[src.ready]:
            tok = v[src.data]
            idx = len(self.words)
            self.words.append(tok)
            x = tok
            for word, bits_ in self.flips.get(idx, ()):
                for b in bits_:
                    x ^= 1 << (10 * word + b)
                self.flipped += 1
            self.holding = x
            self.sent.append(x)
        elif v[src.valid]:
            self.stall += 1
        # drive downstream
        if self.holding is not None and not self.offering:
            w(dst.valid, 1)
            w(dst.data, self.holding)
            self.offering = True
        elif self.holding is None and v[dst.valid]:
            w(dst.valid, 0)
        # upstream ready for next cycle: only when empty after this cycle's decisions
        free = self.holding is None
        want = 1 if t >= len(self.pattern) else int(self.pattern[t] == "1")
        r = 1 if (free and want) else 0
        if r != v[src.ready]:
            w(src.ready, r)


def run_stream(scn, viol, V):
    from migen import Module
    from litex.soc.cores.code_8b10b import StreamEncoder, StreamDecoder
    nwords = scn["nwords"]
    m = Module()
    m.submodules.enc = enc = StreamEncoder(nwords)
    m.submodules.dec = dec = StreamDecoder(nwords)
    toks = []
    for grp in scn["symbols"]:
        d = sum(s[0] << (8 * i) for i, s in enumerate(grp))
        k = sum(s[1] << i for i, s in enumerate(grp))
        toks.append({"d": d, "k": k, "first": 0, "last": 0})
    horizon = scn["horizon"]
    bench = Bench(wrap_top(m), max_cycles=horizon + 6 * len(toks) + 200, fingerprint=False)
    prod = bench.add(Producer(enc.sink, toks, scn["src_pattern"], None, name="sym", coop_from=horizon))
    line = bench.add(Line(enc.source, dec.sink, scn["mid_pattern"], scn["faults"], nwords))
    cons = bench.add(Consumer(dec.source, scn["dst_pattern"], name="dec"))
    cons.quiet = 40
    bench.run()
    checks = 0
    if bench.violation is not None:
        d_ = bench.violation.as_dict()
        d_["prop"] = "C17"
        viol.append(d_)
    # the StreamDecoder has no invalid output: corrupted tokens are simply not compared
    bad_tok = {f[0] for f in scn["faults"]}
    got = cons.got
    if len(line.words) < len(toks) or len(got) < len(toks):
        V("stream_stuck", "stream", "%d of %d tokens encoded, %d decoded after %d cycles" % (len(line.words), len(toks), len(got), bench.cycle["sys"]))
    for i, (tg, g) in enumerate(got[:len(toks)]):
        if i in bad_tok:
            continue
        checks += 1
        if g["d"] != toks[i]["d"] or g["k"] != toks[i]["k"]:
            V("not_invertible", "stream", "token #%d d=%#x k=%#x decoded as d=%#x k=%#x" % (i, toks[i]["d"], toks[i]["k"], g["d"], g["k"]), tg)
            break
    if not scn["bubbles"]:
        # stall-only schedule: the emitted line must be one continuous legal 8b/10b stream
        words, kfl = [], []
        for tok, grp in zip(line.words, scn["symbols"]):
            for i in range(nwords):
                words.append((tok >> (10 * i)) & 0x3ff)
                kfl.append(grp[i][1])
        checks += check_line(words, kfl, True, V, "stream_encoder.source")
    stats = {"cycles": bench.cycle["sys"], "checks": checks,
             "nontrivial": (line.stall + cons.stall_cycles) > 0 and len(got) >= 8,
             "faults": {"stall_mid": line.stall, "stall_dst": cons.stall_cycles, "bit_flip_line": line.flipped,
                        "bubble_src": prod.paused_cycles},
             "probes": dict(bench.probes)}
    return {"violations": viol, "digest": bench.digest(), "stats": stats}


def run_invalid(scn, viol, V):
    from migen import Module
    from litex.soc.cores.code_8b10b import Decoder
    m = Module()
    m.submodules.dec = dec = Decoder(lsb_first=scn["lsb_first"])
    items = [[w] for w in scn["words"]]
    bench = Bench(wrap_top(m), max_cycles=len(scn["ce_pattern"]) + len(items) + 64, fingerprint=False)
    drv = bench.add(CEDriver(dec.ce, [dec.input], items, scn["ce_pattern"], [dec.invalid]))
    bench.run()
    exp = [(int(bin(w).count("1") not in (4, 5, 6)),) for w in scn["words"]]
    L, n = align(drv.samples, exp)
    checks = n
    if L is None:
        best = max(range(8), key=lambda L_: sum(1 for i in range(min(len(exp), len(drv.samples) - L_)) if drv.samples[i + L_] == exp[i]))
        i = next(i for i in range(min(len(exp), len(drv.samples) - best)) if drv.samples[i + best] != exp[i])
        w_ = scn["words"][i]
        V("invalid_flag_wrong", "decoder.invalid", "line word %s (%d ones): invalid=%d (latency %d)"
          % (format(w_, "010b"), bin(w_).count("1"), drv.samples[i + best][0], best))
    import hashlib
    stats = {"cycles": bench.cycle["sys"], "checks": checks, "nontrivial": drv.stalls > 0,
             "faults": {"ce_stall": drv.stalls, "line_word_arbitrary": len(items)}, "probes": {}}
    return {"violations": viol, "digest": hashlib.sha256(repr((scn["words"][:32], scn["ce_pattern"][:64])).encode()).hexdigest()[:16],
            "stats": stats}


def extra_coverage(results):
    return {}
