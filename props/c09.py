"""C09 - Bus bridges and AXI-Lite converters preserve memory semantics and protocol rules.

Families (part 1, AXI-Lite/Wishbone/CSR side): axil2wb (AXILite2Wishbone), wb2axil (Wishbone2AXILite),
axil_conv (AXILiteDown/Up/Converter ratios 2/4/8), axil_sram (AXILiteSRAM), axil2csr (AXILite2CSR + CSR SRAM),
axil_remap (AXILiteRemapper), chains (wb->axil->wb, axil->wb->axil). AXI4-full bridges: see family list.
The partner on the downstream side is an agent of that protocol with its own legal timing (several requests
accepted before answering, delayed ready, error answers on a marked range), never LiteX's own SRAM."""
from dsim import prng
from dsim.kernel import Bench, wrap_top
from dsim.axil_agents import AXILMaster, AXILSlave
from dsim.wb_agents import WBMaster, WBSlave, PortRecorder, CombSlave

PROPERTY = "C09"
LEVEL = "exploration"
RULE = ("one run = one real bridge/converter (or chain of two) with seeded widths/ratio/base address, a literal transaction "
        "history issued by a master agent of the upstream protocol (reads and writes concurrently where the protocol allows, "
        "strobes, gaps, back-pressure on responses, program-order hazards respected) against a slave agent of the downstream "
        "protocol with literal ready patterns, latencies, queue depth and an error range; oracle: reference byte memory on the "
        "master side, one response per request with the right response code, protocol monitors on every channel the bridge "
        "drives. Non-trivial = reads returned bytes written earlier with a different strobe shape, some channel was back-"
        "pressured and >= 10 transactions completed; distinct = distinct event-log digest")
ASSUMPTIONS = [
    "conflicting accesses (same word, one a write) are issued in program order by the master agent (AXI has no ordering between "
    "the read and write channels); everything else is concurrent",
    "AXILite2Wishbone ignores the Wishbone err line: error answers are not generated on that path (listed known finding C09-F1)",
    "AXILite2CSR / CSR bus: whole-word writes only (no byte enables on the CSR bus by design)",
]
COMPONENTS = {"real": ["litex.soc.interconnect.axi.AXILite2Wishbone/Wishbone2AXILite/AXILiteDownConverter/AXILiteUpConverter/"
                       "AXILiteConverter/AXILiteSRAM/AXILite2CSR/AXILiteRemapper", "litex.soc.interconnect.csr_bus.SRAM",
                       "litex.gen.sim.core.Simulator"],
              "stub": ["AXI-Lite / Wishbone master and slave agents", "clock source"]}
CHUNK = 4
FAMS = ["axil2wb", "wb2axil", "axil_conv", "axil_sram", "axil2csr", "axil_remap", "chain", "axi2axil", "axi2wb", "axil2axi", "wb2axi", "ahb2wb", "adapter"]


SEEDED_SCALE = {"quick": 6, "thorough": 4}      # multiplies the run counts of the sampled families in plan()

def plan(tier):
    n = 40 if tier == "quick" else 3000
    return [(f, n) for f in FAMS]


def hb(b):
    return ((b * 2246822519) >> 9) & 0xff


def gen_axil_ops(rng, n, nbytes, addrs, full_strb=False, err_addrs=()):
    ops = []
    for j in range(n):
        a = addrs(rng) * nbytes
        if rng.random() < 0.5:
            strb = (1 << nbytes) - 1 if (full_strb or rng.random() < 0.5) else rng.getrandbits(nbytes)
            ops.append({"kind": "w", "addr": a, "data": rng.getrandbits(8 * nbytes), "strb": strb,
                        "aw_gap": rng.choice([0, 0, 1, 4]), "w_gap": rng.choice([0, 0, 1, 4, 4, 9, 14])})      # (data long after its address too)
        else:
            ops.append({"kind": "r", "addr": a, "ar_gap": rng.choice([0, 0, 1, 4])})
    return ops


def slave_cfg(rng, horizon=300):
    return {"aw": prng.pattern(rng, horizon, rng.choice([1.0, 0.7, 0.3])), "w": prng.pattern(rng, horizon, rng.choice([1.0, 0.7, 0.3])),
            "ar": prng.pattern(rng, horizon, rng.choice([1.0, 0.7, 0.3])), "lat": [rng.choice([0, 1, 3, 7]) for _ in range(8)],
            "depth": rng.choice([1, 2, 4])}


def gen_axi_ops(rng, n, nb, base_word, narrow=True):
    from dsim.axi_agents import FIXED, INCR, WRAP
    ops = []
    full = (nb - 1).bit_length()
    for j in range(n):
        burst = rng.choice([INCR, INCR, INCR, FIXED, WRAP])
        size = full if (not narrow or rng.random() < 0.75) else rng.randint(0, full)
        ln = rng.choice([1, 3, 7]) if burst == WRAP else rng.choice([0, 0, 1, 2, 3, 5])
        addr = (base_word + rng.randrange(8)) * nb
        if size < full:
            addr += rng.randrange(nb >> size) << size
        op = {"kind": rng.choice(["w", "r"]), "addr": addr, "len": ln, "size": size, "burst": burst, "id": rng.getrandbits(3),
              "gap": rng.choice([0, 0, 1, 4])}
        if op["kind"] == "w":
            from dsim.axi_agents import beat_addresses
            op["data"], op["strb"] = [], []
            for k_, a in enumerate(beat_addresses(addr, ln, size, burst)):
                lo = a % nb
                lanes = ((1 << (1 << size)) - 1) << ((lo >> size) << size)
                if rng.random() < 0.3:
                    lanes &= rng.getrandbits(nb)
                op["strb"].append(lanes & ((1 << nb) - 1))
                op["data"].append(rng.getrandbits(8 * nb))
            op["wgaps"] = [rng.choice([0, 0, 1, 3]) for _ in range(4)]
        ops.append(op)
    return ops


def generate(family, rng, tier, wb_err=False, up_pipelined=False, lite_pipelined=False):
    if family == "adapter":
        from props import c09_adapter
        return c09_adapter.generate(rng, tier)
    scn = _generate(family, rng, tier, wb_err, up_pipelined, lite_pipelined)
    if family in ("axil2wb", "chain", "axi2wb", "ahb2wb") and rng.random() < 0.3:
        # the Wishbone side is a zero-wait-state memory built from real logic (ack in the cycle of the request, literal wait cycles)
        scn["comb_slave"] = prng.pattern(rng, 400, rng.choice([1.0, 1.0, 0.8, 0.5]))
    return scn


def _generate(family, rng, tier, wb_err=False, up_pipelined=False, lite_pipelined=False):
    n = rng.randint(20, 60)
    p = {"family": family}
    scn = {"family": family, "params": p, "max_out": rng.choice([1, 2, 4]),
           "bready": prng.pattern(rng, 300, rng.choice([1.0, 0.6, 0.3])), "rready": prng.pattern(rng, 300, rng.choice([1.0, 0.6, 0.3]))}
    if family == "axil2wb":
        p.update(base=rng.choice([0, 0x1000, 0x40000000]), addressing=rng.choice(["word", "byte"]))
        scn["ops"] = gen_axil_ops(rng, n, 4, lambda r: (p["base"] >> 2) + r.randrange(8))
        scn["lat"] = [rng.choice([1, 1, 2, 5]) for _ in range(8)]
        # Wishbone addresses (as seen by the slave) that always answer err
        sh = 0 if p["addressing"] == "word" else 2
        scn["wb_errs"] = [(2 << sh), (5 << sh)] if wb_err else []
    elif family == "wb2axil":
        p.update(base=rng.choice([0, 0x2000]), err=rng.random() < 0.4)
        ops = []
        for j in range(n):
            adr = (p["base"] >> 2) + rng.randrange(8) + (16 if (p["err"] and rng.random() < 0.15) else 0)
            gap = rng.choice([0, 0, 1, 3])
            ops.append({"we": int(rng.random() < 0.5), "adr": adr, "dat": rng.getrandbits(32), "sel": rng.choice([15, 15, 3, 5, 8]),
                        "gap": gap, "keep_cyc": int(gap > 0 and rng.random() < 0.3)})
        scn["ops"] = ops
        scn["slave"] = slave_cfg(rng)
    elif family == "axil_conv":
        ratio = rng.choice([2, 2, 4, 8])
        narrow = rng.choice([8, 16, 32]) if ratio < 8 else 8
        down = rng.random() < 0.5 and not up_pipelined
        p.update(dw_m=narrow * ratio if down else narrow, dw_s=narrow if down else narrow * ratio, wrapper=rng.random() < 0.5,
                 err=rng.random() < 0.3)
        nb = p["dw_m"] // 8
        base = rng.randrange(0, 32)
        scn["ops"] = gen_axil_ops(rng, n, nb, lambda r: base + r.randrange(6) + (64 if (p["err"] and r.random() < 0.12) else 0))
        scn["slave"] = slave_cfg(rng)
        if not down and not up_pipelined:
            scn["max_out"] = 1      # AXILiteUpConverter with several outstanding requests: listed known finding C09-F2
    elif family == "axil_sram":
        p.update(depth=rng.choice([8, 16, 64]), read_only=rng.random() < 0.2, init=[rng.getrandbits(32) for _ in range(rng.choice([0, 4, 8]))])
        scn["ops"] = gen_axil_ops(rng, n, 4, lambda r: r.randrange(p["depth"]))
    elif family == "axil2csr":
        p.update(depth=rng.choice([8, 16]))
        scn["ops"] = gen_axil_ops(rng, n, 4, lambda r: r.randrange(p["depth"]), full_strb=True)
    elif family == "axil_remap":
        p.update(origin=rng.choice([0, 0x10000, 0x40000000]), size=rng.choice([None, 0x100, 0x1000]))
        scn["ops"] = gen_axil_ops(rng, n, 4, lambda r: r.choice([0, 0x40, 0x400, 0x4000]) + r.randrange(6))
        scn["slave"] = slave_cfg(rng)
    elif family in ("axi2axil", "axi2wb"):
        p.update(base=0)
        scn["ops"] = gen_axi_ops(rng, rng.randint(8, 24), 4, 0x10)
        scn["max_out"] = rng.choice([1, 2])
        if family == "axi2axil":
            scn["slave"] = slave_cfg(rng)
            if not lite_pipelined:
                # known finding C09-F4: the bridge needs an AXI-Lite slave that takes one request at a time and never takes
                # the write data before the address
                scn["slave"]["depth"] = 1
                scn["slave"]["aw"] = ""
                if rng.random() < 0.4:
                    # a slave that takes the next read address in the very cycle its read data leaves (still one request at a time);
                    # the master takes read data at once
                    scn["slave"]["ar_with_r"] = True
                    scn["rready"] = ""
        else:
            scn["lat"] = [rng.choice([1, 1, 2, 5]) for _ in range(8)]
    elif family == "axil2axi":
        p["err"] = rng.random() < 0.4       # the AXI slave answers SLVERR above byte address 0x400
        scn["ops"] = gen_axil_ops(rng, n, 4, lambda r: 0x30 + r.randrange(8) + (0x100 if (p["err"] and r.random() < 0.15) else 0))
        scn["slave"] = slave_cfg(rng)
    elif family == "wb2axi":
        ops = []
        for j in range(n):
            gap = rng.choice([0, 0, 1, 3])
            ops.append({"we": int(rng.random() < 0.5), "adr": 0x50 + rng.randrange(8), "dat": rng.getrandbits(32),
                        "sel": rng.choice([15, 15, 3, 5, 8]), "gap": gap, "keep_cyc": 0})
        p["err"] = rng.random() < 0.4       # the AXI slave answers SLVERR above byte address 0x400
        if p["err"]:
            for o_ in ops:
                if rng.random() < 0.15:
                    o_["adr"] += 0x100
        scn["ops"] = ops
        scn["slave"] = slave_cfg(rng)
    elif family == "ahb2wb":
        ops = []
        p["dw"] = rng.choice([32, 32, 64])
        nb, top = p["dw"] // 8, (p["dw"] // 8).bit_length() - 1
        for j in range(n):
            size = rng.choice([top, top, 2, 1, 0])
            a = (0x20 + rng.randrange(8)) * nb + (rng.randrange(nb >> size) << size)
            ops.append({"write": int(rng.random() < 0.5), "addr": a, "size": size, "data": rng.getrandbits(p["dw"]), "gap": rng.choice([0, 0, 1, 3])})
        scn["ops"] = ops
        scn["lat"] = [rng.choice([1, 1, 2, 5]) for _ in range(8)]
        p["addressing"] = rng.choice(["word", "byte"])
    elif family == "chain":
        p.update(kind=rng.choice(["axil_wb_axil", "wb_axil_wb"]))
        if p["kind"] == "axil_wb_axil":
            scn["ops"] = gen_axil_ops(rng, n, 4, lambda r: 0x20 + r.randrange(8))
            scn["slave"] = slave_cfg(rng)
        else:
            ops = []
            for j in range(n):
                gap = rng.choice([0, 0, 1, 3])
                ops.append({"we": int(rng.random() < 0.5), "adr": 0x40 + rng.randrange(8), "dat": rng.getrandbits(32),
                            "sel": rng.choice([15, 15, 3, 5, 8]), "gap": gap, "keep_cyc": 0})
            scn["ops"] = ops
            scn["lat"] = [rng.choice([1, 1, 2, 5]) for _ in range(8)]
    return scn


# ------------------------------------------------------------------------------------------------
def run(scn):
    if scn["family"] == "adapter":
        from props import c09_adapter
        return c09_adapter.run(scn)
    if scn["family"] in ("axi2axil", "axi2wb", "axil2axi", "wb2axi", "ahb2wb"):
        from props import c09b
        return c09b.run(scn)
    return run1(scn)


def run1(scn):
    from migen import Module, Memory
    from litex.soc.interconnect import wishbone, csr_bus
    from litex.soc.interconnect import axi
    p = scn["params"]
    fam = p["family"]
    top = Module()
    viols = []

    def V(cls, obs, msg, cycle=None):
        if len(viols) < 5:
            viols.append({"prop": "C09", "cls": cls, "observable": obs, "msg": msg, "cycle": cycle})
    up_axil = fam in ("axil2wb", "axil_conv", "axil_sram", "axil2csr", "axil_remap", "axil_cdc") or (fam == "chain" and p["kind"] == "axil_wb_axil")
    xl = lambda b: b  # noqa  master byte address -> store byte address
    store = None        # ("axil", agent) / ("wb", agent) / None (DUT is the memory)
    init_b = hb
    err_pred = lambda b: False  # noqa
    ro = False
    if fam == "axil2wb":
        mb = axi.AXILiteInterface(data_width=32, address_width=32)
        wb = wishbone.Interface(data_width=32, adr_width=30, addressing=p["addressing"])
        top.submodules.dut = axi.AXILite2Wishbone(mb, wb, base_address=p["base"])
        base = p["base"]
        xl = lambda b: (b - base) & 0xffffffff  # noqa
        sbus = ("wb", wb)
    elif fam == "wb2axil":
        wbm = wishbone.Interface(data_width=32, adr_width=30)
        sb = axi.AXILiteInterface(data_width=32, address_width=32)
        top.submodules.dut = axi.Wishbone2AXILite(wbm, sb, base_address=p["base"])
        base = p["base"]
        xl = lambda b: (b - base) & 0xffffffff  # noqa
        sbus = ("axil", sb)
        if p["err"]:
            err_pred = lambda b: 64 <= b < 128  # noqa  (store byte addresses of words 16..31)
    elif fam == "axil_conv":
        mb = axi.AXILiteInterface(data_width=p["dw_m"], address_width=32)
        sb = axi.AXILiteInterface(data_width=p["dw_s"], address_width=32)
        if p["wrapper"]:
            top.submodules.dut = axi.AXILiteConverter(mb, sb)
        elif p["dw_m"] > p["dw_s"]:
            top.submodules.dut = axi.AXILiteDownConverter(mb, sb)
        else:
            top.submodules.dut = axi.AXILiteUpConverter(mb, sb)
        sbus = ("axil", sb)
        if p["err"]:
            nb = p["dw_m"] // 8
            err_pred = lambda b: b >= 64 * nb  # noqa
    elif fam == "axil_sram":
        mb = axi.AXILiteInterface(data_width=32, address_width=32)
        top.submodules.dut = axi.AXILiteSRAM(p["depth"] * 4, read_only=p["read_only"], init=p["init"] or None, bus=mb)
        depth = p["depth"]
        init = list(p["init"]) + [0] * (depth - len(p["init"]))
        xl = lambda b: ((b >> 2) % depth) * 4 + (b & 3)  # noqa
        init_b = lambda b: (init[b >> 2] >> (8 * (b & 3))) & 0xff  # noqa
        ro = p["read_only"]
        sbus = None
    elif fam == "axil2csr":
        mb = axi.AXILiteInterface(data_width=32, address_width=32)
        cb = csr_bus.Interface(data_width=32, address_width=14)
        top.submodules.dut = axi.AXILite2CSR(mb, cb)
        mem = Memory(32, p["depth"], name="m")
        top.submodules.sram = csr_bus.SRAM(mem, 0, bus=cb)
        depth = p["depth"]
        xl = lambda b: ((b >> 2) % depth) * 4 + (b & 3)  # noqa
        init_b = lambda b: 0  # noqa
        sbus = None
    elif fam == "axil_cdc":
        # used by C05: the five channels cross between the clock domains "sys" (master) and "b" (slave)
        from dsim import cdc as _cdc
        cdc_reg = _cdc.new_registry()
        mb = axi.AXILiteInterface(data_width=32, address_width=32)
        sb = axi.AXILiteInterface(data_width=32, address_width=32)
        top.submodules.dut = axi.AXILiteClockDomainCrossing(mb, sb, cd_from="sys", cd_to="b")
        sbus = ("axil", sb)
    elif fam == "axil_remap":
        mb = axi.AXILiteInterface(data_width=32, address_width=32)
        sb = axi.AXILiteInterface(data_width=32, address_width=32)
        top.submodules.dut = axi.AXILiteRemapper(mb, sb, origin=p["origin"], size=p["size"])
        size = p["size"] if p["size"] is not None else 1 << 32
        org = p["origin"]
        xl = lambda b: (org | (b & (size - 1))) & 0xffffffff  # noqa
        sbus = ("axil", sb)
    elif fam == "chain" and p["kind"] == "axil_wb_axil":
        mb = axi.AXILiteInterface(data_width=32, address_width=32)
        wb = wishbone.Interface(data_width=32, adr_width=30)
        sb = axi.AXILiteInterface(data_width=32, address_width=32)
        top.submodules.a = axi.AXILite2Wishbone(mb, wb)
        top.submodules.b = axi.Wishbone2AXILite(wb, sb)
        sbus = ("axil", sb)
    else:
        wbm = wishbone.Interface(data_width=32, adr_width=30)
        mid = axi.AXILiteInterface(data_width=32, address_width=32)
        wb = wishbone.Interface(data_width=32, adr_width=30)
        top.submodules.a = axi.Wishbone2AXILite(wbm, mid)
        top.submodules.b = axi.AXILite2Wishbone(mid, wb)
        sbus = ("wb", wb)
    nops = len(scn["ops"])
    sdom = None
    if fam == "axil_cdc":
        sdom = "b"
        sched = scn["schedule"]
        bench = Bench(wrap_top(top, domains=("sys", "b")), domains=["sys", "b"], schedule=sched, overrides=_cdc.overrides(),
                      max_cycles=nops * 120 + 600 + sum(1 for c in sched if (ord(c) - ord("a") + 1) & 1), tail=40, fingerprint=False)
        _cdc.MetaInjector(cdc_reg, scn.get("meta")).attach(bench, {})
    else:
        bench = Bench(wrap_top(top), max_cycles=nops * 60 + 400, tail=8, fingerprint=False)
    # ---- master
    if up_axil:
        nbm = len(mb.w.strb)
        ma = bench.add(AXILMaster(mb, scn["ops"], name="m", max_out=scn["max_out"], bready=scn["bready"], rready=scn["rready"],
                                  hazard=True, word_shift=(nbm - 1).bit_length(),
                                  hazard_key=(lambda a, sh=(nbm - 1).bit_length(): xl((a >> sh) << sh))))
    else:
        nbm = 4
        ma = bench.add(WBMaster(wbm, scn["ops"], name="m"))
    # ---- slave
    sa = None
    if sbus is not None and sbus[0] == "axil":
        sc = scn["slave"]
        nbs = len(sbus[1].w.strb)

        def rd(a, nbs=nbs):
            return sum(hb(a + i) << (8 * i) for i in range(nbs))
        er = None
        if fam == "wb2axil" and p["err"]:
            er = (64, 128)
        if fam == "axil_conv" and p["err"]:
            er = (64 * (p["dw_m"] // 8), 1 << 32)
        sa = bench.add(AXILSlave(sbus[1], name="s", awready=sc["aw"], wready=sc["w"], arready=sc["ar"], lat=sc["lat"], depth=sc["depth"],
                                 read_data=rd, err_range=er, memory=True), sdom)
    elif sbus is not None:
        wbs = sbus[1]
        shift = 0 if getattr(wbs, "addressing", "word") == "word" else 2

        def init_word(a, shift=shift):
            w_ = a >> shift
            return sum(hb(w_ * 4 + i) << (8 * i) for i in range(4))
        if scn.get("comb_slave") and not scn.get("wb_errs"):
            sa = bench.add(CombSlave(top, wbs, 12, init_word, scn["comb_slave"], shift=shift))
        else:
            sa = bench.add(WBSlave(wbs, scn["lat"], name="s", init=init_word, errs=()))
        if scn.get("wb_errs"):
            sa.err_adr = set(scn["wb_errs"])
        prev = [None]

        def mon(t, row):
            cyc, stb, we, adr, dat_w, sel, ack, err = row
            if stb and not cyc:
                bench.violate("wb_stb_without_cyc", "slave side", "cycle %d: stb high while cyc low" % t)
            cur = (cyc, stb, we, adr, sel, dat_w if we else 0)
            if prev[0] is not None and cur != prev[0]:
                bench.violate("wb_request_changed", "slave side", "cycle %d: request changed before ack: %r -> %r" % (t, prev[0], cur))
            prev[0] = cur if (cyc and stb and not ack and not err) else None
        bench.add(PortRecorder([wbs.cyc, wbs.stb, wbs.we, wbs.adr, wbs.dat_w, wbs.sel, wbs.ack, wbs.err], mon))
    bench.run()
    if bench.violation is not None:
        viols.append(dict(bench.violation.as_dict(), prop="C09"))
    checks = 0
    ref = {}
    raw = 0
    # ---- history in program order (conflicts are serialized by the master agent, so program order is the memory order)
    if up_axil:
        if not ma.done():
            V("no_response", "master", "%d/%d writes and %d/%d reads answered after %d cycles" % (ma.b_n, len(ma.writes), ma.r_n, len(ma.reads_), bench.cycle["sys"]))
        wi = ri = 0
        for o in scn["ops"]:
            if o["kind"] == "w":
                if wi < len(ma.log["b"]):
                    resp = ma.log["b"][wi][1]
                    e = any(err_pred(xl(o["addr"] + i)) for i in range(nbm))
                    e_en = any(err_pred(xl(o["addr"] + i)) for i in range(nbm) if (o["strb"] >> i) & 1)
                    checks += 1
                    if e and not e_en:
                        # only DISABLED byte lanes fall into the erroring range: a converter that skips sub-words without enabled
                        # bytes never shows them to the slave (OKAY), a bridge that forwards the word gets the slave's SLVERR: both fine
                        if resp not in (0, 2):
                            V("write_response", "master.b", "write #%d addr %#x answered resp=%d" % (wi, o["addr"], resp))
                            break
                        e = bool(resp)
                    elif bool(resp) != e or (resp not in (0, 2)):
                        V("write_response", "master.b", "write #%d addr %#x answered resp=%d, expected %s" % (wi, o["addr"], resp, "SLVERR" if e else "OKAY"))
                        break
                    if not e and not ro:
                        for i in range(nbm):
                            if (o["strb"] >> i) & 1:
                                ref[xl(o["addr"] + i)] = (o["data"] >> (8 * i)) & 0xff
                wi += 1
            else:
                if ri < len(ma.log["r"]):
                    _, data, resp = ma.log["r"][ri]
                    e = any(err_pred(xl(o["addr"] + i)) for i in range(nbm))
                    checks += 1
                    if bool(resp) != e:
                        V("read_response", "master.r", "read #%d addr %#x answered resp=%d, expected %s" % (ri, o["addr"], resp, "SLVERR" if e else "OKAY"))
                        break
                    if not e:
                        for i in range(nbm):
                            b_ = xl(o["addr"] + i)
                            exp = ref.get(b_, init_b(b_))
                            got = (data >> (8 * i)) & 0xff
                            checks += 1
                            raw += b_ in ref
                            if got != exp:
                                V("read_data", "master.r", "read #%d addr %#x lane %d: got %#04x expected %#04x (%s)"
                                  % (ri, o["addr"], i, got, exp, "written earlier" if b_ in ref else "initial content"))
                                break
                        else:
                            ri += 1
                            continue
                        break
                ri += 1
        for (t, ch, what) in (ma.proto + ma.early_b)[:2]:
            V("protocol_master_side", "master." + ch, "cycle %d: %s" % (t, what), t)
        stalls = sum(ma.stall.values())
        ntr = ma.b_n + ma.r_n
    else:
        if not ma.done():
            V("no_response", "master", "operation #%d %r not terminated after %d cycles" % (ma.idx, scn["ops"][ma.idx], bench.cycle["sys"]))
        for r in ma.results:
            o = scn["ops"][r["op"]]
            e = any(err_pred(xl(o["adr"] * 4 + i)) for i in range(4))
            checks += 1
            if bool(r["err"]) != e:
                V("wb_error_propagation", "master", "op #%d %r terminated with err=%d, expected %d" % (r["op"], o, r["err"], int(e)))
                break
            if e:
                continue
            for i in range(4):
                if not (o["sel"] >> i) & 1:
                    continue
                b_ = xl(o["adr"] * 4 + i)
                if o["we"]:
                    ref[b_] = (o["dat"] >> (8 * i)) & 0xff
                else:
                    exp = ref.get(b_, init_b(b_))
                    got = (r["dat_r"] >> (8 * i)) & 0xff
                    checks += 1
                    raw += b_ in ref
                    if got != exp:
                        V("read_data", "master", "op #%d read %#x lane %d: got %#04x expected %#04x" % (r["op"], o["adr"], i, got, exp))
                        break
            else:
                continue
            break
        stalls = ma.wait_cycles
        ntr = len(ma.results)
    # ---- store content and slave-side protocol
    if sa is not None and sbus[0] == "axil":
        for (t, ch, what) in sa.proto[:2]:
            V("protocol_slave_side", "slave." + ch, "cycle %d: %s" % (t, what), t)
        nbs = len(sbus[1].w.strb)
        if fam == "axil_cdc":
            # the address channels are streams: the whole beat (address and AxPROT) arrives, in order
            for ch, sent in (("aw", [o for o in scn["ops"] if o["kind"] == "w"]), ("ar", [o for o in scn["ops"] if o["kind"] == "r"])):
                for k, (got, o) in enumerate(zip(sa.prot_log[ch], sent)):
                    checks += 1
                    if got != o.get("prot", 0):
                        V("payload_field_lost", "slave.%s.prot" % ch, "%s beat #%d (addr %#x) sent with prot=%d arrives with prot=%d"
                          % (ch, k, o["addr"], o.get("prot", 0), got))
                        break
        if not viols:
            for b_, val in ref.items():
                w_ = sa._rdata(b_ - (b_ % nbs))
                checks += 1
                if (w_ >> (8 * (b_ % nbs))) & 0xff != val:
                    V("store_content", "slave memory", "store byte %#x holds %#04x, reference %#04x" % (b_, (w_ >> (8 * (b_ % nbs))) & 0xff, val))
                    break
    elif sa is not None:
        if not viols:
            shift = 0 if getattr(sbus[1], "addressing", "word") == "word" else 2
            for b_, val in ref.items():
                w_ = sa.read_word((b_ >> 2) << shift)
                checks += 1
                if (w_ >> (8 * (b_ & 3))) & 0xff != val:
                    V("store_content", "slave memory", "store byte %#x holds %#04x, reference %#04x" % (b_, (w_ >> (8 * (b_ & 3))) & 0xff, val))
                    break
    stats = {"cycles": bench.cycle["sys"], "checks": checks, "nontrivial": bool(raw and (stalls or fam == "axil_cdc") and ntr >= 10),
             "faults": dict(bench.fault_counts, stall_cycles=stalls, err_resp=sum(1 for x in (ma.log["b"] if up_axil else []) if x[1])),
             "probes": {"transactions": ntr, "read_after_write_lanes": raw, "fam_" + fam: 1}}
    return {"violations": viols, "digest": bench.digest(), "stats": stats}


def known_match(scn, v):
    if scn.get("wb_errs") and v["cls"] in ("no_response", "write_response", "read_response"):
        return "C09-F1"
    p = scn.get("params", {})
    if p.get("family") == "axil_conv" and p["dw_m"] < p["dw_s"] and scn.get("max_out", 1) > 1:
        return "C09-F2"
    if p.get("family") == "axi2axil" and (scn.get("slave", {}).get("depth", 1) > 1 or scn.get("slave", {}).get("aw")):
        return "C09-F4"
    return None
