"""C19 (and the UART client of C15), family 'uart_full': the whole UART - RS232PHY (TX + RX on one tuning word), UART (FIFOs, status
registers, event manager: ev.tx when the TX FIFO becomes non-full, ev.rx when the RX FIFO becomes non-empty, RX pop on clearing
ev.rx or, with rx_fifo_rx_we, on reading rxtx) - behind a real CSRBank, driven by a software model that follows LiteX's own
driver protocol (interrupt style: read pending, drain while !rxempty {read rxtx; write pending}, refill TX while !txfull; polling
style for rx_fifo_rx_we) with literal think times between bus accesses. The line side is the pin-level receiver / ideal
transmitter of the uart_tx / uart_rx families.
Oracle: bytes written by software leave on the line exactly once, in order, in well-formed frames; bytes sent on the line are
read by software exactly once and in order; per cycle irq == |(pending & enable), an event (rising edge of its trigger) is
pending in the next cycle whatever software clears meanwhile, the triggers are the FIFO flags; everything is idle at the end."""
from dsim.kernel import Bench, wrap_top, Agent
from dsim.wb_agents import PortRecorder


def generate(rng, tier):
    T = rng.choice([8.0, 10.0, 13.3, 16.0])
    ntx, nrx = rng.randint(3, 24), rng.randint(3, 14)
    style = rng.choice(["irq", "irq", "poll"])
    # dynamic: RS232PHY(with_dynamic_baudrate=True) built for another bit period T0; software programs the tuning word for T first
    dyn = rng.random() < 0.3
    return {"family": "uart_full", "params": {"T": T, "tx_depth": rng.choice([2, 4, 8, 16]), "rx_depth": rng.choice([4, 8, 16]), "style": style,
                                              "dynamic": dyn, "T0": rng.choice([x for x in (8.0, 10.0, 13.3, 16.0, 27.0) if x != T])},
            "tx": [rng.getrandbits(8) for _ in range(ntx)], "rx": [{"data": rng.getrandbits(8), "gap": rng.choice([1.0, 1.0, 1.5, 3.0, 12.0])} for _ in range(nrx)],
            "think": [rng.choice([0, 0, 1, 2, 5, 17]) for _ in range(23)], "phase": rng.random(), "tx_start": rng.choice([0, 0, 40, 300]),
            "meta": [rng.getrandbits(1) for _ in range(16)]}


def run(scn, mkV, _result, decode_tx_wave, RemoteTx):
    from migen import Module
    from litex.soc.cores import uart as U
    from litex.soc.interconnect import csr_bus
    p = scn["params"]
    T = p["T"]
    clk = 1000000
    pads = U.UARTPads()
    pads.rx.reset = 1
    top = Module()
    dyn = p.get("dynamic", False)
    if dyn:
        top.submodules.phy = phy = U.RS232PHY(pads, clk, baudrate=clk / p["T0"], with_dynamic_baudrate=True)
    else:
        top.submodules.phy = phy = U.RS232PHY(pads, clk, baudrate=clk / T)
    top.submodules.uart = uart = U.UART(phy, tx_fifo_depth=p["tx_depth"], rx_fifo_depth=p["rx_depth"], rx_fifo_rx_we=(p["style"] == "poll"))
    bus = csr_bus.Interface(data_width=32, address_width=14)
    top.submodules.bank = bank = csr_bus.CSRBank(uart.get_csrs() + (phy.get_csrs() if dyn else []), address=0, bus=bus)
    adr = {c.name: a for a, c in enumerate(bank.simple_csrs)}
    reg = {k: next(n for n in adr if n.rstrip("0123456789") == k) for k in ("rxtx", "txfull", "rxempty", "ev_pending", "ev_enable") + (("tuning_word",) if dyn else ())}
    Tw = 2 ** 32 / int((clk / T / clk) * 2 ** 32)          # the bit period the core really uses (tuning word rounded down)
    # ---- line side: ideal transmitter for the RX frames
    edges, t, level = [], 30.0 + scn["phase"], 1
    for f in scn["rx"]:
        t += f["gap"] * Tw
        for b in [0] + [(f["data"] >> i) & 1 for i in range(8)] + [1]:
            if b != level:
                edges.append((t, b))
                level = b
            t += Tw
    rx_end = t
    tx, rxb = scn["tx"], [f["data"] for f in scn["rx"]]
    horizon = int(max(rx_end, scn["tx_start"] + len(tx) * 10 * Tw) + 40 * Tw + 40 * (len(tx) + len(rxb)) + 400)
    st = {"got": [], "sent": 0, "t": 0, "accesses": 0, "isr": 0}
    think = scn["think"]

    def program():
        """The software: a generator yielding bus operations ('r', name) -> value, ('w', name, value), or None (one idle cycle)."""
        def pause():
            n = think[st["accesses"] % len(think)]
            for _ in range(n):
                yield None
        if dyn:
            yield ("w", "tuning_word", int((clk / T / clk) * 2 ** 32))
        yield ("w", "ev_pending", 3)
        if p["style"] == "irq":
            yield ("w", "ev_enable", 3)
        while st["t"] < scn["tx_start"]:
            yield None
        kicked = False
        while True:
            if p["style"] == "irq":
                stat = 0
                if (yield ("irq",)):
                    st["isr"] += 1
                    stat = yield ("r", "ev_pending")
                    yield from pause()
                if stat & 2:
                    while True:
                        if (yield ("r", "rxempty")):
                            break
                        st["got"].append((yield ("r", "rxtx")))
                        yield ("w", "ev_pending", 2)
                        yield from pause()
                if stat & 1:
                    yield ("w", "ev_pending", 1)
                if (stat & 1) or not kicked:
                    kicked = True
                    while st["sent"] < len(tx):
                        if (yield ("r", "txfull")):
                            break
                        yield ("w", "rxtx", tx[st["sent"]])
                        st["sent"] += 1
                        yield from pause()
                if not stat:
                    yield None
            else:
                if not (yield ("r", "rxempty")):
                    st["got"].append((yield ("r", "rxtx")))        # (rx_fifo_rx_we: the read pops the byte)
                    yield from pause()
                if st["sent"] < len(tx) and not (yield ("r", "txfull")):
                    yield ("w", "rxtx", tx[st["sent"]])
                    st["sent"] += 1
                yield from pause()

    class Software(Agent):
        reads = (bus.dat_r, uart.ev.irq)

        def __init__(s_):
            s_.prog = program()
            s_.wait = None          # ("r", cycles left) while a read is in flight
            s_.send = None

        def done(s_):
            return st["t"] >= horizon or (st["sent"] >= len(tx) and len(st["got"]) >= len(rxb) and st["t"] > max(rx_end, 0) + 14 * Tw
                                          and st["t"] > s_.last_tx + (p["tx_depth"] + 3) * 10 * Tw)

        last_tx = 0
        cool = False

        def step(s_, v, tt, w):
            st["t"] = tt
            w(bus.we, 0)
            w(bus.re, 0)
            if s_.cool:
                # one idle bus cycle after a write: the Wishbone / AXI-Lite to CSR bridges never produce strobes in consecutive
                # cycles, and a status read in the very next cycle would not yet see the effect of the write (CSRStatus.re and
                # CSRStorage.re are registered)
                s_.cool = False
                return
            if s_.wait is not None:
                s_.wait -= 1
                if s_.wait > 0:
                    return
                s_.wait = None
                s_.send = v[bus.dat_r]
            while True:
                try:
                    op = s_.prog.send(s_.send)
                except StopIteration:
                    return
                s_.send = None
                if op is None:
                    return
                if op[0] == "irq":
                    s_.send = v[uart.ev.irq]
                    continue
                st["accesses"] += 1
                w(bus.adr, adr[reg[op[1]]])
                if op[0] == "w":
                    w(bus.dat_w, op[2])
                    w(bus.we, 1)
                    s_.cool = True
                    if op[1] == "rxtx":
                        s_.last_tx = tt
                    return
                w(bus.re, 1)
                s_.wait = 2
                return
    bench = Bench(wrap_top(top), max_cycles=horizon + 8, tail=4, fingerprint=False)
    sw = bench.add(Software())
    bench.add(RemoteTx(pads.rx, edges, scn["meta"], end=rx_end + 2 * Tw))
    rows = []
    evs = [uart.ev.tx, uart.ev.rx]
    sigs = [pads.tx, uart.ev.irq, uart.ev.enable.storage, uart.tx_fifo.sink.ready, uart.rx_fifo.source.valid]
    for e in evs:
        sigs += [e.trigger, e.pending, e.clear]
    bench.add(PortRecorder(sigs, lambda tt, row: rows.append(row)))
    bench.run()
    viols = []
    V = mkV(viols)
    wave = [r[0] for r in rows]
    got_line, checks = decode_tx_wave(wave, Tw, V)
    # ---- bytes
    checks += len(got_line) + len(st["got"])
    if not viols and got_line != tx[:len(got_line)]:
        k = next(i for i in range(len(got_line)) if got_line[i] != tx[i])
        V("byte_sequence", "tx line", "byte #%d on the line is %#04x, software wrote %#04x (%s)" % (k, got_line[k], tx[k], [hex(x) for x in got_line[max(0, k - 2):k + 2]]))
    if not viols and st["got"] != rxb[:len(st["got"])]:
        k = next((i for i in range(min(len(st["got"]), len(rxb))) if st["got"][i] != rxb[i]), len(rxb))
        V("rx_bytes", "rxtx", "byte #%d read by software is %#04x, the line carried %s (%s software, rx fifo depth %d)"
          % (k, st["got"][k], "%#04x" % rxb[k] if k < len(rxb) else "only %d bytes" % len(rxb), p["style"], p["rx_depth"]))
    if not viols and (len(got_line) < len(tx) or len(st["got"]) < len(rxb)):
        V("not_finished", "uart", "%d of %d bytes transmitted (%d written), %d of %d received bytes read after %d cycles (%s software)"
          % (len(got_line), len(tx), st["sent"], len(st["got"]), len(rxb), len(rows), p["style"]))
    # ---- events
    nev = 0
    for k in range(1, len(rows) - 1):
        r = rows[k]
        irq, en, txr, rxv = r[1], r[2], r[3], r[4]
        pmask = 0
        for i in range(2):
            trig, pend, clr = r[5 + 3 * i:8 + 3 * i]
            pmask |= pend << i
            checks += 2
            if trig != (txr, rxv)[i]:
                V("uart_event_trigger", "ev.%s.trigger" % ("tx", "rx")[i], "cycle %d: trigger=%d, FIFO flag=%d" % (k, trig, (txr, rxv)[i]), k)
            if trig and not rows[k - 1][5 + 3 * i]:
                nev += 1
                if not rows[k + 1][6 + 3 * i]:
                    V("event_lost", "ev.%s.pending" % ("tx", "rx")[i], "cycle %d: the %s event fired, pending is 0 in the next cycle" % (k, ("tx", "rx")[i]), k)
        checks += 1
        if irq != int(bool(pmask & en)):
            V("irq_wrong", "ev.irq", "cycle %d: irq=%d, pending=%#x enable=%#x" % (k, irq, pmask, en), k)
        if viols:
            break
    if not viols and rows and (rows[-1][0] != 1):
        V("not_idle", "tx", "line low at the end of the run")
    return _result(viols, (wave, st["got"]), {"cycles": len(rows), "checks": checks, "nontrivial": len(got_line) >= 3 and len(st["got"]) >= 3,
                                              "faults": {"think_cycles": sum(think), "phase_offset": 1},
                                              "probes": {"uart_full_tx": len(got_line), "uart_full_rx": len(st["got"]), "uart_isr_entries": st["isr"], "uart_events": nev,
                                                         "uart_style_" + p["style"]: 1, "uart_dynamic_baudrate": int(dyn)}})
