"""C13 - SoC resource allocation never hands out overlapping or out-of-range resources.

No clock and no fault here (stated in DESIGN.md): the parties are the clients of shared, stateful
allocators and the schedule is the ORDER in which their requests arrive. Families: bus (SoCBusHandler
add_region histories incl. IO/linker/automatic/cached/uncached, decoders evaluated with the real simulator
Evaluator at window boundaries), locs (SoCCSRHandler / SoCIRQHandler add/alloc histories), platform
(ConstraintManager request/lookup/extension histories)."""
import hashlib
import logging
import sys

PROPERTY = "C13"
LEVEL = "exploration"
RULE = ("one run = one allocator instance and a literal history of requests (a seeded multiset permuted by the scheduler): "
        "bus regions with fixed (also unaligned / ending at the top of the address space / non-power-of-two sized) and "
        "automatic origins, cached/uncached/IO/linker flags, reused names, bus data width 32/64 and address width 32/64; CSR/IRQ "
        "locations with fixed, automatic and reused names and boundary numbers; platform resources by name/number/loose with "
        "extensions. After every accepted call the allocation invariants are checked; at the end every region's decoder is "
        "evaluated (real Evaluator) at its window boundaries +-1, at all-ones/zero high bits and at seeded addresses. A "
        "rejected request ends the history (SoCError is fatal by design). Non-trivial = at least 3 accepted and 1 rejected-or-"
        "boundary request in the history; distinct = digest of the accepted allocation table")
ASSUMPTIONS = [
    "linker regions are exempt from the overlap rule by design (they describe memory for the linker inside other regions)",
    "a rejected request is fatal for the allocator instance (SoCError), as in a real build",
    "decoders are sampled at window boundaries, not over all 2^30 addresses",
]
COMPONENTS = {"real": ["litex.soc.integration.soc.SoCBusHandler/SoCRegion/SoCIORegion/SoCLocHandler/SoCCSRHandler/SoCIRQHandler",
                       "litex.build.generic_platform.ConstraintManager", "litex.gen.sim.core.Evaluator (decoder evaluation)"],
              "stub": ["requesting clients (history generator)"]}
CHUNK = 40


SEEDED_SCALE = {"quick": 200, "thorough": 300}      # multiplies the run counts of the sampled families in plan()

def plan(tier):
    if tier == "quick":
        return [("bus", 1500), ("locs", 1000), ("platform", 600), ("names", 100)]
    return [("bus", 120000), ("locs", 60000), ("platform", 30000), ("names", 6000)]


def generate(family, rng, tier):
    if family == "bus":
        aw = rng.choice([32, 32, 32, 64])
        dw = rng.choice([32, 32, 64])
        reqs = []
        n_io = rng.choice([0, 1, 1, 2])
        for i in range(n_io):
            reqs.append({"op": "io", "name": "io%d" % i, "origin": rng.choice([0x80000000, 0xf0000000, 0xe0000000, 0x40000000]),
                         "size": rng.choice([0x10000000, 0x30000000, 0x80000000, 0x1000000])})
        # the allocator scans in steps of the requested size: keep (largest region / smallest automatic size) moderate so that a
        # history costs milliseconds (its scan is linear in that ratio - a performance matter, not part of the property)
        big = rng.random() < 0.4
        for i in range(rng.randint(2, 8)):
            auto = rng.random() < 0.45
            if big:
                size = rng.choice([0x100000, 0x1000000, 0x10000000, 0x40000000, 0x30000000, 0x180000, 0x100001])
            else:
                size = rng.choice([0x1000, 0x2000, 0x3000, 0x10000, 0x10001, 0x800, 0x100000, 8, 0x1800, 0x40000])
                if auto and size < 0x800:
                    size = 0x800
            cached = rng.random() < 0.6
            r = {"op": "region", "name": "r%d" % (i if rng.random() < 0.9 else 0), "size": size, "cached": cached,
                 "linker": rng.random() < 0.08}
            if auto:
                r["origin"] = None
            else:
                base = rng.choice([0, 0x10000000, 0x20000000, 0x40000000, 0x80000000, 0xf0000000, 0xe0000000, 0xfffff000, 0xffff0000])
                r["origin"] = base + rng.choice([0, 0, 0x1000, 0x10000, 0x800, 0x100, 0x3000])
            reqs.append(r)
        rng.shuffle(reqs)
        return {"family": family, "params": {"address_width": aw, "data_width": dw}, "reqs": reqs,
                "probe_addrs": [rng.getrandbits(aw) for _ in range(6)]}
    if family == "locs":
        kind = rng.choice(["csr", "irq"])
        if kind == "csr":
            p = {"kind": "csr", "address_width": rng.choice([14, 14, 15]), "paging": rng.choice([0x800, 0x400, 0x4000]), "data_width": rng.choice([8, 32])}
            n_locs = 4 * (2 ** p["address_width"]) // p["paging"]
        else:
            p = {"kind": "irq", "n_irqs": rng.choice([32, 8, 4, 1])}
            n_locs = p["n_irqs"]
        reqs = []
        for i in range(rng.randint(2, 12)):
            name = "c%d" % (i if rng.random() < 0.85 else rng.randrange(3))
            r = rng.random()
            if r < 0.5:
                n = None
            elif r < 0.8:
                n = rng.randrange(n_locs)
            else:
                n = rng.choice([0, n_locs - 1, n_locs, n_locs + 1, -1])
            reqs.append({"name": name, "n": n, "reuse": rng.random() < 0.2})
        if kind == "irq" and n_locs <= 8:
            reqs += [{"name": "x%d" % i, "n": None, "reuse": False} for i in range(rng.randint(0, n_locs + 1))]
        if rng.random() < 0.25:
            # locations reserved at construction (reserved_csrs= / reserved_irqs=): the same rules apply to them
            p["reserved"] = [["r%d" % i, rng.choice([rng.randrange(n_locs), rng.randrange(n_locs), 0, n_locs - 1, n_locs, n_locs + 8, 2])] for i in range(rng.randint(1, 3))]
        return {"family": family, "params": p, "reqs": reqs}
    if family == "names":
        # several clients declare constants / configuration names on one SoC: names are published in upper case, so two
        # spellings of one name are the same name; a second declaration is rejected unless the caller opts out of the check
        pool = ["spi_frequency", "SPI_FREQUENCY", "Spi_Frequency", "uart_polling", "UART_POLLING", "mem0_size", "MEM0_SIZE", "x", "X", "y"]
        reqs = []
        for i in range(rng.randint(2, 10)):
            reqs.append({"op": rng.choice(["constant", "constant", "config"]), "name": rng.choice(pool), "value": rng.choice([None, i, "v%d" % i]),
                         "check": rng.random() < 0.85})
        return {"family": family, "params": {}, "reqs": reqs}
    if family == "platform":
        io = []
        names = ["led", "btn", "serial", "spi"]
        for nm in names:
            for k in range(rng.randint(0, 3)):
                # serial / spi are mostly resources made of sub-signals (a Record is handed out), the others plain pin lists
                io.append([nm, k, "record" if (nm in ("serial", "spi") and rng.random() < 0.7) else "pins"])
        rng.shuffle(io)
        ext = [[rng.choice(names + ["ext"]), rng.randint(0, 3), rng.choice(["pins", "pins", "record"])] for _ in range(rng.randint(0, 3))]
        reqs = []
        for i in range(rng.randint(2, 10)):
            r = rng.random()
            nm = rng.choice(names + ["ext"])
            if r < 0.55:
                reqs.append({"op": "request", "name": nm, "number": rng.choice([None, 0, 1, 2, 3]), "loose": rng.random() < 0.5})
            elif r < 0.8:
                reqs.append({"op": "lookup", "name": nm, "number": rng.choice([None, 0, 1, 2]), "loose": rng.random() < 0.5})
            elif r < 0.9:
                reqs.append({"op": "extend", "prepend": rng.random() < 0.5})
            else:
                reqs.append({"op": "request_all", "name": nm})
        return {"family": family, "params": {"io": io, "ext": ext}, "reqs": reqs}
    raise KeyError(family)


def _quiet():
    logging.disable(logging.CRITICAL)


def run(scn):
    _quiet()
    try:
        return {"bus": run_bus, "locs": run_locs, "platform": run_platform, "names": run_names}[scn["family"]](scn)
    finally:
        if sys.stderr is None:
            sys.stderr = sys.__stderr__


def mkV(viols):
    def V(cls, obs, msg):
        if len(viols) < 4:
            viols.append({"prop": "C13", "cls": cls, "observable": obs, "msg": msg, "cycle": None})
    return V


def run_bus(scn):
    from migen import Signal
    from litex.soc.integration.soc import SoCBusHandler, SoCRegion, SoCIORegion, SoCError
    from litex.gen.sim.core import Evaluator
    p = scn["params"]
    aw, dw = p["address_width"], p["data_width"]
    viols = []
    V = mkV(viols)
    bus = SoCBusHandler(standard="wishbone", data_width=dw, address_width=aw)
    accepted, rejected = [], 0
    checks = 0
    space = 1 << aw

    def P2(reg):
        """decoded window of a region: its size rounded up to a power of two (the statement; not read from the object under test)"""
        return 1 << max(0, (reg.size - 1).bit_length())
    for rq in scn["reqs"]:
        try:
            if rq["op"] == "io":
                bus.add_region(rq["name"], SoCIORegion(origin=rq["origin"], size=rq["size"], cached=False))
            else:
                bus.add_region(rq["name"], SoCRegion(origin=rq["origin"], size=rq["size"], cached=rq["cached"], linker=rq["linker"]))
        except SoCError:
            if sys.stderr is None:
                sys.stderr = sys.__stderr__
            rejected += 1
            break
        except AssertionError:
            rejected += 1
            break
        accepted.append(rq)
        # ---- invariants after every successful call
        regs = [(n, r) for n, r in bus.regions.items()]
        for i, (n0, r0) in enumerate(regs):
            checks += 1
            if r0.size <= 0:
                V("zero_size_region", n0, "region %s accepted with size %d" % (n0, r0.size))
            if r0.origin is None or r0.origin < 0:
                V("region_without_origin", n0, "region %s has origin %r" % (n0, r0.origin))
                continue
            for n1, r1 in regs[i + 1:]:
                if r0.linker or r1.linker:
                    continue
                a0, b0 = r0.origin, r0.origin + P2(r0)
                a1, b1 = r1.origin, r1.origin + P2(r1)
                checks += 1
                if a0 < b1 and a1 < b0:
                    V("regions_overlap", "%s/%s" % (n0, n1), "decoded windows overlap: %s [%#x,%#x) and %s [%#x,%#x)" % (n0, a0, b0, n1, a1, b1))
        if rq["op"] == "region" and rq["origin"] is None:
            r = bus.regions[rq["name"]]
            checks += 3
            if r.origin % P2(r):
                V("auto_region_unaligned", rq["name"], "automatically allocated region at %#x is not aligned to its decoded size %#x" % (r.origin, P2(r)))
            if r.origin + P2(r) > space:
                V("auto_region_outside_space", rq["name"], "automatically allocated region [%#x,%#x) lies outside the %d-bit address space"
                  % (r.origin, r.origin + P2(r), aw))
            if not rq["cached"]:
                inside = any(io.origin <= r.origin and r.origin + r.size <= io.origin + io.size for io in bus.io_regions.values())
                if not inside:
                    V("uncached_outside_io", rq["name"], "uncached automatic region [%#x,%#x) is not inside any IO region %s"
                      % (r.origin, r.origin + r.size, [(hex(io.origin), hex(io.size)) for io in bus.io_regions.values()]))
    # ---- finalize-time: decoders
    class FakeBus:
        data_width, address_width = dw, aw
    wshift = (dw // 8).bit_length() - 1
    a = Signal(aw - wshift)
    ev = Evaluator({}, {})
    decs = []
    for n, r in (bus.regions.items() if not rejected else ()):      # a rejected request is fatal: nothing is built
        if r.linker:
            continue
        try:
            f = r.decoder(FakeBus)
        except SoCError:
            if sys.stderr is None:
                sys.stderr = sys.__stderr__
            rejected += 1
            decs = None
            break
        checks += 1
        if r.origin % P2(r):
            V("unaligned_region_built", n, "region %s origin %#x is not aligned to its decoded size %#x and was not rejected" % (n, r.origin, P2(r)))
        decs.append((n, r, f))
    if decs:
        probes = set(scn["probe_addrs"]) | {0, space - 1}
        for n, r, f in decs:
            probes |= {r.origin - 1, r.origin, r.origin + r.size - 1, r.origin + r.size // 2 + 1, r.origin + P2(r) - 1, r.origin + P2(r), r.origin ^ (1 << (aw - 1)),
                       r.origin + (1 << 32)}
        for addr in sorted(x for x in probes if 0 <= x < space):
            hits = []
            for n, r, f in decs:
                e = f(a)
                ev.signal_values[a] = addr >> wshift
                val = bool(ev.eval(e) if not isinstance(e, (bool, int)) else e)
                exp = r.origin <= addr < r.origin + P2(r)
                checks += 1
                if val != exp:
                    V("decoder_window", n, "decoder of %s [%#x,%#x) %s address %#x" % (n, r.origin, r.origin + P2(r), "accepts" if val else "rejects", addr))
                if val:
                    hits.append(n)
            if len(hits) > 1:
                V("address_selects_two_slaves", "/".join(hits), "address %#x is accepted by the decoders of %s" % (addr, hits))
    table = sorted((n, r.origin, r.size) for n, r in bus.regions.items())
    stats = {"checks": checks, "nontrivial": len(accepted) >= 3 and (rejected > 0 or any(r["origin"] is None for r in accepted if r["op"] == "region")),
             "faults": {"req_order": len(scn["reqs"])}, "probes": {"accepted": len(accepted), "rejected": rejected}, "cycles": 0}
    return {"violations": viols, "digest": hashlib.sha256(repr((table, rejected)).encode()).hexdigest()[:16], "stats": stats}


def run_locs(scn):
    from litex.soc.integration.soc import SoCCSRHandler, SoCIRQHandler, SoCError
    p = scn["params"]
    viols = []
    V = mkV(viols)
    reserved = {k: v for k, v in p.get("reserved", [])}
    accepted = rejected = 0
    checks = 0
    boundary = 0
    try:
        if p["kind"] == "csr":
            n_locs = 4 * (2 ** p["address_width"]) // p["paging"]
            h = SoCCSRHandler(data_width=p["data_width"], address_width=p["address_width"], paging=p["paging"], reserved_csrs=reserved)
        else:
            n_locs = p["n_irqs"]
            h = SoCIRQHandler(n_irqs=p["n_irqs"], reserved_irqs=reserved)
            h.enable()
    except SoCError:
        if sys.stderr is None:
            sys.stderr = sys.__stderr__
        # rejected at construction: nothing is built. (The property demands that what is granted is sound, not that every legal request
        # is granted: on the pinned tree SoCIRQHandler rejects ANY reservation, because it adds them before the handler is enabled.)
        return {"violations": [], "digest": "rejected-at-construction", "stats": {"checks": 1, "nontrivial": False, "faults": {"req_order": 0},
                                                                                     "probes": {"rejected": 1, "reserved_rejected": 1}, "cycles": 0}}
    if reserved:
        vals = list(h.locs.values())
        checks += 2
        if len(set(vals)) != len(vals):
            V("location_granted_twice", p["kind"], "reserved locations %r: one location granted to several names: %s" % (reserved, dict(h.locs)))
        bad = {k: v for k, v in h.locs.items() if not (0 <= v < n_locs)}
        if bad:
            V("location_out_of_range", p["kind"], "reserved location outside [0,%d): %s" % (n_locs, bad))
    for rq in scn["reqs"]:
        before = dict(h.locs)
        try:
            h.add(rq["name"], n=rq["n"], use_loc_if_exists=rq["reuse"])
        except SoCError:
            if sys.stderr is None:
                sys.stderr = sys.__stderr__
            rejected += 1
            break
        accepted += 1
        if rq["n"] in (0, n_locs - 1, n_locs, n_locs + 1, -1):
            boundary += 1
        locs = h.locs
        vals = list(locs.values())
        checks += 3
        if len(set(vals)) != len(vals):
            dup = [v for v in set(vals) if vals.count(v) > 1]
            V("location_granted_twice", p["kind"], "location(s) %s granted to several names: %s" % (dup, {k: v for k, v in locs.items() if v in dup}))
        bad = {k: v for k, v in locs.items() if not (0 <= v < n_locs)}
        if bad:
            V("location_out_of_range", p["kind"], "location outside [0,%d): %s" % (n_locs, bad))
        for k, v in before.items():
            if locs.get(k) != v:
                V("location_moved", p["kind"], "%s moved from %s to %s" % (k, v, locs.get(k)))
    stats = {"checks": checks, "nontrivial": accepted >= 3 and (rejected > 0 or boundary > 0), "faults": {"req_order": len(scn["reqs"])},
             "probes": {"accepted": accepted, "rejected": rejected, "boundary_requests": boundary}, "cycles": 0}
    return {"violations": viols, "digest": hashlib.sha256(repr(sorted(h.locs.items())).encode()).hexdigest()[:16], "stats": stats}


def run_names(scn):
    from litex.soc.integration.soc import SoC, SoCError
    from litex.build.generic_platform import GenericPlatform
    viols = []
    V = mkV(viols)
    soc = SoC(GenericPlatform("dev", io=[]), sys_clk_freq=int(1e6))
    base = dict(soc.constants)
    model = {}          # published (upper-case) name -> value of the declaration that holds it
    accepted = rejected = dups = 0
    checks = 0
    for rq in scn["reqs"]:
        pub = rq["name"].upper()
        if rq["op"] == "config":
            pub = "CONFIG_" + pub
        dup = pub in model or pub in base
        dups += dup
        try:
            if rq["op"] == "constant":
                soc.add_constant(rq["name"], rq["value"], check_duplicate=rq["check"])
            else:
                soc.add_config(rq["name"], rq["value"], check_duplicate=rq["check"])
            ok = True
        except SoCError:
            if sys.stderr is None:
                sys.stderr = sys.__stderr__
            ok = False
        checks += 2
        if ok and dup and rq["check"]:
            V("name_granted_twice", "constants", "%s(%r) accepted although %r is already declared (value %r): the earlier declaration is silently overwritten"
              % ("add_" + rq["op"], rq["name"], pub, model.get(pub)))
            break
        if not ok and not (dup and rq["check"]):
            V("request_rejected", "constants", "%s(%r, check_duplicate=%s) rejected although %r was free" % ("add_" + rq["op"], rq["name"], rq["check"], pub))
            break
        if not ok:
            rejected += 1
            break
        accepted += 1
        model[pub] = rq["value"]
        got = {k: v for k, v in soc.constants.items() if k not in base or k in model}
        checks += 1
        if got != model:
            V("names_table", "constants", "published constants %r differ from the declarations accepted so far %r" % (got, model))
            break
    stats = {"checks": checks, "nontrivial": accepted >= 2 and dups > 0, "faults": {"req_order": len(scn["reqs"])},
             "probes": {"accepted": accepted, "rejected": rejected, "duplicate_names": dups}, "cycles": 0}
    return {"violations": viols, "digest": hashlib.sha256(repr(sorted((k, repr(v)) for k, v in model.items())).encode()).hexdigest()[:16], "stats": stats}


def run_platform(scn):
    from litex.build.generic_platform import ConstraintManager, ConstraintError, Pins, IOStandard
    p = scn["params"]
    viols = []
    V = mkV(viols)
    from litex.build.generic_platform import Subsignal

    def mk(nm, k, kind="pins"):
        if kind == "record":
            return (nm, k, Subsignal("tx", Pins("T%s%d" % (nm, k))), Subsignal("rx", Pins("R%s%d" % (nm, k))), IOStandard("LVCMOS33"))
        return (nm, k, Pins("P%s%d" % (nm, k)), IOStandard("LVCMOS33"))
    cm = ConstraintManager([mk(*e) for e in p["io"]], [])
    ext = [mk(*e) for e in p["ext"]]
    granted = {}     # (name, number) -> count
    checks = 0
    acc = rej = 0
    for rq in scn["reqs"]:
        before = list(cm.available)
        n_matched = len(cm.matched)
        # the resource a request (name, number) denotes: the first one still available with that name (and that number, if given)
        want = next((r for r in before if r[0] == rq.get("name") and (rq.get("number") is None or r[1] == rq["number"])), None)
        try:
            if rq["op"] == "request":
                obj = cm.request(rq["name"], rq["number"], loose=rq["loose"])
                checks += 1
                if obj is None:
                    rej += 1
                    if want is not None:
                        V("request_refused_wrongly", rq["name"], "request(%r, %r, loose) returned None although %r is available" % (rq["name"], rq["number"], want[:2]))
                    continue
                got = cm.matched[-1][0] if len(cm.matched) > n_matched else None
                if got is not want:
                    V("wrong_resource_granted", rq["name"], "request(%r, %r) was granted %r; the resource it denotes is %s"
                      % (rq["name"], rq["number"], got[:2] if got else None, "%r" % (want[:2],) if want else "not available (already granted or absent): the request must be refused"))
            elif rq["op"] == "request_all":
                cm.request_all(rq["name"])
                checks += 1
                new = [r for r, _ in cm.matched[n_matched:]]
                # (request_all takes the numbers 0, 1, 2, ... until one is missing)
                if [r[:2] for r in new] != [(rq["name"], i) for i in range(len(new))]:
                    V("wrong_resource_granted", rq["name"], "request_all(%r) granted %s" % (rq["name"], [r[:2] for r in new]))
            elif rq["op"] == "lookup":
                obj = cm.lookup_request(rq["name"], rq["number"], loose=rq["loose"])
                checks += 1
                if obj is not None and not any(o is obj for _, o in cm.matched):
                    V("lookup_unknown_object", rq["name"], "lookup_request returned an object that was never granted")
                continue
            else:
                cm.add_extension(ext, prepend=rq["prepend"])
                ext = []
                continue
            acc += 1
        except (ConstraintError, ValueError, TypeError):
            # (TypeError: request_all() on resources made of sub-signals cannot concatenate the Records - refused with an error)
            rej += 1
            continue
        # every platform resource matched at most once; matched and available are disjoint
        seen = {}
        for res, obj in cm.matched:
            seen[id(res)] = seen.get(id(res), 0) + 1
        checks += 2
        if any(c > 1 for c in seen.values()):
            V("resource_granted_twice", rq["name"], "a platform resource object was matched more than once: %s" % [r[:2] for r, _ in cm.matched])
        if any(any(res is a_ for a_ in cm.available) for res, _ in cm.matched):
            V("resource_still_available", rq["name"], "a granted resource is still in the available list")
        objs = [id(o) for _, o in cm.matched]
        if len(set(objs)) != len(objs):
            V("signal_granted_twice", rq["name"], "the same signal object was handed out for two resources")
    stats = {"checks": max(checks, 1), "nontrivial": acc >= 2 and rej >= 1, "faults": {"req_order": len(scn["reqs"])},
             "probes": {"granted": acc, "refused": rej}, "cycles": 0}
    return {"violations": viols, "digest": hashlib.sha256(repr([r[:2] for r, _ in cm.matched]).encode()).hexdigest()[:16], "stats": stats}
