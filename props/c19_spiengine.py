"""C19, family 'spiengine': litex.soc.cores.spi.spi_mmap.SPIEngine (the transfer engine of the memory-mapped SPI core: a word stream in, a
word stream out, chip select, programmed chip-select-high wait between transfers, MSB/LSB-first, 8/16/24/32-bit slots) around the real
SPIMaster, against the pin-level slave of the 'spimmap' family. The slot settings come from a stand-in for SPICtrl (one slot, constant
settings); the host is a party with literal valid / ready patterns, so that words arrive before, during and after the wait window.
Oracle: every word accepted at the sink produces exactly one frame of `length` clock pulses and one word at the source, in order; the
slave receives the sink word's bits and the source word carries the bits the slave sent (per bit order); with a programmed wait of W > 0
the chip select stays high for at least W cycles between two frames; the engine is idle at the end."""
from dsim import prng
from dsim.kernel import Bench, wrap_top, Agent
from dsim.wb_agents import PortRecorder


def generate(rng, tier):
    words = [{"data": rng.getrandbits(32), "miso": rng.getrandbits(32)} for _ in range(rng.randint(3, 9))]
    return {"family": "spiengine", "params": {"mode": rng.choice([0, 3, 0, 3, 1, 2]), "divider": rng.choice([2, 2, 3, 4, 8, 13]), "slot_len": rng.choice([8, 16, 24, 32]),
                                              "be": rng.choice([1, 3, 15, 15]), "wait": rng.choice([0, 0, 1, 2, 5, 12, 30]), "lsb_first": rng.random() < 0.3},
            "words": words, "valid": prng.pattern(rng, 600, rng.choice([1.0, 0.5, 0.1, 0.03])), "ready": prng.pattern(rng, 600, rng.choice([1.0, 1.0, 0.5, 0.2]))}


def run(scn, mkV, _result):
    from migen import Record, Signal
    from litex.soc.cores.spi import spi_mmap as M
    p = scn["params"]
    pads = Record([("clk", 1), ("cs_n", 1), ("mosi", 1), ("miso", 1)])
    pads.cs_n.reset = 1
    len_code = {32: M.SPI_SLOT_LENGTH_32B, 24: M.SPI_SLOT_LENGTH_24B, 16: M.SPI_SLOT_LENGTH_16B, 8: M.SPI_SLOT_LENGTH_8B}[p["slot_len"]]
    vals = {"divider": (16, p["divider"]), "loopback": (1, 0), "mode": (2, p["mode"]), "length": (2, len_code), "wait": (16, p["wait"]),
            "bitorder": (1, int(p["lsb_first"]))}

    class Fields:
        enable = Signal(reset=1)

    class Engine_:
        fields = Fields

    class Ctrl:
        """stand-in for SPICtrl with one slot: constant settings"""
        engine = Engine_

        def get_ctrl(self, name, slot=None, cs=None):
            n, v = vals[name]
            return Signal(n, reset=v, name="ctrl_" + name)
    dut = M.SPIEngine(pads, Ctrl(), 32, sys_clk_freq=100e6)
    be_len = {1: 8, 3: 16, 15: 32}[p["be"]]
    length = min(be_len, p["slot_len"])
    words = scn["words"]
    cpol, cpha = (p["mode"] >> 1) & 1, p["mode"] & 1
    st = {"i": 0, "out": [], "t": 0, "acc": []}

    def pat(s, t):
        return 1 if t >= len(s) else int(s[t] == "1")

    def tx_bits(k):
        """bits the slave sends for word k, in wire order (the master shifts them in MSB first into its register)"""
        w_ = words[k]["miso"] & ((1 << length) - 1)
        return [(w_ >> (length - 1 - i)) & 1 for i in range(length)]

    class Host(Agent):
        reads = (dut.sink.valid, dut.sink.ready, dut.source.valid, dut.source.ready, dut.source.data)

        def __init__(s_):
            s_.offering = False

        def done(s_):
            return st["i"] >= len(words) and len(st["out"]) >= len(words) and st["t"] > st.get("last", 0) + p["wait"] + 8

        def step(s_, v, t, w):
            st["t"] = t
            if v[dut.source.valid] and v[dut.source.ready]:
                st["out"].append((t, v[dut.source.data]))
                st["last"] = t
            if s_.offering and v[dut.sink.valid] and v[dut.sink.ready]:
                st["acc"].append(t)
                st["i"] += 1
                s_.offering = False
            w(dut.source.ready, pat(scn["ready"], t))
            if not s_.offering:
                if st["i"] < len(words) and pat(scn["valid"], t):
                    w(dut.sink.valid, 1)
                    w(dut.sink.data, words[st["i"]]["data"])
                    w(dut.sink.be, p["be"])
                    w(dut.sink.cs, 1)
                    s_.offering = True
                else:
                    w(dut.sink.valid, 0)

    class Slave(Agent):
        reads = (pads.clk, pads.cs_n, pads.mosi)

        def __init__(s_):
            s_.prev = cpol
            s_.k = 0            # word index
            s_.nbit_tx = 0
            s_.rx = []
            s_.frames = []      # per word: received bits
            s_.was_sel = False

        def _present(s_, w):
            bits = tx_bits(s_.k) if s_.k < len(words) else [0] * length
            w(pads.miso, bits[s_.nbit_tx] if s_.nbit_tx < length else 0)
            s_.nbit_tx += 1

        def step(s_, v, t, w):
            sel = not v[pads.cs_n]
            clk = v[pads.clk]
            if sel and not s_.was_sel and not cpha and s_.nbit_tx == 0:
                s_._present(w)                 # CPHA=0: the first bit is out when the slave is selected
            if sel and clk != s_.prev:
                leading = clk != cpol
                sample = leading if not cpha else not leading
                if sample:
                    s_.rx.append(v[pads.mosi])
                    if len(s_.rx) == length:
                        s_.frames.append((t, s_.rx))
                        s_.rx = []
                        s_.k += 1
                        s_.nbit_tx = 0         # (CPHA=0: the next word's first bit goes out on the trailing edge that follows)
                else:
                    s_._present(w)
            s_.prev = clk
            s_.was_sel = sel
    half = p["divider"] // 2 + 1
    nmax = len(words) * (2 * half * (length + 2) + p["wait"] + 40) + 700
    bench = Bench(wrap_top(dut), max_cycles=nmax, tail=3, fingerprint=False)
    host = bench.add(Host())
    slave = bench.add(Slave())
    rows = []
    bench.add(PortRecorder([pads.cs_n, pads.clk], lambda tt, row: rows.append(row)))
    bench.run()
    viols = []
    V = mkV(viols)
    checks = 0
    mask = (1 << length) - 1

    def rev(x, n):
        return int("{:0{}b}".format(x & ((1 << n) - 1), n)[::-1], 2)
    if len(st["out"]) < len(words) or st["i"] < len(words):
        V("not_finished", "spi engine", "%d of %d words accepted, %d words returned after %d cycles (wait %d, mode %d, length %d)"
          % (st["i"], len(words), len(st["out"]), len(rows), p["wait"], p["mode"], length))
    checks += 1
    if not viols and len(slave.frames) != len(words):
        V("clock_pulses", "pads.clk", "%d words sent, the slave saw %d complete groups of %d clock pulses (%d stray bits)" % (len(words), len(slave.frames), length, len(slave.rx)))
    for k in range(min(len(words), len(slave.frames), len(st["out"]))):
        if viols:
            break
        d = words[k]["data"]
        if p["lsb_first"]:
            exp_bits = [(d >> i) & 1 for i in range(length)]                 # LSB first on the wire
        else:
            exp_bits = [(d >> (length - 1 - i)) & 1 for i in range(length)]
        checks += 2
        if slave.frames[k][1] != exp_bits:
            V("mosi_data", "pads.mosi", "word %d (%#x, %d bits, %s first, mode %d): the slave sampled %s, expected %s"
              % (k, d, length, "LSB" if p["lsb_first"] else "MSB", p["mode"], "".join(map(str, slave.frames[k][1])), "".join(map(str, exp_bits))), slave.frames[k][0])
            break
        sent = words[k]["miso"] & mask
        got = st["out"][k][1]
        want = rev(sent, length) if p["lsb_first"] else sent
        if (got & mask) != want:
            V("miso_capture", "source.data", "word %d (%d bits, %s first, mode %d): the engine returned %#x, the slave sent %#x on the wire (expected %#x in the low bits)"
              % (k, length, "LSB" if p["lsb_first"] else "MSB", p["mode"], got & mask, sent, want), st["out"][k][0])
            break
    # chip-select-high time between frames
    if not viols and p["wait"] > 0:
        highs, run_, seen_low = [], 0, False
        for c, (csn, _) in enumerate(rows):
            if csn:
                run_ += 1
            else:
                if seen_low and run_:
                    highs.append((c - run_, run_))
                run_ = 0
                seen_low = True
        for c0, n in highs:
            checks += 1
            if n < p["wait"]:
                V("cs_wait_short", "pads.cs_n", "chip select high for %d cycle(s) from cycle %d between two transfers, the slot programs a wait of %d" % (n, c0, p["wait"]), c0)
                break
        checks += 1
        if len(highs) != len(words) - 1:
            V("cs_framing", "pads.cs_n", "%d words with a programmed wait of %d: chip select was released %d times between transfers, expected %d" % (len(words), p["wait"], len(highs), len(words) - 1))
    if not viols and rows and not rows[-1][0]:
        V("not_idle", "pads.cs_n", "chip select still asserted at the end of the run")
    return _result(viols, [r[0] for r in rows], {"cycles": len(rows), "checks": checks, "nontrivial": len(words) >= 3,
                                                   "faults": {"host_gap": scn["valid"].count("0"), "host_stall": scn["ready"].count("0")},
                                                   "probes": {"spiengine_words": len(st["out"]), "spiengine_wait": int(p["wait"] > 0), "spiengine_lsb_first": int(p["lsb_first"])}})
