"""C05, family FreqMeter: litex.soc.cores.freqmeter.FreqMeter - a free-running Gray counter in the measured clock domain crosses into the
system domain through a MultiReg and is decoded there; the system side accumulates the differences of consecutive samples over a period.
A Gray count changes one bit per event, so whatever way a changing bit resolves the decoded word is the count just before or just after the
event - a word the counter really held. Oracle: between any two latch instants the measurements add up to the number of clock events that
really happened in between, within the latency of the synchroniser (a torn word shows as a jump of a multiple of the counter's range)."""
from dsim import cdc
from dsim.kernel import Bench, Agent


def generate(rng, tier):
    n_ticks = rng.choice([1500, 3000])
    sched, desc = cdc.gen_schedule(rng, n_ticks, 2)
    return {"family": "FreqMeter", "params": {"period": rng.choice([20, 37, 64, 100]), "width": rng.choice([6, 6, 8])}, "schedule": sched, "sched_desc": desc,
            "meta": [rng.getrandbits(16) for _ in range(64)] if rng.random() < 0.85 else [0]}


def run(scn):
    from migen import Module, ClockDomain
    from litex.soc.cores.freqmeter import FreqMeter
    p = scn["params"]
    reg = cdc.new_registry()
    dut = FreqMeter(period=p["period"], width=p["width"])

    class Top(Module):
        def __init__(self):
            self.submodules.dut = dut
            self.clock_domains.cd_sys = ClockDomain("sys")
    nsys = sum(1 for c in scn["schedule"] if (ord(c) - ord("a") + 1) & 1)
    bench = Bench(Top(), domains=["sys", "fmeter"], schedule=scn["schedule"], overrides=cdc.overrides(), max_cycles=nsys, fingerprint=False)
    st = {"edges": 0, "latches": []}          # latches: (sys cycle, value, events seen so far)

    class Sys(Agent):
        reads = (dut.value.status,)

        def __init__(s_):
            s_.prev = 0
            s_.n = 0

        def done(s_):
            return False

        def step(s_, v, t, w):
            # the value register is rewritten once per period: sample it one cycle after every period boundary
            s_.n += 1
            st["max_delta"] = max(st.get("max_delta", 0), st["edges"] - s_.prev)
            s_.prev = st["edges"]
            if s_.n % (p["period"] + 1) == 2:
                st["latches"].append((t, v[dut.value.status], st["edges"]))
                bench.event("sys", "latch", t, v[dut.value.status])

    class Measured(Agent):
        reads = ()

        def step(s_, v, t, w):
            st["edges"] += 1
    bench.add(Sys(), "sys")
    bench.add(Measured(), "fmeter")
    cdc.MetaInjector(reg, scn.get("meta")).attach(bench, {})
    bench.run()
    viols = []

    def V(cls, obs, msg):
        if len(viols) < 3:
            viols.append({"prop": "C05", "cls": cls, "observable": obs, "msg": msg, "cycle": None})
    L = st["latches"]
    checks = 0
    rng_ = 1 << p["width"]
    # per-cycle increments of the measured clock must stay below the counter range, else the difference of two samples is ambiguous by design
    # a word the counter never held makes one difference wrong by e and the next one by -e: in the sampler's modular arithmetic the sum is off by
    # a multiple of the counter range. Events inside the synchroniser's latency (a few system cycles at either end of the window) only
    # move the sum by a few times the event rate, so the two are told apart at half the range.
    slack = 6 * st.get("max_delta", 1) + 6
    tol = rng_ // 2
    ok_rate = slack < tol                        # (a measured clock so fast that the latency alone spans half the counter range cannot be judged)
    for i in range(2, len(L)):
        for j in range(i + 1, min(i + 6, len(L))):
            true = L[j][2] - L[i][2]
            got = sum(x[1] for x in L[i + 1:j + 1])
            checks += 1
            if abs(got - true) > tol and ok_rate:
                V("torn_or_stale_word", "FreqMeter.value", "between the latches at system cycles %d and %d the measured clock had %d events, the measurements add up to %d (difference %d; "
                  "counter range %d): a word the counter never held was sampled" % (L[i][0], L[j][0], true, got, got - true, rng_))
                break
        if viols:
            break
    stats = {"cycles": bench.cycle["sys"], "checks": checks, "nontrivial": len(L) >= 5 and st["edges"] > 50, "faults": dict(bench.fault_counts),
             "probes": {"freqmeter_latches": len(L), "freqmeter_events": st["edges"]}}
    return {"violations": viols, "digest": bench.digest(), "stats": stats}
