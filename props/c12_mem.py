"""C12, family 'mem': memories mapped into the CSR space (csr_bus.SRAM as csr_bus.CSRBankArray.scan() builds it from a peripheral's
get_memories()) next to an ordinary register bank, on an 8- or 32-bit CSR bus. Memories wider than the bus are written sub-word by
sub-word (most significant first, committed by the last sub-word) and read back sub-word by sub-word; narrower ones occupy one bus
word per memory word. The software party issues one literal access per cycle: word writes whose sub-word accesses are interleaved
with accesses to the register bank, to the other memory, to unmapped pages and with reads, reads of any sub-word, idle cycles.
Oracle: a model of the address map (page = mapaddr, offset = word * subwords + subword) stepped on the recorded accesses; the bus read
data is compared every cycle (a slave that is not addressed drives zero), the register of the bank every cycle, and every memory
word is read back at the end. An access to another page must change nothing in a memory, including a half-written word."""
from dsim.kernel import Bench, wrap_top, Agent
from dsim.wb_agents import PortRecorder


def generate(rng, tier):
    busword = rng.choice([8, 8, 32])
    paging = rng.choice([0x800, 0x800, 0x400, 0x1000])
    pages = rng.sample(range(0, 7), 4)
    mems = []
    for i in range(rng.choice([1, 2, 2])):
        if busword == 8:
            width = rng.choice([8, 16, 32, 32, 5])
        else:
            width = rng.choice([32, 64, 64, 16, 20])
        csrw = max(1, -(-width // busword))
        depth = rng.choice([2, 4, 8, 16, 5])
        mems.append({"page": pages[i], "width": width, "depth": depth, "read_only": rng.random() < 0.2,
                     "init": [rng.getrandbits(width) for _ in range(depth)] if rng.random() < 0.7 else None})
    p = {"busword": busword, "paging": paging, "mems": mems, "bank_page": pages[2], "unmapped_page": pages[3]}
    apg = paging // 4
    steps = []
    pending = []          # sub-word writes of the word write in progress

    def foreign():
        x = rng.random()
        if x < 0.35:
            page, off = p["bank_page"], rng.choice([0, 0, 1, 2, 5])
        elif x < 0.6:
            page, off = p["unmapped_page"], rng.randrange(8)
        else:
            # (inside a memory's page only the offsets of its words are used: the partial decode of the rest of the page is not specified)
            mm = rng.choice(mems)
            page, off = mm["page"], rng.randrange(mm["depth"] * max(1, -(-mm["width"] // busword)))
        if rng.random() < 0.7:
            return ["w", page * apg + off, rng.getrandbits(busword)]
        return ["r", page * apg + off]
    for _ in range(rng.randint(60, 160)):
        if pending:
            r_ = rng.random()
            if r_ < 0.6:
                steps.append(pending.pop(0))
            elif r_ < 0.9:
                steps.append(foreign())
            else:
                steps.append(None)
            continue
        r_ = rng.random()
        m = rng.choice(mems)
        csrw = max(1, -(-m["width"] // busword))
        w = rng.randrange(m["depth"])
        if r_ < 0.45:
            val = rng.getrandbits(csrw * busword)
            pending = [["w", m["page"] * apg + w * csrw + s, (val >> (busword * (csrw - 1 - s))) & ((1 << busword) - 1)] for s in range(csrw)]
            if rng.random() < 0.15 and csrw > 1:
                pending = pending[:rng.randrange(1, csrw)]          # abandoned word write
        elif r_ < 0.8:
            steps.append(["r", m["page"] * apg + w * csrw + rng.randrange(csrw)])
        elif r_ < 0.93:
            steps.append(foreign())
        else:
            steps.append(None)
    steps += pending
    steps.append(None)
    # read-back sweep of every memory word and the register
    for m in mems:
        csrw = max(1, -(-m["width"] // busword))
        for w in range(m["depth"]):
            for s in range(csrw):
                steps.append(["r", m["page"] * apg + w * csrw + s])
    steps.append(["r", p["bank_page"] * apg])
    return {"family": "mem", "params": p, "steps": steps}


def run(scn):
    from migen import Module, Memory
    from litex.soc.interconnect import csr, csr_bus
    p = scn["params"]
    bw = p["busword"]
    apg = p["paging"] // 4
    mask = lambda n: (1 << n) - 1  # noqa
    top = Module()

    class Src(Module):
        pass
    src = Src()
    addr_of = {}
    for i, m in enumerate(p["mems"]):
        class MemPeriph(Module, csr.AutoCSR):
            def __init__(s_, m=m, i=i):
                s_.mem = Memory(m["width"], m["depth"], init=m["init"], name="mem%d" % i)

            def get_memories(s_, m=m):
                return [(m["read_only"], s_.mem)]
        per = MemPeriph()
        setattr(src, "memp%d" % i, per)
        src.submodules += per
        addr_of["memp%d" % i] = m["page"]

    class RegPeriph(Module, csr.AutoCSR):
        def __init__(s_):
            s_._ctl = csr.CSRStorage(bw, name="ctl")
    regp = RegPeriph()
    src.regp = regp
    src.submodules += regp
    addr_of["regp"] = p["bank_page"]
    top.submodules.src = src
    top.submodules.arr = arr = csr_bus.CSRBankArray(src, lambda name, mem: addr_of.get(name), data_width=bw, address_width=14, paging=p["paging"])
    master = csr_bus.Interface(data_width=bw, address_width=14)
    top.submodules.ic = csr_bus.Interconnect(master, arr.get_buses())
    viols = []

    def V(cls, obs, msg, cycle=None):
        if len(viols) < 4:
            viols.append({"prop": "C12", "cls": cls, "observable": obs, "msg": msg, "cycle": cycle})
    if len(arr.srams) != len(p["mems"]) or len(arr.banks) != 1:
        V("layout", "CSRBankArray", "%d memories and %d banks built, expected %d and 1" % (len(arr.srams), len(arr.banks), len(p["mems"])))
        return {"violations": viols, "digest": "layout", "stats": {"checks": 1}}
    steps = scn["steps"]

    class Software(Agent):
        reads = ()

        def __init__(s_):
            s_.n = 0

        def done(s_):
            return s_.n > len(steps) + 2

        def step(s_, v, t, w):
            s_.n = t
            w(master.we, 0)
            w(master.re, 0)
            if t < len(steps) and steps[t] is not None:
                op = steps[t]
                w(master.adr, op[1])
                if op[0] == "w":
                    w(master.we, 1)
                    w(master.dat_w, op[2])
                else:
                    w(master.re, 1)
    rows = []
    bench = Bench(wrap_top(top), max_cycles=len(steps) + 12, tail=2, fingerprint=False)
    bench.add(Software())
    bench.add(PortRecorder([master.adr, master.we, master.re, master.dat_w, master.dat_r, regp._ctl.storage], lambda t, row: rows.append(row)))
    bench.run()
    # ---- model
    M = []
    for m in p["mems"]:
        csrw = max(1, -(-m["width"] // bw))
        M.append({"m": m, "csrw": csrw, "words": list(m["init"] or [0] * m["depth"]), "wregs": [None] * (csrw - 1)})
    ctl = 0
    exp, exp_known = 0, True
    checks = interleaved = commits = 0
    last_mem_write = None
    for k, row in enumerate(rows):
        adr, we, re_, dat_w, dat_r, ctl_now = row
        checks += 2
        if exp_known and dat_r != exp:
            V("read_data", "bus.dat_r", "cycle %d: dat_r=%#x expected %#x (address presented in the previous cycle: %#x = page %d offset %d)"
              % (k, dat_r, exp, rows[k - 1][0] if k else 0, (rows[k - 1][0] if k else 0) // apg, (rows[k - 1][0] if k else 0) % apg), k)
            break
        if ctl_now != ctl:
            V("storage_value", "ctl", "cycle %d: ctl.storage=%#x expected %#x" % (k, ctl_now, ctl), k)
            break
        page, off = adr // apg, adr % apg
        nxt, known = 0, True
        if page == p["bank_page"]:
            if off == 0:
                nxt = ctl
                if we:
                    ctl = dat_w & mask(bw)
        for X in M:
            m = X["m"]
            if page != m["page"]:
                if we and last_mem_write is X and any(x is not None for x in X["wregs"]):
                    interleaved += 1
                continue
            csrw = X["csrw"]
            w_, s_ = off // csrw, off % csrw
            if w_ >= m["depth"]:
                known = False       # beyond the memory: aliasing inside the page is not specified
                continue
            if we and not m["read_only"]:
                last_mem_write = X
                if s_ < csrw - 1:
                    X["wregs"][s_] = dat_w
                else:
                    if any(x is None for x in X["wregs"]):
                        # committing a word some sub-word of which was never written since reset: the holding registers are
                        # reset-less, the value is not defined by the documented behaviour
                        X["words"][w_] = None
                    else:
                        val = 0
                        for x in X["wregs"]:
                            val = (val << bw) | x
                        val = (val << bw) | dat_w
                        X["words"][w_] = val & mask(m["width"])
                        commits += 1
            cur = X["words"][w_]
            if cur is None:
                known = False
            else:
                nxt = (cur >> (bw * (csrw - 1 - s_))) & mask(bw)
        exp, exp_known = nxt, known
    stats = {"cycles": len(rows), "checks": checks, "nontrivial": commits >= 2 and interleaved >= 1,
             "faults": {"foreign_write_inside_word_write": interleaved},
             "probes": {"mem_word_commits": commits, "mem_busword_%d" % bw: 1}}
    return {"violations": viols, "digest": __import__("hashlib").sha256(repr(rows).encode()).hexdigest()[:16], "stats": stats}
