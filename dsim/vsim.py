"""vsim - an interpreter for the Verilog-2001 subset the LiteX backend prints (trusted base of C01).

Parsing: module header, reg/wire [signed] [n:0] name [= init], memories reg [w:0] m[0:d], initial
$readmemh, assign, always @(*), always @(posedge clk), begin/end, if/else, case/default, blocking and
non-blocking assignments to identifiers / bit- and part-selects / memory words (with part select) /
concatenations, sized literals ('d 'sd 'h 'b), unary/binary operators the backend uses, ?:, {..}, {n{..}},
$signed(), $display/$finish (ignored).

Expression evaluation follows IEEE 1364-2005 5.4/5.5: bottom-up self-determined size and signedness, top-down
propagation of the context size and type to context-determined operands, leaves extended BEFORE the operation
(sign extension only if the propagated type is signed), truncation at assignment. Values are two-state; a
variable or memory word can be X as a whole (uninitialised), any X operand makes the result X.
Scheduling: stratified queue - active processes in an order drawn from a PRNG (the freedom 1364 grants),
non-blocking updates applied in program order, repeat until quiescent, then the next edge."""
import re

X = None


class VError(Exception):
    pass


# ------------------------------------------------------------------------------------------------
# lexer
# ------------------------------------------------------------------------------------------------
TOKEN = re.compile(r"""
    (?P<ws>\s+|//[^\n]*|/\*.*?\*/|\(\*(?!\)).*?\*\))
  | (?P<num>\d*'s?[dhbDHB][0-9a-fA-F_xXzZ]+)
  | (?P<int>\d+)
  | (?P<id>[A-Za-z_$][A-Za-z0-9_$]*)
  | (?P<str>"[^"]*")
  | (?P<op><<<|>>>|<<|>>|<=|>=|==|!=|&&|\|\||[-+*~!&|^<>=?:;,.(){}\[\]@#])
""", re.X | re.S)


def lex(text):
    out, pos = [], 0
    n = len(text)
    while pos < n:
        m = TOKEN.match(text, pos)
        if not m:
            raise VError("lex error at %r" % text[pos:pos + 30])
        pos = m.end()
        k = m.lastgroup
        if k != "ws":
            out.append((k, m.group(k)))
    out.append(("eof", ""))
    return out


# ------------------------------------------------------------------------------------------------
# parser -> AST (tuples)
# ------------------------------------------------------------------------------------------------
class Parser:
    def __init__(self, toks):
        self.t, self.i = toks, 0

    def peek(self, k=0):
        return self.t[self.i + k]

    def next(self):
        tok = self.t[self.i]
        self.i += 1
        return tok

    def accept(self, val):
        if self.t[self.i][1] == val:
            self.i += 1
            return True
        return False

    def expect(self, val):
        tok = self.next()
        if tok[1] != val:
            raise VError("expected %r, got %r (token %d)" % (val, tok[1], self.i))
        return tok

    # ---- module
    def module(self):
        self.expect("module")
        name = self.next()[1]
        ports = []
        self.expect("(")
        while not self.accept(")"):
            d = self.next()[1]          # input/output/inout
            kind = "wire"
            if self.peek()[1] in ("wire", "reg"):
                kind = self.next()[1]
            signed, rng = self.opt_signed_range()
            pname = self.next()[1]
            init = None
            if self.accept("="):
                init = self.expr()
            if d not in ("input", "output", "inout"):
                raise VError("port direction expected, got %r" % d)
            ports.append({"dir": d, "kind": kind, "signed": signed, "width": rng, "name": pname, "init": init})
            self.accept(",")
        self.expect(";")
        items = []
        while not self.accept("endmodule"):
            it = self.item()
            if it is not None:
                items.append(it)
        return {"name": name, "ports": ports, "items": items}

    def opt_signed_range(self):
        signed = self.accept("signed")
        width = 1
        if self.accept("["):
            hi = self.const_int()
            self.expect(":")
            lo = self.const_int()
            self.expect("]")
            width = hi - lo + 1
        return signed, width

    def const_int(self):
        tok = self.next()
        if tok[0] == "int":
            return int(tok[1])
        raise VError("constant integer expected, got %r" % (tok,))

    def item(self):
        tok = self.peek()
        if tok[1] in ("reg", "wire"):
            kind = self.next()[1]
            signed, width = self.opt_signed_range()
            name = self.next()[1]
            if self.accept("["):        # memory
                lo = self.const_int()
                self.expect(":")
                hi = self.const_int()
                self.expect("]")
                self.expect(";")
                return ("memory", name, width, hi - lo + 1)
            init = None
            if self.accept("="):
                init = self.expr()
            self.expect(";")
            return ("decl", {"kind": kind, "signed": signed, "width": width, "name": name, "init": init})
        if tok[1] == "assign":
            self.next()
            lhs = self.lvalue()
            self.expect("=")
            rhs = self.expr()
            self.expect(";")
            return ("assign", lhs, rhs)
        if tok[1] == "always":
            self.next()
            self.expect("@")
            self.expect("(")
            if self.accept("*"):
                self.expect(")")
                return ("comb", self.stmt())
            self.expect("posedge")
            clk = self.next()[1]
            self.expect(")")
            return ("sync", clk, self.stmt())
        if tok[1] == "initial":
            self.next()
            return ("initial", self.stmt())
        raise VError("unsupported module item starting with %r" % (tok,))

    # ---- statements
    def stmt(self):
        tok = self.peek()
        if tok[1] == "begin":
            self.next()
            body = []
            while not self.accept("end"):
                body.append(self.stmt())
            return ("block", body)
        if tok[1] == "if":
            self.next()
            self.expect("(")
            c = self.expr()
            self.expect(")")
            t = self.stmt()
            f = None
            if self.accept("else"):
                f = self.stmt()
            return ("if", c, t, f)
        if tok[1] == "case":
            self.next()
            self.expect("(")
            e = self.expr()
            self.expect(")")
            items, default = [], None
            while not self.accept("endcase"):
                if self.accept("default"):
                    self.accept(":")
                    default = self.stmt()
                else:
                    k = self.expr()
                    self.expect(":")
                    items.append((k, self.stmt()))
            return ("case", e, items, default)
        if tok[0] == "id" and tok[1].startswith("$"):
            self.next()
            name = tok[1]
            args = []
            if self.accept("("):
                while not self.accept(")"):
                    t2 = self.peek()
                    if t2[0] == "str":
                        args.append(("str", self.next()[1][1:-1]))
                    else:
                        args.append(self.expr())
                    self.accept(",")
            self.expect(";")
            return ("sys", name, args)
        lhs = self.lvalue()
        tok = self.next()
        if tok[1] not in ("=", "<="):
            raise VError("assignment operator expected, got %r" % (tok,))
        rhs = self.expr()
        self.expect(";")
        return ("nba" if tok[1] == "<=" else "ba", lhs, rhs)

    def lvalue(self):
        if self.accept("{"):
            parts = [self.lvalue()]
            while self.accept(","):
                parts.append(self.lvalue())
            self.expect("}")
            return ("lcat", parts)
        name = self.next()[1]
        sels = []
        while self.accept("["):
            a = self.expr()
            if self.accept(":"):
                b = self.expr()
                self.expect("]")
                sels.append(("part", a, b))
            else:
                self.expect("]")
                sels.append(("idx", a))
        return ("lval", name, sels)

    # ---- expressions (precedence climbing)
    PREC = [("?",), ("||",), ("&&",), ("|",), ("^",), ("&",), ("==", "!="), ("<", "<=", ">", ">="), ("<<", ">>", "<<<", ">>>"),
            ("+", "-"), ("*",)]

    def expr(self, level=0):
        if level == 0:
            c = self.expr(1)
            if self.accept("?"):
                a = self.expr(0)
                self.expect(":")
                b = self.expr(0)
                return ("cond", c, a, b)
            return c
        if level >= len(self.PREC):
            return self.unary()
        lhs = self.expr(level + 1)
        while self.peek()[0] == "op" and self.peek()[1] in self.PREC[level]:
            op = self.next()[1]
            rhs = self.expr(level + 1)
            lhs = ("bin", op, lhs, rhs)
        return lhs

    def unary(self):
        tok = self.peek()
        if tok[0] == "op" and tok[1] in ("~", "-", "!", "+", "&", "|", "^"):
            self.next()
            return ("un", tok[1], self.unary())
        return self.primary()

    def primary(self):
        tok = self.next()
        if tok[0] == "num":
            m = re.match(r"(\d*)'(s?)([dhbDHB])([0-9a-fA-F_xXzZ]+)", tok[1])
            width = int(m.group(1)) if m.group(1) else 32
            base = {"d": 10, "h": 16, "b": 2}[m.group(3).lower()]
            val = int(m.group(4).replace("_", ""), base)
            return ("num", val & ((1 << width) - 1), width, bool(m.group(2)))
        if tok[0] == "int":
            return ("num", int(tok[1]) & 0xffffffff, 32, True)
        if tok[1] == "(":
            e = self.expr()
            self.expect(")")
            return e
        if tok[1] == "{":
            first = self.expr()
            if self.accept("{"):
                inner = [self.expr()]
                while self.accept(","):
                    inner.append(self.expr())
                self.expect("}")
                self.expect("}")
                return ("repl", first, ("cat", inner))
            parts = [first]
            while self.accept(","):
                parts.append(self.expr())
            self.expect("}")
            return ("cat", parts)
        if tok[0] == "id":
            if tok[1] == "$signed":
                self.expect("(")
                e = self.expr()
                self.expect(")")
                return ("signed", e)
            if tok[1] == "$unsigned":
                self.expect("(")
                e = self.expr()
                self.expect(")")
                return ("unsigned", e)
            sels = []
            while self.accept("["):
                a = self.expr()
                if self.accept(":"):
                    b = self.expr()
                    self.expect("]")
                    sels.append(("part", a, b))
                else:
                    self.expect("]")
                    sels.append(("idx", a))
            return ("ref", tok[1], sels)
        raise VError("unexpected token %r in expression" % (tok,))


def parse(text):
    text = text[text.index("module "):]
    return Parser(lex(text)).module()


# ------------------------------------------------------------------------------------------------
# elaborated design + evaluation
# ------------------------------------------------------------------------------------------------
def mask(w):
    return (1 << w) - 1


def to_signed(v, w):
    return v - (1 << w) if (v >> (w - 1)) & 1 else v


class Design:
    """Values are two-state integers. Every variable and memory word additionally carries an `x` flag: "this value is not
    defined by the text" (no initialiser, uninitialised memory word, out-of-range index, or computed from / under the control
    of such a value). A flagged object holds the value the hardware would hold if undefined storage powered up as 0 (what an
    FPGA does and what the reference simulator assumes), so control flow continues like the synthesised design, and the flag
    spreads conservatively: an expression that READS a flagged object is flagged, and every assignment controlled by a flagged
    condition (in the taken and in the not-taken branches) is flagged. Flagged values are never compared."""

    def __init__(self, text, data_files=None, rng=None, t0_policy="settle", glitch=False):
        self.glitch = glitch
        self.ast = parse(text)
        self.vars = {}       # name -> {"width","signed","val","x"}
        self.mems = {}       # name -> {"width","depth","words":[..],"xs":[..]}
        self.procs = []
        self.rng = rng
        self.t0_policy = t0_policy
        self.data_files = data_files or {}
        self.inputs = set()
        self.tflag = False
        self.ctx = 0
        inits = []
        for p in self.ast["ports"]:
            self.vars[p["name"]] = {"width": p["width"], "signed": p["signed"], "val": 0, "x": p["dir"] != "input", "kind": p["kind"],
                                    "dir": p["dir"]}
            if p["dir"] == "input":
                self.inputs.add(p["name"])
            if p["init"] is not None:
                inits.append((p["name"], p["init"]))
        for it in self.ast["items"]:
            if it[0] == "decl":
                d = it[1]
                if d["name"] in self.vars:
                    raise VError("identifier %r declared twice" % d["name"])
                self.vars[d["name"]] = {"width": d["width"], "signed": d["signed"], "val": 0, "x": True, "kind": d["kind"], "dir": None}
                if d["init"] is not None:
                    inits.append((d["name"], d["init"]))
            elif it[0] == "memory":
                self.mems[it[1]] = {"width": it[2], "depth": it[3], "words": [0] * it[3], "xs": [True] * it[3]}
        for it in self.ast["items"]:
            if it[0] == "assign":
                self.procs.append({"kind": "assign", "lhs": it[1], "rhs": it[2], "reads": self.reads_of(it[2]) | self.reads_of_lhs(it[1])})
            elif it[0] == "comb":
                self.procs.append({"kind": "comb", "body": it[1], "reads": self.reads_of_stmt(it[1])})
            elif it[0] == "sync":
                self.procs.append({"kind": "sync", "clk": it[1], "body": it[2]})
            elif it[0] == "initial":
                self.run_initial(it[1])
        # legality (1364-2005 6.1, 6.2): continuous assignments drive nets, procedural assignments drive variables, inputs are not driven
        for p in self.procs:
            if p["kind"] == "assign":
                for n in self._names(p["lhs"]):
                    if n in self.vars and (self.vars[n]["kind"] != "wire" or self.vars[n]["dir"] == "input"):
                        raise VError("continuous assignment to %s %r" % ("input" if self.vars[n]["dir"] == "input" else "reg", n))
            else:
                for n in self.targets_of_stmt(p["body"], set()):
                    if n in self.vars and (self.vars[n]["kind"] != "reg" or self.vars[n]["dir"] == "input"):
                        raise VError("procedural assignment to net %r" % n)
        for name, e in inits:
            t = self.typ(e)
            self.tflag = False
            v = self.eval(e, max(t[0], self.vars[name]["width"]), t[1])
            self.vars[name]["val"] = v & mask(self.vars[name]["width"])
            self.vars[name]["x"] = self.tflag
        self.uninitialised = sorted(n for n, v in self.vars.items() if v["x"] and n not in self.inputs)
        self.readers = {}
        for p in self.procs:
            for r in p.get("reads", ()):
                self.readers.setdefault(r, []).append(p)
        self.nba = []
        self.active = []
        self.steps = 0
        self.order_choices = 0
        # continuous assignments are evaluated at time zero under every policy; always @(*) blocks only under 'settle'
        self.active = [p for p in self.procs if p["kind"] == "assign" or (p["kind"] == "comb" and t0_policy == "settle")]
        self.settle()

    # ---- static analysis
    def reads_of(self, e):
        k = e[0]
        if k == "num":
            return set()
        if k == "ref":
            s = {e[1]}
            for sel in e[2]:
                for x in sel[1:]:
                    s |= self.reads_of(x)
            return s
        if k == "un":
            return self.reads_of(e[2])
        if k == "bin":
            return self.reads_of(e[2]) | self.reads_of(e[3])
        if k == "cond":
            return self.reads_of(e[1]) | self.reads_of(e[2]) | self.reads_of(e[3])
        if k == "cat":
            s = set()
            for x in e[1]:
                s |= self.reads_of(x)
            return s
        if k == "repl":
            return self.reads_of(e[1]) | self.reads_of(e[2])
        if k in ("signed", "unsigned"):
            return self.reads_of(e[1])
        raise VError("reads_of: %r" % (e,))

    def reads_of_lhs(self, l):
        if l[0] == "lcat":
            s = set()
            for x in l[1]:
                s |= self.reads_of_lhs(x)
            return s
        s = set()
        for sel in l[2]:
            for x in sel[1:]:
                s |= self.reads_of(x)
        return s

    def reads_of_stmt(self, st):
        k = st[0]
        if k == "block":
            s = set()
            for x in st[1]:
                s |= self.reads_of_stmt(x)
            return s
        if k == "if":
            s = self.reads_of(st[1]) | self.reads_of_stmt(st[2])
            if st[3] is not None:
                s |= self.reads_of_stmt(st[3])
            return s
        if k == "case":
            s = self.reads_of(st[1])
            for kk, body in st[2]:
                s |= self.reads_of(kk) | self.reads_of_stmt(body)
            if st[3] is not None:
                s |= self.reads_of_stmt(st[3])
            return s
        if k in ("nba", "ba"):
            return self.reads_of(st[2]) | self.reads_of_lhs(st[1])
        if k == "sys":
            return set()
        raise VError("reads_of_stmt: %r" % (st,))

    def targets_of_stmt(self, st, acc):
        """-> set of (kind, name) assigned anywhere inside st."""
        k = st[0]
        if k in ("nba", "ba"):
            self._lhs_names(st[1], acc)
        elif k == "block":
            for x in st[1]:
                self.targets_of_stmt(x, acc)
        elif k == "if":
            self.targets_of_stmt(st[2], acc)
            if st[3] is not None:
                self.targets_of_stmt(st[3], acc)
        elif k == "case":
            for _, b in st[2]:
                self.targets_of_stmt(b, acc)
            if st[3] is not None:
                self.targets_of_stmt(st[3], acc)
        return acc

    def _lhs_names(self, l, acc):
        if l[0] == "lcat":
            for x in l[1]:
                self._lhs_names(x, acc)
        else:
            acc.add(l[1])

    # ---- types (self-determined width, signedness)
    def typ(self, e):
        k = e[0]
        if k == "num":
            return e[2], e[3]
        if k == "ref":
            name, sels = e[1], e[2]
            if name in self.mems:
                m = self.mems[name]
                if len(sels) == 1:
                    return m["width"], False
                sel = sels[1]
                if sel[0] == "idx":
                    return 1, False
                return self.cint(sel[1]) - self.cint(sel[2]) + 1, False
            v = self.vars.get(name)
            if v is None:
                raise VError("unknown identifier %r" % name)
            if not sels:
                return v["width"], v["signed"]
            sel = sels[0]
            if sel[0] == "idx":
                if sel[1][0] == "num" and sel[1][1] >= v["width"]:
                    raise VError("bit-select %s[%d] beyond the declared range [%d:0]" % (name, sel[1][1], v["width"] - 1))
                return 1, False
            hi, lo = self.cint(sel[1]), self.cint(sel[2])
            if hi >= v["width"] or lo > hi:
                raise VError("part-select %s[%d:%d] beyond the declared range [%d:0]" % (name, hi, lo, v["width"] - 1))
            return hi - lo + 1, False
        if k == "un":
            if e[1] in ("!", "&", "|", "^"):
                return 1, False
            return self.typ(e[2])
        if k == "bin":
            op = e[1]
            ta, tb = self.typ(e[2]), self.typ(e[3])
            if op in ("==", "!=", "<", "<=", ">", ">=", "&&", "||"):
                return 1, False
            if op in ("<<", ">>", "<<<", ">>>"):
                return ta
            return max(ta[0], tb[0]), ta[1] and tb[1]
        if k == "cond":
            ta, tb = self.typ(e[2]), self.typ(e[3])
            return max(ta[0], tb[0]), ta[1] and tb[1]
        if k == "cat":
            return sum(self.typ(x)[0] for x in e[1]), False
        if k == "repl":
            return self.cint(e[1]) * self.typ(e[2])[0], False
        if k == "signed":
            return self.typ(e[1])[0], True
        if k == "unsigned":
            return self.typ(e[1])[0], False
        raise VError("typ: %r" % (e,))

    def cint(self, e):
        if e[0] == "num":
            return e[1]
        raise VError("constant expected: %r" % (e,))

    # ---- evaluation: eval(e, W, S) -> int modulo 2^W; reading a flagged object sets self.tflag
    def self_eval(self, e):
        w, s = self.typ(e)
        return self.eval(e, w, s), w, s

    def ext(self, v, w, s, W, S):
        """extend a self-determined value (w bits, own sign s) into a context of W bits and type S."""
        v &= mask(w)
        if W > w and S and s and (v >> (w - 1)) & 1:
            v |= mask(W) & ~mask(w)
        return v & mask(W)

    def eval(self, e, W, S):
        k = e[0]
        if k == "num":
            return self.ext(e[1], e[2], e[3], W, S)
        if k == "ref":
            v, w, s = self.read_ref(e)
            return self.ext(v, w, s, W, S)
        if k in ("signed", "unsigned"):
            v, w, _ = self.self_eval(e[1])
            return self.ext(v, w, k == "signed", W, S)
        if k in ("cat", "repl"):
            if k == "cat":
                val, tot = 0, 0
                for x in e[1]:
                    v, w, _ = self.self_eval(x)
                    val = (val << w) | (v & mask(w))
                    tot += w
            else:
                n = self.cint(e[1])
                v, w, _ = self.self_eval(e[2])
                val, tot = 0, 0
                for _ in range(n):
                    val = (val << w) | (v & mask(w))
                    tot += w
            return self.ext(val, tot, False, W, S)
        if k == "un":
            op = e[1]
            if op == "!":
                v, w, _ = self.self_eval(e[2])
                return self.ext(int(v == 0), 1, False, W, S)
            if op in ("&", "|", "^"):
                v, w, _ = self.self_eval(e[2])
                r = {"&": int(v == mask(w)), "|": int(v != 0), "^": bin(v).count("1") & 1}[op]
                return self.ext(r, 1, False, W, S)
            v = self.eval(e[2], W, S)
            if op == "~":
                return ~v & mask(W)
            if op == "-":
                return -v & mask(W)
            return v
        if k == "cond":
            c, _, _ = self.self_eval(e[1])
            if self.tflag:
                # undefined selector: both branches are evaluated by 1364 (bitwise merge); the result is flagged anyway
                pass
            return self.eval(e[2] if c else e[3], W, S)
        if k == "bin":
            op = e[1]
            if op in ("==", "!=", "<", "<=", ">", ">="):
                ta, tb = self.typ(e[2]), self.typ(e[3])
                m, sg = max(ta[0], tb[0]), ta[1] and tb[1]
                a, b = self.eval(e[2], m, sg), self.eval(e[3], m, sg)
                if sg:
                    a, b = to_signed(a, m), to_signed(b, m)
                r = {"==": a == b, "!=": a != b, "<": a < b, "<=": a <= b, ">": a > b, ">=": a >= b}[op]
                return self.ext(int(r), 1, False, W, S)
            if op in ("&&", "||"):
                a, _, _ = self.self_eval(e[2])
                b, _, _ = self.self_eval(e[3])
                r = (a != 0 and b != 0) if op == "&&" else (a != 0 or b != 0)
                return self.ext(int(r), 1, False, W, S)
            if op in ("<<", ">>", "<<<", ">>>"):
                a = self.eval(e[2], W, S)
                b, wb, _ = self.self_eval(e[3])
                b &= mask(wb)
                if op in ("<<", "<<<"):
                    return (a << b) & mask(W) if b < 4096 else 0
                if op == ">>>" and S:
                    return (to_signed(a, W) >> min(b, W + 1)) & mask(W)
                return (a >> b) & mask(W) if b < 4096 else 0
            a, b = self.eval(e[2], W, S), self.eval(e[3], W, S)
            if op == "+":
                return (a + b) & mask(W)
            if op == "-":
                return (a - b) & mask(W)
            if op == "*":
                return (a * b) & mask(W)
            if op == "&":
                return a & b
            if op == "|":
                return a | b
            if op == "^":
                return a ^ b
        raise VError("eval: %r" % (e,))

    def read_ref(self, e):
        name, sels = e[1], e[2]
        if name in self.mems:
            m = self.mems[name]
            idx, _, _ = self.self_eval(sels[0][1])
            w = m["width"] if len(sels) == 1 else self.typ(e)[0]
            if idx >= m["depth"]:
                self.tflag = True          # out-of-range read: X
                return 0, w, False
            if m["xs"][idx]:
                self.tflag = True
            v = m["words"][idx]
            if len(sels) == 1:
                return v, m["width"], False
            sel = sels[1]
        else:
            var = self.vars[name]
            if var["x"]:
                self.tflag = True
            v = var["val"]
            if not sels:
                return v, var["width"], var["signed"]
            sel = sels[0]
        if sel[0] == "idx":
            i, _, _ = self.self_eval(sel[1])
            return (v >> i) & 1, 1, False
        hi, lo = self.cint(sel[1]), self.cint(sel[2])
        return (v >> lo) & mask(hi - lo + 1), hi - lo + 1, False

    # ---- assignment
    def lhs_width(self, l):
        if l[0] == "lcat":
            return sum(self.lhs_width(x) for x in l[1])
        return self.typ(("ref", l[1], l[2]))[0]

    def resolve_lhs(self, l, value, x):
        """-> list of updates (kind, name, index-or-None, lo, width, value, x) with the select expressions evaluated now."""
        if l[0] == "lcat":
            ups = []
            pos = self.lhs_width(l)
            for part in l[1]:
                w = self.lhs_width(part)
                pos -= w
                ups += self.resolve_lhs(part, (value >> pos) & mask(w), x)
            return ups
        name, sels = l[1], l[2]
        save = self.tflag
        self.tflag = False
        try:
            if name in self.mems:
                m = self.mems[name]
                idx, _, _ = self.self_eval(sels[0][1])
                lo, w = 0, m["width"]
                if len(sels) > 1:
                    sel = sels[1]
                    if sel[0] == "idx":
                        lo, w = self.self_eval(sel[1])[0], 1
                    else:
                        lo = self.cint(sel[2])
                        w = self.cint(sel[1]) - lo + 1
                if self.tflag:
                    # write through an undefined address: any word may have been hit - flag the whole memory
                    return [("memall", name, None, 0, 0, 0, True)]
                return [("mem", name, idx, lo, w, value, x)]
            var = self.vars[name]
            lo, w = 0, var["width"]
            if sels:
                sel = sels[0]
                if sel[0] == "idx":
                    lo, w = self.self_eval(sel[1])[0], 1
                else:
                    lo = self.cint(sel[2])
                    w = self.cint(sel[1]) - lo + 1
            return [("var", name, None, lo, w, value, x or self.tflag)]
        finally:
            self.tflag = save

    def apply(self, up, trigger=True):
        kind, name, idx, lo, w, value, x = up
        changed = False
        if kind == "memall":
            m = self.mems[name]
            if not all(m["xs"]):
                m["xs"] = [True] * m["depth"]
                changed = True
        elif kind == "mem":
            m = self.mems[name]
            if idx >= m["depth"]:
                return False
            old, oldx = m["words"][idx], m["xs"][idx]
            if w == m["width"]:
                new, newx = value & mask(w), x
            else:
                new = (old & ~(mask(w) << lo)) | ((value & mask(w)) << lo)
                newx = oldx or x
            if new != old or newx != oldx:
                m["words"][idx], m["xs"][idx] = new, newx
                changed = True
        else:
            var = self.vars[name]
            old, oldx = var["val"], var["x"]
            if lo >= var["width"]:
                return False
            if w == var["width"]:
                new, newx = value & mask(w), x
            else:
                new = (old & ~(mask(w) << lo)) | ((value & mask(w)) << lo)
                new &= mask(var["width"])
                newx = oldx or x
            if new != old or newx != oldx:
                var["val"], var["x"] = new, newx
                changed = True
        if changed and trigger:
            self.wake(name)
        return changed

    def wake(self, name):
        for p in self.readers.get(name, ()):
            if p not in self.active:
                self.active.append(p)

    def current(self, kind, name, idx):
        if kind == "memall":
            return tuple(self.mems[name]["xs"])
        if kind == "mem":
            m = self.mems[name]
            return (m["words"][idx], m["xs"][idx]) if idx < m["depth"] else None
        return (self.vars[name]["val"], self.vars[name]["x"])

    def assign(self, l, rhs, blocking):
        lw = self.lhs_width(l)
        tw, ts = self.typ(rhs)
        self.tflag = False
        v = self.eval(rhs, max(lw, tw), ts) & mask(lw)
        ups = self.resolve_lhs(l, v, self.tflag or self.ctx > 0)
        if blocking:
            for u in ups:
                self.apply(u)
        else:
            self.nba.extend(ups)

    def flag_targets(self, st, blocking_ok=True):
        """the statement was NOT executed because of an undefined condition: what it would have assigned is undefined."""
        for name in sorted(self.targets_of_stmt(st, set())):
            if name in self.mems:
                self.nba.append(("memall", name, None, 0, 0, 0, True))
            else:
                var = self.vars[name]
                self.nba.append(("var", name, None, 0, 0, 0, True))

    # ---- statements
    def exec_stmt(self, st):
        k = st[0]
        if k == "block":
            for x in st[1]:
                self.exec_stmt(x)
        elif k == "if":
            self.tflag = False
            c, _, _ = self.self_eval(st[1])
            und = self.tflag
            if und:
                self.ctx += 1
            taken, other = (st[2], st[3]) if c else (st[3], st[2])
            if taken is not None:
                self.exec_stmt(taken)
            if und:
                if other is not None:
                    self.flag_targets(other)
                self.ctx -= 1
        elif k == "case":
            te = self.typ(st[1])
            ws = [te] + [self.typ(kk) for kk, _ in st[2]]
            W = max(w for w, _ in ws)
            S = all(s for _, s in ws)
            self.tflag = False
            v = self.eval(st[1], W, S)
            und = self.tflag
            if und:
                self.ctx += 1
            chosen = None
            for kk, body in st[2]:
                if self.eval(kk, W, S) == v:
                    chosen = body
                    break
            if chosen is None:
                chosen = st[3]
            if chosen is not None:
                self.exec_stmt(chosen)
            if und:
                for kk, body in st[2]:
                    if body is not chosen:
                        self.flag_targets(body)
                if st[3] is not None and st[3] is not chosen:
                    self.flag_targets(st[3])
                self.ctx -= 1
        elif k == "nba":
            self.assign(st[1], st[2], False)
        elif k == "ba":
            self.assign(st[1], st[2], True)
        elif k == "sys":
            pass
        else:
            raise VError("exec: %r" % (st,))

    def run_initial(self, st):
        if st[0] == "block":
            for x in st[1]:
                self.run_initial(x)
        elif st[0] == "sys" and st[1] == "$readmemh":
            fname, mem = st[2][0][1], st[2][1][1]
            content = self.data_files.get(fname)
            if content is None:
                raise VError("data file %r not provided" % fname)
            toks = content.split()
            for t in toks:
                if not re.match(r"^[0-9a-fA-F_xXzZ]+$", t):
                    raise VError("data file %r: %r is not a hexadecimal word" % (fname, t))
            m = self.mems[mem]
            if len(toks) > m["depth"]:
                raise VError("data file %r has %d words for a memory of depth %d" % (fname, len(toks), m["depth"]))
            for i, t in enumerate(toks):
                wd = int(t, 16)
                if wd >> m["width"]:
                    raise VError("data file %r word %d (%s) does not fit %d bits" % (fname, i, t, m["width"]))
                m["words"][i] = wd
                m["xs"][i] = False
        elif st[0] == "sys":
            pass
        else:
            raise VError("unsupported initial statement %r" % (st[0],))

    # ---- scheduler
    def settle(self, limit=20000):
        n = 0
        while True:
            while self.active:
                n += 1
                if n > limit:
                    raise VError("no convergence after %d process evaluations in one time step (zero-delay oscillation); "
                                 "still active: %s" % (n, ", ".join(sorted({self.proc_name(p) for p in self.active})[:6])))
                if self.rng is not None and len(self.active) > 1:
                    i = self.rng.randrange(len(self.active))
                    self.order_choices += 1
                else:
                    i = 0
                p = self.active.pop(i)
                self.ctx = 0
                if p["kind"] == "assign":
                    self.assign(p["lhs"], p["rhs"], True)
                else:
                    self.exec_stmt(p["body"])
            if not self.nba:
                break
            ups, self.nba = self.nba, []
            if self.glitch:
                # strict reading: every update is an event of its own (a default assignment followed by an override glitches)
                for u in ups:
                    self.apply(self.fix_flag(u))
            else:
                # Verilator / synthesis reading: the updates of one NBA region are applied in order, processes are woken on the
                # NET change of a variable only (zero-width glitches do not re-trigger always @(*) blocks)
                before = {}
                for u in ups:
                    k = (u[0], u[1], u[2])
                    if k not in before:
                        before[k] = self.current(*k)
                    self.apply(self.fix_flag(u), trigger=False)
                for k, old in before.items():
                    if self.current(*k) != old:
                        self.wake(k[1])
        self.steps += n

    def fix_flag(self, u):
        # ("var", name, None, 0, 0, 0, True) = "flag only": keep the value, set the flag
        if u[0] == "var" and u[4] == 0:
            var = self.vars[u[1]]
            return ("var", u[1], None, 0, var["width"], var["val"], True)
        return u

    def proc_name(self, p):
        if p["kind"] == "assign":
            return "assign " + ",".join(sorted(self._names(p["lhs"])))
        return "always(" + ",".join(sorted(self.targets_of_stmt(p["body"], set()))[:4]) + ")"

    def _names(self, l):
        acc = set()
        self._lhs_names(l, acc)
        return acc

    def set_input(self, name, value):
        var = self.vars[name]
        self.apply(("var", name, None, 0, var["width"], value & mask(var["width"]), False))

    def posedge(self, clocks):
        """rising edge of the named clock signals in the same time step."""
        for c in clocks:
            if c in self.vars:
                self.vars[c]["val"] = 1
        for p in self.procs:
            if p["kind"] == "sync" and p["clk"] in clocks:
                self.active.append(p)
        self.settle()
        for c in clocks:
            if c in self.vars:
                self.vars[c]["val"] = 0

    def get(self, name):
        v = self.vars[name]
        return None if v["x"] else v["val"]

    def get_word(self, mem, i):
        m = self.mems[mem]
        return None if m["xs"][i] else m["words"][i]
