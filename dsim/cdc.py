"""Multi-clock scheduling and synchroniser-resolution fault injection.

* gen_schedule(): literal tick schedule for N domains (symbol chr(ord('a')+mask-1): the domains in
  `mask` rise in this tick) from seeded periods, phases, jitter, drift and coincidence probability,
  or drawn symbol by symbol (adversarial).
* MetaMultiReg: special_overrides={MultiReg: MetaMultiReg} lowers every MultiReg to Migen's own
  MultiRegImpl and registers (input, flops, domain) with the active registry.
* MetaInjector: per-bit old/new resolution of the first flop when its input changed at the adjacent
  preceding tick (source edge just before the destination edge), or in the very same tick
  (coincident edges; applied retroactively before the second flop can observe it)."""
from dsim.kernel import Agent

_registry = None


class Registry:
    def __init__(self):
        self.items = []     # dicts: i, regs, domain, width


def new_registry():
    global _registry
    _registry = Registry()
    return _registry


class MetaMultiReg:
    @staticmethod
    def lower(dr):
        from migen.genlib.cdc import MultiRegImpl
        impl = MultiRegImpl(dr.i, dr.o, dr.odomain, dr.n, dr.reset)
        if _registry is not None:
            _registry.items.append({"i": dr.i, "regs": impl.regs, "domain": dr.odomain, "width": len(impl.regs[0])})
        return impl


def overrides():
    from migen.genlib.cdc import MultiReg
    return {MultiReg: MetaMultiReg}


def gen_schedule(rng, n_ticks, ndom=2, style=None):
    """Returns (schedule string, description dict)."""
    style = style or rng.choice(["periodic", "periodic", "periodic", "adversarial", "bursty"])
    sym = lambda mask: chr(ord('a') + mask - 1)  # noqa
    desc = {"style": style}
    if style == "adversarial":
        pc = rng.choice([0.0, 0.1, 0.3])
        bias = rng.choice([0.5, 0.5, 0.3, 0.7, 0.15, 0.85])
        out = []
        for _ in range(n_ticks):
            if rng.random() < pc:
                out.append(sym((1 << ndom) - 1))
            elif ndom == 2:
                out.append(sym(1 if rng.random() < bias else 2))
            else:
                out.append(sym(1 << rng.randrange(ndom)))
        desc.update(pc=pc, bias=bias)
        return "".join(out), desc
    if style == "bursty":
        out = []
        while len(out) < n_ticks:
            d = rng.randrange(ndom)
            out.extend(sym(1 << d) * rng.choice([1, 2, 3, 5, 8, 13]))
        return "".join(out[:n_ticks]), desc
    # periodic with ratio class, phase, jitter, slow drift, coincidence merging
    ratio = rng.choice([(1, 1), (1, 1), (100, 101), (2, 5), (5, 2), (1, 3), (3, 1), (1, 8), (8, 1), (3, 4), (7, 5)])
    per = [float(ratio[0]), float(ratio[1])] + [rng.uniform(1, 4) for _ in range(ndom - 2)]
    jit = rng.choice([0.0, 0.0, 0.02, 0.2])
    drift = rng.choice([0.0, 0.0, 0.001])
    pc = rng.choice([0.0, 0.0, 0.3, 1.0])      # probability that near-coincident edges are merged into one tick
    t = [rng.uniform(0, per[d]) for d in range(ndom)]
    out = []
    while len(out) < n_ticks:
        d = min(range(ndom), key=lambda x: t[x])
        now = t[d]
        mask = 1 << d
        t[d] += per[d] * (1 + rng.uniform(-jit, jit))
        per[d] *= (1 + drift) if d == 0 else 1.0
        # merge other domains whose next edge is within 2% of the fastest period
        eps = 0.02 * min(per)
        for e in range(ndom):
            if e != d and abs(t[e] - now) <= eps and rng.random() < pc:
                mask |= 1 << e
                t[e] += per[e] * (1 + rng.uniform(-jit, jit))
        out.append(sym(mask))
    desc.update(ratio=list(ratio), jitter=jit, drift=drift, pc=pc)
    return "".join(out), desc


class MetaInjector:
    """One instance per bench; `attach(bench)` registers a thin agent in every domain so that it is
    called on every tick. masks: literal list of ints consumed one per injection opportunity (bit=1:
    the changed bit resolves to the OLD value)."""

    def __init__(self, registry, masks):
        self.items = registry.items
        self.masks = masks or [0]
        self.mpos = 0
        self.prev = {}          # id(item) -> input value after tick t-2
        self.cur = {}           # value after tick t-1
        self.last_tick = -1
        self.rose = {}          # domain -> last tick index at which it rose
        self.rose_prev = {}
        self.opportunities = 0
        self.fired = 0
        self.coincident_fired = 0
        self.done_retro = set()
        self.src_dom = None     # id(item) -> domain that drives the input (None: unknown)
        self.src_hint = {}

    def attach(self, bench, alias_of=None, src_hint=None):
        """src_hint: {signal: domain} for synchroniser inputs driven by harness agents."""
        self.bench = bench
        self.alias_of = alias_of or {}
        self.src_hint = src_hint or {}
        for d in bench.domains:
            bench.add(_InjAgent(self, d), d)

    def _next_mask(self, width):
        m = self.masks[self.mpos % len(self.masks)]
        self.mpos += 1
        return m & ((1 << width) - 1)

    def _dom(self, d):
        return self.alias_of.get(d, d)

    def _find_sources(self):
        from migen.fhdl.tools import list_targets
        drv = {}
        for cd, stmts in self.bench.sim.fragment.sync.items():
            for s in list_targets(stmts):
                drv[s] = cd
        self.src_dom = {}
        for it in self.items:
            d = drv.get(it["i"]) if it["i"] in drv else self.src_hint.get(it["i"])
            self.src_dom[id(it)] = self._dom(d) if d is not None else None

    def _cross(self, it):
        """True if the input is known to be driven from another clock domain."""
        s = self.src_dom.get(id(it))
        return s is not None and s != self._dom(it["domain"])

    def on_edge(self, dom, v, w):
        tick = self.bench.clocks.ticks      # number of the tick being processed (1-based)
        if self.src_dom is None:
            self._find_sources()
        if tick != self.last_tick:
            # first call in this tick: sample all inputs (values after the previous tick)
            self.prev = self.cur
            self.cur = {id(it): v[it["i"]] for it in self.items}
            self.rose_prev = dict(self.rose)
            self.last_tick = tick
            self.done_retro = set()
            self.retro_pending = True
        self.rose[dom] = tick
        for it in self.items:
            k = id(it)
            if k not in self.prev:
                continue
            old, new = self.prev[k], self.cur[k]
            if old == new:
                continue
            D = self._dom(it["domain"])
            d_rose_prev = self.rose_prev.get(D) == tick - 1
            diff = old ^ new
            if D == dom:
                if not d_rose_prev:
                    # (a) source edge just before this destination edge: first flop resolves per bit
                    self.opportunities += 1
                    m = self._next_mask(it["width"]) & diff
                    if m:
                        mix = (new & ~m) | (old & m)
                        w(it["regs"][0], mix)
                        self.fired += 1
                        self.bench.fault("meta_bit", bin(m).count("1"))
                elif k not in self.done_retro and len(it["regs"]) >= 2 and self._cross(it):
                    # (b) coincident edges in the previous tick and the destination rises again now:
                    # the second flop must see the resolved first flop
                    self.done_retro.add(k)
                    self.opportunities += 1
                    m = self._next_mask(it["width"]) & diff
                    keep_new = diff & ~m
                    if keep_new:
                        mix = (old & ~keep_new) | (new & keep_new)
                        w(it["regs"][1], mix)
                        self.coincident_fired += 1
                        self.bench.fault("meta_bit_coincident", bin(keep_new).count("1"))
        # (b) coincident in the previous tick, destination not rising now: rewrite the first flop
        for it in self.items:
            k = id(it)
            if k not in self.prev or k in self.done_retro:
                continue
            old, new = self.prev[k], self.cur[k]
            if old == new:
                continue
            D = self._dom(it["domain"])
            if self.rose_prev.get(D) == tick - 1 and not self._rises_now(D) and self._cross(it):
                self.done_retro.add(k)
                self.opportunities += 1
                diff = old ^ new
                m = self._next_mask(it["width"]) & diff
                keep_new = diff & ~m
                if keep_new:
                    w(it["regs"][0], (old & ~keep_new) | (new & keep_new))
                    self.coincident_fired += 1
                    self.bench.fault("meta_bit_coincident", bin(keep_new).count("1"))

    def _rises_now(self, D):
        return D in self.bench.clocks.current


class _InjAgent(Agent):
    def __init__(self, inj, dom):
        self.inj = inj
        self.dom = dom

    @property
    def reads(self):
        # evaluated when the coordinator starts, i.e. after the Simulator lowered the specials
        return tuple(it["i"] for it in self.inj.items)

    def step(self, v, t, w):
        self.inj.on_edge(self.dom, v, w)
