"""Stream parties: Producer (legal: holds valid and token until accepted), Consumer (ready from a
literal pattern), with the C04 stability monitor built into the consumer."""
from dsim.kernel import Agent


def flat_fields(rec, prefix=""):
    """[(name, signal)] for all leaf signals of a Record, in layout order."""
    from migen.genlib.record import Record
    out = []
    for f in rec.layout:
        name = f[0]
        e = getattr(rec, name)
        if isinstance(e, Record):
            out.extend(flat_fields(e, prefix + name + "."))
        else:
            out.append((prefix + name, e))
    return out


def ep_fields(ep):
    """(payload fields, param fields) of a stream Endpoint as [(name, signal)]."""
    return flat_fields(ep.payload), flat_fields(ep.param)


class Producer(Agent):
    """tokens: list of dicts {field: value, "first": b, "last": b}. pattern: literal string, one
    symbol consumed per *decision* (a cycle in which the producer is free to choose): '1' offer the
    next token, '0' pause. After the pattern: always offer. garbage: literal list of ints used
    (cyclically) to drive payload/first/last while valid=0; None = drive zeros."""

    def __init__(self, ep, tokens, pattern, garbage=None, name="src", start=0, coop_from=None):
        self.ep = ep
        self.coop_from = coop_from  # from this cycle on the producer always offers (cooperative tail)
        self.name = name
        self.tokens = tokens
        self.pattern = pattern
        self.ppos = 0
        self.garbage = garbage
        self.gpos = 0
        self.idx = 0
        self.offering = False
        self.start = start
        pl, pr = ep_fields(ep)
        self.fields = [("first", ep.first), ("last", ep.last)] + pl + pr
        self.reads = (ep.valid, ep.ready)
        self.accepted = []          # (cycle, token index)
        self.acc_ticks = []         # global tick number of each acceptance
        self.stalled_cycles = 0
        self.paused_cycles = 0
        self.hold = False           # external hold (fault/controller): do not offer

    def done(self):
        return self.idx >= len(self.tokens)

    def step(self, v, t, w):
        ep = self.ep
        if self.offering:
            if v[ep.ready]:
                self.accepted.append((t, self.idx))
                self.acc_ticks.append(self.bench.clocks.ticks)
                self.bench.event(self.name, "acc", t, self.idx)
                self.idx += 1
                self.offering = False
            else:
                self.stalled_cycles += 1
                return  # hold valid and token (legal producer)
        # free to decide
        offer = False
        if self.idx < len(self.tokens) and t >= self.start and not self.hold:
            if self.ppos < len(self.pattern) and (self.coop_from is None or t < self.coop_from):
                offer = self.pattern[self.ppos] == "1"
                self.ppos += 1
            else:
                offer = True
        if offer:
            tok = self.tokens[self.idx]
            w(ep.valid, 1)
            for n, s in self.fields:
                w(s, tok.get(n, 0))
            self.offering = True
        else:
            if self.idx < len(self.tokens):
                self.paused_cycles += 1
            if v[ep.valid]:
                w(ep.valid, 0)
            if self.garbage:
                # payload/param/first/last are don't-care while valid=0: drive garbage
                for n, s in self.fields:
                    w(s, self.garbage[self.gpos % len(self.garbage)])
                    self.gpos += 1


class Consumer(Agent):
    """Records every handshake at a source endpoint. ready follows a literal pattern (one symbol
    per cycle), afterwards always ready. Built-in C04 monitor: valid & ~ready at t implies valid
    and an unchanged token at t+1 (armed only while `premise()` holds)."""

    def __init__(self, ep, pattern, name="dst", expect=None, check_stability=True, premise=None):
        self.ep = ep
        self.name = name
        self.pattern = pattern
        pl, pr = ep_fields(ep)
        self.fields = [("first", ep.first), ("last", ep.last)] + pl + pr
        self.reads = tuple([ep.valid, ep.ready] + [s for _, s in self.fields])
        self.got = []               # (cycle, token dict)
        self.expect = expect        # number of tokens expected (for done())
        self.prev = None            # (token tuple) when valid & ~ready in previous cycle
        self.check_stability = check_stability
        self.premise = premise
        self.stability_armed = 0
        self.stability_disarmed = 0
        self.stall_cycles = 0
        self.ready_now = 0
        self.force_ready = False
        self.hold = False           # external hold (fault window): ready forced low
        self.got_ticks = []
        self.quiet = 32             # cycles without a delivery after which the consumer is "done"
        self.last_activity = 0
        self.now = 0

    def done(self):
        if self.expect is not None:
            return len(self.got) >= self.expect
        # quiet = no handshake anywhere in the bench (accept or delivery) for `quiet` cycles
        # and only once the literal ready pattern is exhausted (cooperative tail reached)
        if self.now < len(self.pattern) or self.hold:
            return False
        return self.bench.clocks.ticks - self.bench.last_event >= self.quiet

    def step(self, v, t, w):
        ep = self.ep
        valid = v[ep.valid]
        ready = v[ep.ready]
        self.now = t
        tok = None
        if valid or self.prev is not None:
            tok = tuple(v[s] for _, s in self.fields)
        if self.prev is not None:
            if self.premise is None or self.premise():
                self.stability_armed += 1
                if not valid:
                    self.bench.violate("valid_withdrawn", self.name,
                                       "valid dropped before ready at cycle %d" % t)
                elif tok != self.prev:
                    diff = [n for (n, _), a, b in zip(self.fields, self.prev, tok) if a != b]
                    self.bench.violate("token_changed", self.name,
                                       "fields %s changed while valid & ~ready at cycle %d" % (diff, t))
            else:
                self.stability_disarmed += 1
        if valid and ready:
            d = {n: x for (n, _), x in zip(self.fields, tok)}
            self.got.append((t, d))
            self.got_ticks.append(self.bench.clocks.ticks)
            self.last_activity = t
            self.bench.event(self.name, "got", t, tok)
            self.prev = None
        elif valid and self.check_stability:
            self.prev = tok
            self.stall_cycles += 1
        else:
            self.prev = None
        # next ready
        if self.hold:
            r = 0
        elif self.force_ready or t >= len(self.pattern):
            r = 1
        else:
            r = 1 if self.pattern[t] == "1" else 0
        if r != ready:
            w(ep.ready, r)


class Controller(Agent):
    """Drives plain control inputs from a literal list of (cycle, signal index, value)."""

    def __init__(self, signals, events, name="ctl"):
        self.signals = signals
        self.events = sorted(events)
        self.pos = 0
        self.name = name
        self.reads = ()

    def step(self, v, t, w):
        while self.pos < len(self.events) and self.events[self.pos][0] <= t:
            _, i, val = self.events[self.pos]
            w(self.signals[i], val)
            self.bench.event(self.name, "set", t, i, val)
            self.pos += 1
