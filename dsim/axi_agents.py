"""AXI4 (full) parties: burst master with five channel drivers and a memory slave that expands bursts
with its own implementation of the AMBA address rules (the reference for C10)."""
from dsim.kernel import Agent

FIXED, INCR, WRAP = 0, 1, 2


def beat_addresses(addr, length, size, burst):
    """AMBA AXI: byte address of every beat (length = AxLEN, beats = length+1)."""
    nbytes = 1 << size
    out = []
    aligned = (addr >> size) << size
    if burst == WRAP:
        container = nbytes * (length + 1)
        lower = (addr // container) * container
    for n in range(length + 1):
        if burst == FIXED:
            a = addr
        elif n == 0:
            a = addr
        else:
            a = aligned + n * nbytes
            if burst == WRAP:
                if a >= lower + container:
                    a -= container
        out.append(a)
    return out


def lanes_of(a, size, bus_bytes, first, start_addr):
    """byte lanes (indices on the data bus) carrying a beat at address a."""
    nbytes = 1 << size
    base = (a >> size) << size
    lo = a if first else base
    return [b % bus_bytes for b in range(lo, base + nbytes)], lo


class AXIMaster(Agent):
    """ops: {"kind": "w"|"r", "addr", "len", "size", "burst", "id", "data": [beat data], "strb": [beat strb] | None,
    "gap": cycles before the address is presented, "wgaps": [gap before each W beat]}"""

    def __init__(self, bus, ops, name="m", max_out=1, bready="", rready="", hazard_key=None, single_target=None, idle_garbage=None):
        self.bus, self.name = bus, name
        self.garbage, self.gpos = idle_garbage, 0     # literal values driven on the address fields while no address is presented
        self.ops = ops
        self.single_target = single_target     # callable addr -> slave index: never have requests outstanding to two slaves (per direction)
        self.log = {"aw": [], "ar": []}        # (cycle, index of the write / read) of every accepted address
        self.writes = [o for o in ops if o["kind"] == "w"]
        self.reads_ = [o for o in ops if o["kind"] == "r"]
        self.max_out, self.bready, self.rready = max_out, bready, rready
        b = bus
        self.reads = (b.aw.valid, b.aw.ready, b.w.valid, b.w.ready, b.b.valid, b.b.ready, b.b.resp, b.b.id,
                      b.ar.valid, b.ar.ready, b.r.valid, b.r.ready, b.r.data, b.r.resp, b.r.last, b.r.id)
        self.aw_i = self.ar_i = 0
        self.w_i, self.w_beat = 0, 0
        self.aw_on = self.w_on = self.ar_on = False
        self.aw_acc = 0
        self.aw_wait = self.writes[0].get("gap", 0) if self.writes else 0
        self.ar_wait = self.reads_[0].get("gap", 0) if self.reads_ else 0
        self.w_wait = 0
        self.b_log, self.r_log = [], []        # (cycle, resp, id) / per read: list of (cycle, data, resp, last, id)
        self.r_cur = []
        self.b_n = self.r_n = 0
        self.proto = []
        self._held = {"b": None, "r": None}
        self.stall = 0
        # program-order hazards on word keys
        self.w_after_r = self.r_after_w = None
        if hazard_key is not None:
            wi = ri = 0
            seq = []
            for o in ops:
                keys = set(hazard_key(a) for a in beat_addresses(o["addr"], o["len"], o["size"], o["burst"]))
                if o["kind"] == "w":
                    seq.append(("w", wi, keys))
                    wi += 1
                else:
                    seq.append(("r", ri, keys))
                    ri += 1
            self.w_after_r = {i: [] for i in range(wi)}
            self.r_after_w = {i: [] for i in range(ri)}
            for n, (k, i, ks) in enumerate(seq):
                for (k2, i2, ks2) in seq[:n]:
                    if k != k2 and ks & ks2:
                        (self.w_after_r if k == "w" else self.r_after_w)[i].append(i2)

    def done(self):
        return self.b_n >= len(self.writes) and self.r_n >= len(self.reads_)

    def _target_ok(self, op, outstanding):
        if self.single_target is None:
            return True
        t = self.single_target(op["addr"])
        return all(self.single_target(o["addr"]) == t for o in outstanding)

    def _ax(self, w, ch, op):
        w(ch.valid, 1)
        w(ch.addr, op["addr"])
        w(ch.len, op["len"])
        w(ch.size, op["size"])
        w(ch.burst, op["burst"])
        w(ch.id, op.get("id", 0))

    def step(self, v, t, w):
        b = self.bus
        for ch, payload in (("b", (b.b.resp, b.b.id)), ("r", (b.r.data, b.r.resp, b.r.last, b.r.id))):
            chan = getattr(b, ch)
            cur = tuple(v[x] for x in payload) if v[chan.valid] else None
            held = self._held[ch]
            if held is not None:
                if cur is None:
                    self.proto.append((t, ch, "valid withdrawn before ready"))
                elif cur != held:
                    self.proto.append((t, ch, "payload changed before ready: %r -> %r" % (held, cur)))
            self._held[ch] = cur if (cur is not None and not v[chan.ready]) else None
        if self.aw_on and v[b.aw.ready]:
            self.bench.event(self.name, "aw", t, self.writes[self.aw_i]["addr"], self.writes[self.aw_i]["len"])
            self.log["aw"].append((t, self.aw_i))
            self.aw_on = False
            self.aw_i += 1
            self.aw_acc += 1
            self.aw_wait = self.writes[self.aw_i].get("gap", 0) if self.aw_i < len(self.writes) else 0
        elif self.aw_on:
            self.stall += 1
        if self.w_on and v[b.w.ready]:
            self.bench.event(self.name, "w", t, self.w_i, self.w_beat)
            self.w_on = False
            op = self.writes[self.w_i]
            self.w_beat += 1
            if self.w_beat > op["len"]:
                self.w_i += 1
                self.w_beat = 0
            if self.w_i < len(self.writes):
                g = self.writes[self.w_i].get("wgaps") or [0]
                self.w_wait = g[self.w_beat % len(g)]
        elif self.w_on:
            self.stall += 1
        if self.ar_on and v[b.ar.ready]:
            self.bench.event(self.name, "ar", t, self.reads_[self.ar_i]["addr"], self.reads_[self.ar_i]["len"])
            self.log["ar"].append((t, self.ar_i))
            self.ar_on = False
            self.ar_i += 1
            self.ar_wait = self.reads_[self.ar_i].get("gap", 0) if self.ar_i < len(self.reads_) else 0
        elif self.ar_on:
            self.stall += 1
        if v[b.b.valid] and v[b.b.ready]:
            self.b_log.append((t, v[b.b.resp], v[b.b.id]))
            self.bench.event(self.name, "b", t, v[b.b.resp], v[b.b.id])
            self.b_n += 1
        if v[b.r.valid] and v[b.r.ready]:
            self.r_cur.append((t, v[b.r.data], v[b.r.resp], v[b.r.last], v[b.r.id]))
            self.bench.event(self.name, "r", t, v[b.r.data], v[b.r.resp], v[b.r.last])
            # a read burst is complete when the expected number of beats arrived or last is seen
            exp_beats = self.reads_[self.r_n]["len"] + 1 if self.r_n < len(self.reads_) else 1
            if v[b.r.last] or len(self.r_cur) >= exp_beats:
                self.r_log.append(self.r_cur)
                self.r_cur = []
                self.r_n += 1
        # new offers
        if not self.aw_on:
            if self.aw_i < len(self.writes):
                if self.aw_wait > 0:
                    self.aw_wait -= 1
                elif (self.aw_i - self.b_n) < self.max_out and self._target_ok(self.writes[self.aw_i], self.writes[self.b_n:self.aw_i]) and \
                        (self.w_after_r is None or all(j < self.r_n for j in self.w_after_r[self.aw_i])):
                    self._ax(w, b.aw, self.writes[self.aw_i])
                    self.aw_on = True
            if not self.aw_on and v[b.aw.valid]:
                w(b.aw.valid, 0)
            if not self.aw_on and self.garbage:
                w(b.aw.addr, self.garbage[self.gpos % len(self.garbage)] & 0xffffffff)
                self.gpos += 1
        if not self.w_on:
            presented = self.aw_acc + (1 if self.aw_on else 0)
            if self.w_i < len(self.writes) and self.w_i < presented:
                if self.w_wait > 0:
                    self.w_wait -= 1
                else:
                    op = self.writes[self.w_i]
                    k = self.w_beat
                    w(b.w.valid, 1)
                    w(b.w.data, op["data"][k])
                    w(b.w.strb, op["strb"][k] if op.get("strb") else (1 << len(b.w.strb)) - 1)
                    w(b.w.last, int(k == op["len"]))
                    self.w_on = True
            if not self.w_on and v[b.w.valid]:
                w(b.w.valid, 0)
        if not self.ar_on:
            if self.ar_i < len(self.reads_):
                if self.ar_wait > 0:
                    self.ar_wait -= 1
                elif (self.ar_i - self.r_n) < self.max_out and self._target_ok(self.reads_[self.ar_i], self.reads_[self.r_n:self.ar_i]) and \
                        (self.r_after_w is None or all(j < self.b_n for j in self.r_after_w[self.ar_i])):
                    self._ax(w, b.ar, self.reads_[self.ar_i])
                    self.ar_on = True
            if not self.ar_on and v[b.ar.valid]:
                w(b.ar.valid, 0)
            if not self.ar_on and self.garbage:
                w(b.ar.addr, self.garbage[self.gpos % len(self.garbage)] & 0xffffffff)
                self.gpos += 1
        br = 1 if t >= len(self.bready) else int(self.bready[t] == "1")
        rr = 1 if t >= len(self.rready) else int(self.rready[t] == "1")
        if br != v[b.b.ready]:
            w(b.b.ready, br)
        if rr != v[b.r.ready]:
            w(b.r.ready, rr)


class AXISlave(Agent):
    """Memory slave for AXI4: accepts AW/AR/W with literal ready patterns, expands bursts with beat_addresses(),
    answers in order. init(byte address) -> byte. Logs every burst and beat; checks W beat count/last itself."""

    def __init__(self, bus, name="s", awready="", wready="", arready="", lat=None, depth=2, init=None, err_range=None, silent_from=None):
        self.bus, self.name = bus, name
        self.silent_from = silent_from      # fault: from this cycle on (and once nothing accepted is unanswered) the slave is dead
        self.is_silent = False
        self.silent_between = False         # may also die with a write address taken and its data not yet
        self.pat = {"aw": awready, "w": wready, "ar": arready}
        self.lat = lat or [1]
        self.depth = depth
        self.init = init or (lambda b: 0)
        self.err_range = err_range
        b = bus
        self.nb = len(b.w.strb)
        self.reads = (b.aw.valid, b.aw.ready, b.aw.addr, b.aw.len, b.aw.size, b.aw.burst, b.aw.id,
                      b.w.valid, b.w.ready, b.w.data, b.w.strb, b.w.last, b.b.valid, b.b.ready,
                      b.ar.valid, b.ar.ready, b.ar.addr, b.ar.len, b.ar.size, b.ar.burst, b.ar.id, b.r.valid, b.r.ready)
        self.mem = {}
        self.awq, self.wbeats = [], []
        self.wr_done = []     # [ready_at, id, err]
        self.rd_q = []        # [ready_at, beats [(data, err)], id, pos]
        self.n_wr = self.n_rd = 0
        self.b_on = self.r_on = False
        self.log = {"aw": [], "ar": [], "w": [], "wbeats": [], "b": [], "r": []}    # b: (cycle, id); r: (cycle, id, last)
        self.proto = []
        self._held = {"aw": None, "w": None, "ar": None}
        self.errors = []      # slave-observed burst structure problems (wrong W beat count / last)

    def rbyte(self, a):
        return self.mem.get(a, self.init(a) & 0xff)

    def _err(self, a):
        return self.err_range is not None and self.err_range[0] <= a < self.err_range[1]

    def step(self, v, t, w):
        b = self.bus
        for ch, payload in (("aw", (b.aw.addr, b.aw.len, b.aw.size, b.aw.burst, b.aw.id)), ("w", (b.w.data, b.w.strb, b.w.last)),
                            ("ar", (b.ar.addr, b.ar.len, b.ar.size, b.ar.burst, b.ar.id))):
            chan = getattr(b, ch)
            cur = tuple(v[x] for x in payload) if v[chan.valid] else None
            held = self._held[ch]
            if held is not None:
                if cur is None:
                    self.proto.append((t, ch, "valid withdrawn before ready"))
                elif cur != held:
                    self.proto.append((t, ch, "payload changed before ready: %r -> %r" % (held, cur)))
            self._held[ch] = cur if (cur is not None and not v[chan.ready]) else None
        if v[b.aw.valid] and v[b.aw.ready]:
            e = (v[b.aw.addr], v[b.aw.len], v[b.aw.size], v[b.aw.burst], v[b.aw.id])
            self.awq.append(e)
            self.log["aw"].append((t,) + e)
            self.bench.event(self.name, "aw", t, *e)
        if v[b.w.valid] and v[b.w.ready]:
            self.wbeats.append((v[b.w.data], v[b.w.strb], v[b.w.last]))
            self.log["w"].append((t, v[b.w.data], v[b.w.strb], v[b.w.last]))
            self.bench.event(self.name, "w", t, v[b.w.data], v[b.w.strb], v[b.w.last])
        if v[b.ar.valid] and v[b.ar.ready]:
            e = (v[b.ar.addr], v[b.ar.len], v[b.ar.size], v[b.ar.burst], v[b.ar.id])
            self.log["ar"].append((t,) + e)
            self.bench.event(self.name, "ar", t, *e)
            beats = []
            for n, a in enumerate(beat_addresses(e[0], e[1], e[2], e[3])):
                base = (a // self.nb) * self.nb
                data = sum(self.rbyte(base + i) << (8 * i) for i in range(self.nb))
                beats.append((data, self._err(a)))
            self.rd_q.append([t + self.lat[self.n_rd % len(self.lat)], beats, e[4], 0])
            self.n_rd += 1
        if self.b_on and v[b.b.ready]:
            self.b_on = False
            self.log["b"].append((t, self.wr_done[0][1]))
            self.wr_done.pop(0)
        if self.r_on and v[b.r.ready]:
            self.r_on = False
            q = self.rd_q[0]
            self.log["r"].append((t, q[2], int(q[3] == len(q[1]) - 1)))
            q[3] += 1
            if q[3] >= len(q[1]):
                self.rd_q.pop(0)
        # complete write bursts
        while self.awq and len(self.wbeats) >= self.awq[0][1] + 1:
            addr, ln, size, burst, id_ = self.awq.pop(0)
            beats = self.wbeats[:ln + 1]
            del self.wbeats[:ln + 1]
            if not beats[-1][2] or any(x[2] for x in beats[:-1]):
                self.errors.append((t, "W beats of burst addr=%#x len=%d carry last=%s" % (addr, ln, [x[2] for x in beats])))
            err = False
            for n, a in enumerate(beat_addresses(addr, ln, size, burst)):
                base = (a // self.nb) * self.nb
                err = err or self._err(a)
                self.log["wbeats"].append((t, a, beats[n][0], beats[n][1]))
                if not self._err(a):
                    for i in range(self.nb):
                        if (beats[n][1] >> i) & 1:
                            self.mem[base + i] = (beats[n][0] >> (8 * i)) & 0xff
            self.wr_done.append([t + self.lat[self.n_wr % len(self.lat)], id_, err])
            self.n_wr += 1
        if not self.b_on and self.wr_done and self.wr_done[0][0] <= t:
            w(b.b.valid, 1)
            w(b.b.resp, 2 if self.wr_done[0][2] else 0)
            w(b.b.id, self.wr_done[0][1])
            self.b_on = True
        if not self.r_on and self.rd_q and self.rd_q[0][0] <= t:
            q = self.rd_q[0]
            data, err = q[1][q[3]]
            w(b.r.valid, 1)
            w(b.r.data, data)
            w(b.r.resp, 2 if err else 0)
            w(b.r.last, int(q[3] == len(q[1]) - 1))
            w(b.r.id, q[2])
            self.r_on = True
        if not self.b_on and v[b.b.valid]:
            w(b.b.valid, 0)
        if not self.r_on and v[b.r.valid]:
            w(b.r.valid, 0)
        if (self.silent_from is not None and t >= self.silent_from and not self.is_silent
                and not (self.wbeats or self.wr_done or self.rd_q) and (not self.awq or self.silent_between)):
            self.is_silent = True
            self.bench.fault("silent_slave")
            self.bench.event(self.name, "silent", t)
        needed = sum(e[1] + 1 for e in self.awq)
        # W beats that complete an already accepted burst are always welcome; beats running ahead of their AW are bounded
        w_q = len(self.wr_done) if len(self.wbeats) < needed else (len(self.wbeats) - needed) // 4 + 1 + len(self.wr_done)
        for ch, q_len in (("aw", len(self.awq) + len(self.wr_done)), ("w", w_q), ("ar", len(self.rd_q))):
            chan = getattr(b, ch)
            pat = self.pat[ch]
            want = 1 if t >= len(pat) else int(pat[t] == "1")
            if q_len >= self.depth or self.is_silent:
                want = 0
            if want != v[chan.ready]:
                w(chan.ready, want)
