"""Simulation kernel: the real litex.gen.sim.Simulator driven by one coordinator generator per
clock domain; the coordinator steps our agents (parties, monitors) once per rising edge.

Agents are *registered* partners: at an edge they see the values every flop samples at that edge
and the values they write become visible after the edge.
"""
import hashlib

from dsim import boot


class Violation(Exception):
    def __init__(self, cls, observable, msg, cycle=None):
        Exception.__init__(self, "%s @%s: %s" % (cls, observable, msg))
        self.cls = cls
        self.observable = observable
        self.msg = msg
        self.cycle = cycle

    def as_dict(self):
        return {"cls": self.cls, "observable": self.observable, "msg": self.msg, "cycle": self.cycle}


class Agent:
    """Base class. Subclasses set self.reads (signals sampled every cycle) and implement step()."""
    reads = ()
    name = "agent"

    def bind(self, bench, cd):
        self.bench = bench
        self.cd = cd

    def step(self, v, t, w):
        pass

    def done(self):
        return True


class SeededClocks:
    """Replacement for Simulator.time. `schedule` is a literal string; symbol chr(ord('a')+m-1)
    means: the domains whose bit is set in mask m rise in this tick. After the schedule the
    domains rise round-robin (cooperative tail). Aliases: domain -> list of derived domain names
    that tick together with it. No falling edges are produced unless with_falling."""

    def __init__(self, domains, schedule=None, aliases=None, with_falling=False):
        self.domains = list(domains)
        self.schedule = schedule
        self.pos = 0
        self.aliases = aliases or {}
        self.with_falling = with_falling
        self._high = False
        self.ticks = 0
        self.rises = {d: 0 for d in self.domains}
        self.coincident = 0
        self.current = set()

    def _expand(self, ds):
        out = []
        for d in ds:
            out.append(d)
            out.extend(self.aliases.get(d, ()))
        return out

    def tick(self):
        if self.with_falling and self._high:
            self._high = False
            return 1, [], self._last
        self.ticks += 1
        n = len(self.domains)
        if n == 1:
            ds = self.domains
        elif self.schedule is not None and self.pos < len(self.schedule):
            m = ord(self.schedule[self.pos]) - ord('a') + 1
            self.pos += 1
            ds = [d for i, d in enumerate(self.domains) if (m >> i) & 1]
        else:
            k = self.pos
            self.pos += 1
            ds = [self.domains[k % n]]
        self.current = set(ds)
        for d in ds:
            self.rises[d] += 1
        if len(ds) > 1:
            self.coincident += 1
        r = self._expand(ds)
        if self.with_falling:
            self._high = True
            self._last = r
        return 1, r, []


class Bench:
    def __init__(self, top, domains=("sys",), schedule=None, aliases=None, overrides=None,
                 max_cycles=5000, tail=8, with_falling=False, fingerprint=True):
        from litex.gen.sim.core import Simulator
        self.top = top
        self.domains = list(domains)
        self.agents = {d: [] for d in self.domains}
        self.log = []
        self.violation = None
        self.max_cycles = max_cycles
        self.tail = tail
        self.cycle = {d: 0 for d in self.domains}
        self.last_event = 0     # tick number of the last recorded event
        self.clocks = None
        self.stop = False
        self.stop_on_violation = False   # online monitors record the first violation; history oracles need the full run
        self.timed_out = False
        self.quiet_since = None
        self.stats = {}
        self.fault_counts = {}
        self.probes = {}
        self._Simulator = Simulator
        self._overrides = overrides or {}
        self._schedule = schedule
        self._aliases = aliases
        self._with_falling = with_falling
        self._fingerprint = fingerprint
        self.fingerprints = set()
        self.sim = None

    # -- registration ----------------------------------------------------------------------------
    def add(self, agent, cd=None):
        cd = cd or self.domains[0]
        agent.bind(self, cd)
        self.agents[cd].append(agent)
        return agent

    def fault(self, kind, n=1):
        self.fault_counts[kind] = self.fault_counts.get(kind, 0) + n

    def probe(self, name, n=1):
        self.probes[name] = self.probes.get(name, 0) + n

    def violate(self, cls, observable, msg):
        if self.violation is None:
            self.violation = Violation(cls, observable, msg, cycle=self.cycle[self.domains[0]])
        if self.stop_on_violation:
            self.stop = True

    def event(self, *ev):
        self.log.append(ev)
        self.last_event = self.clocks.ticks if self.clocks is not None else 0

    # -- coordinator -----------------------------------------------------------------------------
    def _coord(self, cd, main):
        agents = self.agents[cd]
        sigs = []
        seen = set()
        for a in agents:
            for s in a.reads:
                if id(s) not in seen:
                    seen.add(id(s))
                    sigs.append(s)
        writes = []

        def w(sig, val):
            writes.append(sig.eq(val))
        regs = self._regs if (main and self._fingerprint) else None
        sv = self.sim.evaluator.signal_values
        while not self.stop:
            vals = yield sigs
            v = dict(zip(sigs, vals))
            t = self.cycle[cd]
            for a in agents:
                a.step(v, t, w)
            self.cycle[cd] = t + 1
            if regs:
                self.fingerprints.add(hash(tuple(sv.get(r, 0) for r in regs)))
            if main:
                if all(a.done() for ags in self.agents.values() for a in ags):
                    if self.quiet_since is None:
                        self.quiet_since = t
                    elif t - self.quiet_since >= self.tail:
                        self.stop = True
                else:
                    self.quiet_since = None
                if t + 1 >= self.max_cycles and not self.stop:
                    self.timed_out = True
                    self.stop = True
            if writes:
                yield writes
                del writes[:]
            yield

    def run(self):
        gens = {}
        self.sim = self._Simulator(self.top, {d: [] for d in self.domains},
                                   clocks={d: 10 for d in self.domains},
                                   special_overrides=self._overrides)
        self.clocks = SeededClocks(self.domains, self._schedule, self._aliases, self._with_falling)
        self.sim.time = self.clocks
        self._regs = []
        if self._fingerprint:
            from migen.fhdl.tools import list_targets
            regs = set()
            for cd, stmts in self.sim.fragment.sync.items():
                regs |= {s for s in list_targets(stmts) if len(s) <= 8}
            self._regs = sorted(regs, key=lambda s: s.duid)[:64]
        for i, d in enumerate(self.domains):
            self.sim.generators[d] = [self._coord(d, i == 0)]
        try:
            self.sim.run()
        finally:
            self.sim.close()
        self.stats["cycles"] = dict(self.cycle)
        self.stats["ticks"] = self.clocks.ticks
        self.stats["coincident_ticks"] = self.clocks.coincident
        return self

    def digest(self):
        h = hashlib.sha256()
        for ev in self.log:
            h.update(repr(ev).encode())
        return h.hexdigest()[:16]


def wrap_top(dut, domains=("sys",), extra=()):
    """Top module declaring the clock domains (reset present) around the DUT."""
    from migen import Module, ClockDomain

    class Top(Module):
        def __init__(self):
            self.submodules.dut = dut
            for m in extra:
                self.submodules += m
            for d in domains:
                setattr(self.clock_domains, "cd_" + d, ClockDomain(d))
    return Top()
