"""CLI: python -m dsim.check <ID> quick|thorough [--replay F] [--seed N] [--workers N] [--scale X]"""
import argparse
import os
import sys

from dsim import boot


def main():
    boot.ensure_hashseed()
    ap = argparse.ArgumentParser()
    ap.add_argument("prop")
    ap.add_argument("tier", nargs="?", default=os.environ.get("VERIF_TIER", "quick"))
    ap.add_argument("--replay")
    ap.add_argument("--seed", type=int, default=int(os.environ.get("VERIF_SEED", "0") or 0))
    ap.add_argument("--workers", type=int, default=int(os.environ.get("VERIF_WORKERS", "0") or 0) or None)
    ap.add_argument("--scale", type=float, default=float(os.environ.get("VERIF_SCALE", "1") or 1))
    a = ap.parse_args()
    boot.boot()
    from dsim import runner
    print("VERIF_SEED=%d property=%s tier=%s repo=%s" % (a.seed, a.prop, a.tier, boot.REPO))
    sys.stdout.flush()
    if a.replay:
        sys.exit(runner.do_replay(a.prop, a.replay))
    sys.exit(runner.check(a.prop, a.tier, seed=a.seed, workers=a.workers, scale=a.scale))


if __name__ == "__main__":
    main()
