"""Monitor on the SIMULATOR side for the places where Migen's unbounded integers and Verilog's sized arithmetic
legitimately part (listed finding C01-F11 'intermediate overflow' and friends).

A static walk over the statements the Simulator executes marks every expression node that sits in an OBSERVED
position - one whose value is used non-modularly: operand of a comparison, left operand of >>, any shift amount,
Mux condition, If condition, Case test, Cat / Replicate element, Array key, memory index, and an unsigned operand
that the printer wraps in $signed({1'd0, ..}) because its sibling is signed. Everything else (assignment right-hand
sides and, through them, operands of + - * & | ^ ~, the left operand of <<, Mux branches) is MODULAR: only the low
bits matter and both semantics agree on them.

At run time every evaluation of an observed node is checked: does the Python value fit the width and signedness the
node has as a Verilog self-determined expression (max of the operand widths after promotion, not Migen's grown
width)? If not, the two semantics are about to disagree for a reason that is not a translation defect and the run is
marked tainted from that point on. The monitor is deliberately conservative (it uses the self-determined width even
where a wider context would have rescued the value): a tainted run is never reported, an untainted mismatch always is.
"""
from migen.fhdl.structure import (_Operator, _Slice, _Assign, _ArrayProxy, Cat, Replicate, Constant, Signal, If, Case,
                                  ClockSignal, ResetSignal)
from migen.fhdl.bitcontainer import value_bits_sign

try:
    from migen.fhdl.structure import _Part
except ImportError:       # pragma: no cover
    _Part = ()
try:
    from migen.fhdl.simplify import _MemoryLocation
except ImportError:       # pragma: no cover
    _MemoryLocation = ()


def _bw(a, b):
    if not a[1] and not b[1]:
        return max(a[0], b[0]), False
    if a[1] and b[1]:
        return max(a[0], b[0]), True
    if not a[1] and b[1]:
        return max(a[0] + 1, b[0]), True
    return max(a[0], b[0] + 1), True


def vw(e):
    """width of e as a Verilog self-determined expression, as an ideal printer emits it (promotions included)."""
    if isinstance(e, _Operator):
        ts = [value_bits_sign(o) for o in e.operands]
        if len(e.operands) == 1:
            w = vw(e.operands[0])
            return w + 1 if (e.op == "-" and not ts[0][1]) else w
        if e.op == "m":
            a, b = e.operands[1], e.operands[2]
            mixed = ts[1][1] != ts[2][1]
            return max(vw(a) + (1 if mixed and not ts[1][1] else 0), vw(b) + (1 if mixed and not ts[2][1] else 0))
        if e.op in ("<", "<=", "==", "!=", ">", ">="):
            return 1
        if e.op in ("<<<", ">>>"):
            return vw(e.operands[0])
        mixed = ts[0][1] != ts[1][1]
        return max(vw(e.operands[0]) + (1 if mixed and not ts[0][1] else 0), vw(e.operands[1]) + (1 if mixed and not ts[1][1] else 0))
    return value_bits_sign(e)[0]


def fits(v, n, s):
    if s:
        return -(1 << (n - 1)) <= v < (1 << (n - 1))
    return 0 <= v < (1 << n)


class Monitor:
    def __init__(self):
        self.watch = {}       # id(node) -> (check function, description)
        self.keep = []        # keep nodes alive (ids stay valid)
        self.hit = None       # first taint: description
        self.hits = 0
        self.mem_sig_ids = set()

    # ---- static walk
    def add_fragment(self, fragment, mem_arrays=()):
        self.mem_sig_ids = {id(s) for a in mem_arrays for s in a}
        for st in fragment.comb:
            self.stmt(st)
        for stl in fragment.sync.values():
            self.stmt(stl)

    def stmt(self, st):
        if isinstance(st, _Assign):
            self.expr(st.r, False, None)
            self.target(st.l)
        elif isinstance(st, If):
            self.cond(st.cond)
            self.stmt(st.t)
            self.stmt(st.f)
        elif isinstance(st, Case):
            self.expr(st.test, True, "exact")
            for k, v in st.cases.items():
                if isinstance(k, Constant) and k.value < 0 and not value_bits_sign(st.test)[1]:
                    self._add(st.test, lambda v: False, "negative Case key with an unsigned test")
                self.stmt(v)
        elif isinstance(st, (list, tuple)):
            for x in st:
                self.stmt(x)

    def target(self, t):
        if isinstance(t, _ArrayProxy):
            self.expr(t.key, True, "exact")
            self._watch_key(t)
            for c in t.choices:
                self.target(c)
        elif isinstance(t, _Slice):
            self.target(t.value)
        elif isinstance(t, Cat):
            for x in t.l:
                self.target(x)

    def _watch_key(self, proxy):
        # memory word select: an index beyond the depth is an X / ignored access in Verilog and a clamped one here
        n = len(proxy.choices)
        key = proxy.key
        if isinstance(key, Constant):
            return
        kb, ks = value_bits_sign(key)
        is_mem = bool(proxy.choices) and id(proxy.choices[0]) in self.mem_sig_ids
        if is_mem and (ks or (1 << kb) > n):
            self._add(key, lambda v, n=n: 0 <= v < n, "memory index beyond the depth (%d words)" % n)
        elif ks:
            self._add(key, lambda v: v >= 0, "negative Array key")

    def _add(self, node, check, what):
        self.keep.append(node)
        prev = self.watch.get(id(node))
        if prev is None:
            self.watch[id(node)] = (check, what)
        else:
            pc = prev[0]
            self.watch[id(node)] = (lambda v, a=pc, b=check: a(v) and b(v), prev[1])

    def expr(self, e, observed, how):
        """observed: the value of e is used non-modularly. how: 'exact' (value must be representable in the Verilog
        self-determined type of e) or 'mask' (only the low len(e) bits are used, e.g. If condition, Cat element)."""
        if isinstance(e, (Constant, Signal, ClockSignal, ResetSignal)):
            return
        if isinstance(e, _Operator):
            op = e.op
            ts = [value_bits_sign(o) for o in e.operands]
            if len(e.operands) == 1:
                o = e.operands[0]
                if op == "~":
                    if observed and how == "exact" and not ts[0][1]:
                        self._add(e, lambda v: False, "~ of an unsigned value in a self-determined position (negative in the simulator)")
                    self.expr(o, observed, how)
                elif op == "-":
                    if ts[0][1]:
                        if observed:
                            n = ts[0][0]
                            self._add(e, lambda v, n=n: fits(v, n, True), "negation of the most negative signed value")
                        self.expr(o, observed, how)
                    else:
                        self.expr(o, True, "exact")      # printed as -$signed({1'd0, o})
                else:
                    self.expr(o, observed, how)
                return
            if op == "m":
                c, a, b = e.operands
                self.cond(c)
                mixed = ts[1][1] != ts[2][1]
                self.expr(a, observed or (mixed and not ts[1][1]), "exact" if (mixed and not ts[1][1]) else how)
                self.expr(b, observed or (mixed and not ts[2][1]), "exact" if (mixed and not ts[2][1]) else how)
                return
            a, b = e.operands
            if op in ("<", "<=", "==", "!=", ">", ">="):
                self.expr(a, True, "exact")
                self.expr(b, True, "exact")
                return
            if op in ("<<<", ">>>"):
                self.expr(b, True, "exact")
                if ts[1][1]:
                    self._add(b, lambda v: v >= 0, "negative shift amount")
                if op == ">>>":
                    self.expr(a, True, "exact")
                else:
                    if observed:
                        n, s = vw(e), ts[0][1]
                        self._add(e, lambda v, n=n, s=s: fits(v, n, s), "<< overflow in a self-determined position")
                    self.expr(a, observed, how)
                return
            # + - * & | ^
            mixed = ts[0][1] != ts[1][1]
            n, s = vw(e), (ts[0][1] or ts[1][1])
            if observed and op in ("+", "-", "*"):
                self._add(e, lambda v, n=n, s=s: fits(v, n, s), "%s overflow in a self-determined position" % op)
            for o, t in zip((a, b), ts):
                promoted = mixed and not t[1]
                self.expr(o, observed or promoted, "exact" if promoted else how)
            return
        if isinstance(e, _Slice):
            # a slice of a Signal selects bits; a slice of an expression is lowered through a proxy of Migen's width (modular)
            self.expr(e.value, False, None)
            return
        if _Part and isinstance(e, _Part):
            self.expr(e.value, False, None)
            self.expr(e.offset, True, "exact")
            return
        if isinstance(e, Cat):
            for x in e.l:
                self.field(x)
            return
        if isinstance(e, Replicate):
            self.field(e.v)
            return
        if isinstance(e, _ArrayProxy):
            self.expr(e.key, True, "exact")
            self._watch_key(e)
            # the lowered form goes through an intermediate signal of type (max width, any signed): the selected value has to fit it
            # (an unsigned choice as wide as the widest in a mixed Array, a choice that went negative / overflowed)
            ts = [value_bits_sign(c) for c in e.choices]
            n, sg = max(t[0] for t in ts), any(t[1] for t in ts)
            self._add(e, lambda v, n=n, sg=sg: fits(v, n, sg), "Array element does not fit the type of the lowered intermediate signal")
            for c in e.choices:
                self.expr(c, False, None)
            return
        if _MemoryLocation and isinstance(e, _MemoryLocation):
            self.expr(e.index, True, "exact")
            return

    def _has_signed_bit(self, v):
        if isinstance(v, Signal):
            return v.signed and len(v) == 1
        if isinstance(v, Cat):
            return any(self._has_signed_bit(x) for x in v.l)
        if isinstance(v, Replicate):
            return self._has_signed_bit(v.v)
        if isinstance(v, _Slice):
            return self._has_signed_bit(v.value)
        return False

    def field(self, x):
        """element of a Cat / Replicate: it occupies len(x) bits in the simulator and its Verilog self-determined width in the text.
        With equal widths both take the low bits of the same modular value."""
        if vw(x) != value_bits_sign(x)[0]:
            self._add(x, lambda v: False, "Cat/Replicate element whose Verilog width differs from Migen's")
        self.expr(x, False, None)

    def cond(self, c):
        """If / Mux condition: the simulator tests (v & mask(len(c))) != 0, Verilog tests the value computed at the
        self-determined width of the printed expression, which is v modulo 2^vw(c) (every operator in a context-determined
        position is modular; the self-determined positions inside are watched on their own)."""
        m, n = value_bits_sign(c)[0], vw(c)
        if m != n:
            self._add(c, lambda v, m=m, n=n: ((v & ((1 << m) - 1)) != 0) == ((v & ((1 << n) - 1)) != 0),
                      "condition whose truth differs between Migen's width and the Verilog self-determined width")
        self.expr(c, False, None)

    # ---- run time
    def attach(self, evaluator):
        orig = evaluator.eval
        watch = self.watch
        mon = self

        def eval_(node, postcommit=False):
            v = orig(node, postcommit)
            w = watch.get(id(node))
            if w is not None and not w[0](v):
                mon.hits += 1
                if mon.hit is None:
                    mon.hit = w[1]
            return v
        evaluator.eval = eval_
