"""Process bootstrap for every dsim entry point.

* re-exec under PYTHONHASHSEED=0 (hash order is one of the nondeterminism sources we own),
* put the tree under test (VERIF_REPO, default /repo) first on sys.path,
* install the Python >= 3.11 replacement for migen.fhdl.tracer.get_var_name (harness-side shim,
  nothing in /repo changes),
* reset_globals(): process-global mutable state that would make run n depend on runs 1..n-1.
"""
import os
import sys

REPO = os.environ.get("VERIF_REPO", "/repo")
VERIF = os.path.dirname(os.path.dirname(os.path.abspath(__file__)))


def ensure_hashseed():
    if os.environ.get("PYTHONHASHSEED") != "0":
        env = dict(os.environ)
        env["PYTHONHASHSEED"] = "0"
        os.execve(sys.executable, [sys.executable] + sys.argv, env)


_booted = False


def boot():
    global _booted
    if _booted:
        return
    _booted = True
    if REPO not in sys.path:
        sys.path.insert(0, REPO)
    _install_tracer_shim()
    import litex
    got = os.path.realpath(os.path.dirname(os.path.dirname(litex.__file__)))
    if got != os.path.realpath(REPO):
        raise RuntimeError("litex imported from %s, expected %s" % (got, REPO))
    from litex.gen.sim.core import Simulator
    assert Simulator.__module__ == "litex.gen.sim.core"


# ------------------------------------------------------------------------------------------------
# tracer shim
# ------------------------------------------------------------------------------------------------

_code_cache = {}


def _instr_table(code):
    t = _code_cache.get(code)
    if t is None:
        import dis
        ins = [i for i in dis.get_instructions(code) if i.opname != "CACHE"]
        t = ({i.offset: n for n, i in enumerate(ins)}, ins)
        _code_cache[code] = t
    return t


_SKIP = ("LOAD_GLOBAL", "LOAD_ATTR", "LOAD_FAST", "LOAD_DEREF", "LOAD_NAME", "COPY", "DUP_TOP",
         "BUILD_LIST", "LOAD_FAST_CHECK", "LOAD_METHOD", "LOAD_CONST", "PUSH_NULL")
_STORE = ("STORE_NAME", "STORE_ATTR", "STORE_FAST", "STORE_DEREF", "STORE_GLOBAL")


def get_var_name_shim(frame):
    code = frame.f_code
    idx_of, ins = _instr_table(code)
    n = idx_of.get(frame.f_lasti)
    if n is None:
        return None
    if not ins[n].opname.startswith("CALL"):
        return None
    n += 1
    while n < len(ins):
        op = ins[n].opname
        if op in _STORE:
            return ins[n].argval
        elif op in _SKIP:
            n += 1
        else:
            return None
    return None


def _install_tracer_shim():
    import migen.fhdl.tracer as tracer
    if sys.version_info >= (3, 11):
        tracer.get_var_name = get_var_name_shim


# ------------------------------------------------------------------------------------------------
# globals
# ------------------------------------------------------------------------------------------------

def reset_globals():
    import migen.fhdl.tracer as tracer
    from migen.fhdl.structure import DUID
    tracer.name_to_idx.clear()
    tracer.classname_to_objs.clear()
    DUID._DUID__next_uid = 0
    try:
        from litex.gen.context import LiteXContext
        LiteXContext.top = None
        LiteXContext.platform = None
    except Exception:
        pass
    if sys.stderr is None:
        sys.stderr = sys.__stderr__
