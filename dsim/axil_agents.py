"""AXI4-Lite parties: a master with five independent channel drivers and a slave with independent
acceptors. Both obey the AMBA rules: valid (and payload) never withdrawn before the handshake, valid
never waits for ready of the same channel, responses in request order. Every handshake is logged with
its cycle number."""
from dsim.kernel import Agent

RESP_OKAY, RESP_SLVERR = 0, 2


class AXILMaster(Agent):
    """ops: list of {"kind": "w"|"r", "addr", "data", "strb", "aw_gap", "w_gap", "ar_gap"}.
    w_lead: how many W beats may be presented ahead of the AW of the same write (0 = W only after its AW
    has been *accepted*, -1 = no constraint beyond max_out); max_out: outstanding requests per direction.
    bready/rready: literal patterns (one symbol per cycle; afterwards always ready)."""

    def __init__(self, bus, ops, name="m0", max_out=1, w_lead=0, bready="", rready="", idle_garbage=None,
                 single_target=None, hazard=False, word_shift=2, hazard_key=None):
        self.bus, self.name = bus, name
        self.writes = [o for o in ops if o["kind"] == "w"]
        self.reads_ = [o for o in ops if o["kind"] == "r"]
        self.max_out, self.w_lead = max_out, w_lead
        self.bready, self.rready = bready, rready
        b = bus
        self.reads = (b.aw.valid, b.aw.ready, b.w.valid, b.w.ready, b.b.valid, b.b.ready, b.b.resp,
                      b.ar.valid, b.ar.ready, b.r.valid, b.r.ready, b.r.data, b.r.resp)
        self.aw_i = self.w_i = self.ar_i = 0      # next to present
        self.aw_acc = self.w_acc = self.ar_acc = 0  # accepted so far
        self.b_n = self.r_n = 0
        self.aw_wait = self.writes[0].get("aw_gap", 0) if self.writes else 0
        self.w_wait = self.writes[0].get("w_gap", 0) if self.writes else 0
        self.ar_wait = self.reads_[0].get("ar_gap", 0) if self.reads_ else 0
        self.aw_on = self.w_on = self.ar_on = False
        self.log = {"aw": [], "w": [], "b": [], "ar": [], "r": []}
        self.garbage = idle_garbage
        self.gpos = 0
        self.single_target = single_target   # callable addr -> slave index: never have requests outstanding to two slaves
        self.stall = {"aw": 0, "w": 0, "ar": 0}
        self.hold_new = False
        self.pres = {"aw": [], "w": [], "ar": []}     # presentation cycle of each request
        self.proto = []
        self.early_b = []     # write responses that arrived before both handshakes of their write (kept apart from proto: the
        #                       timeout modules of C11 answer requests they terminate themselves)
        self._held = {"b": None, "r": None}
        # program-order hazards (memory semantics): a request waits for earlier conflicting ones (same word, one a write)
        self.w_after_r = self.r_after_w = None
        if hazard:
            wi = ri = 0
            seq = []
            hk = hazard_key or (lambda a: a >> word_shift)
            for o in ops:
                if o["kind"] == "w":
                    seq.append(("w", wi, hk(o["addr"])))
                    wi += 1
                else:
                    seq.append(("r", ri, hk(o["addr"])))
                    ri += 1
            self.w_after_r = {i: [] for i in range(wi)}
            self.r_after_w = {i: [] for i in range(ri)}
            for n, (k, i, a) in enumerate(seq):
                for (k2, i2, a2) in seq[:n]:
                    if a2 == a and k != k2:
                        (self.w_after_r if k == "w" else self.r_after_w)[i].append(i2)

    def done(self):
        return self.b_n >= len(self.writes) and self.r_n >= len(self.reads_)

    def _g(self, width):
        if not self.garbage:
            return None
        v = self.garbage[self.gpos % len(self.garbage)] & ((1 << width) - 1)
        self.gpos += 1
        return v

    def _target_ok(self, addr, outstanding_ops):
        if self.single_target is None:
            return True
        t = self.single_target(addr)
        return all(self.single_target(o["addr"]) == t for o in outstanding_ops)

    def step(self, v, t, w):
        b = self.bus
        # ---- handshakes that completed in the cycle ending now
        if self.aw_on and v[b.aw.ready]:
            self.log["aw"].append((t, self.aw_i))
            self.bench.event(self.name, "aw", t, self.writes[self.aw_i]["addr"])
            self.aw_on = False
            self.aw_i += 1
            self.aw_acc += 1
            self.aw_wait = self.writes[self.aw_i].get("aw_gap", 0) if self.aw_i < len(self.writes) else 0
        elif self.aw_on:
            self.stall["aw"] += 1
        if self.w_on and v[b.w.ready]:
            self.log["w"].append((t, self.w_i))
            self.bench.event(self.name, "w", t, self.writes[self.w_i]["data"])
            self.w_on = False
            self.w_i += 1
            self.w_acc += 1
            self.w_wait = self.writes[self.w_i].get("w_gap", 0) if self.w_i < len(self.writes) else 0
        elif self.w_on:
            self.stall["w"] += 1
        if self.ar_on and v[b.ar.ready]:
            self.log["ar"].append((t, self.ar_i))
            self.bench.event(self.name, "ar", t, self.reads_[self.ar_i]["addr"])
            self.ar_on = False
            self.ar_i += 1
            self.ar_acc += 1
            self.ar_wait = self.reads_[self.ar_i].get("ar_gap", 0) if self.ar_i < len(self.reads_) else 0
        elif self.ar_on:
            self.stall["ar"] += 1
        for ch, payload in (("b", (b.b.resp,)), ("r", (b.r.data, b.r.resp))):
            chan = getattr(b, ch)
            cur = tuple(v[x] for x in payload) if v[chan.valid] else None
            held = self._held[ch]
            if held is not None:
                if cur is None:
                    self.proto.append((t, ch, "valid withdrawn before ready"))
                elif cur != held:
                    self.proto.append((t, ch, "payload changed before ready: %r -> %r" % (held, cur)))
            self._held[ch] = cur if (cur is not None and not v[chan.ready]) else None
        if v[b.b.valid] and v[b.b.ready]:
            if self.b_n >= self.aw_acc or self.b_n >= self.w_acc:
                # (AXI: a write response follows the handshakes of its address AND its data; the handshakes of this very cycle count)
                self.early_b.append((t, "b", "write response #%d before its %s was accepted" % (self.b_n, "address" if self.b_n >= self.aw_acc else "data")))
            self.log["b"].append((t, v[b.b.resp]))
            self.bench.event(self.name, "b", t, v[b.b.resp])
            self.b_n += 1
        if v[b.r.valid] and v[b.r.ready]:
            self.log["r"].append((t, v[b.r.data], v[b.r.resp]))
            self.bench.event(self.name, "r", t, v[b.r.data], v[b.r.resp])
            self.r_n += 1
        # ---- new offers
        if not self.aw_on:
            if self.aw_i < len(self.writes) and not self.hold_new:
                out = self.writes[self.b_n:self.aw_i]       # accepted AW without B yet (w may still be pending)
                if self.aw_wait > 0:
                    self.aw_wait -= 1
                elif (self.aw_i - self.b_n) < self.max_out and self._target_ok(self.writes[self.aw_i]["addr"], out) \
                        and (self.w_after_r is None or all(j < self.r_n for j in self.w_after_r[self.aw_i])):
                    op = self.writes[self.aw_i]
                    self.pres["aw"].append(t + 1)
                    w(b.aw.valid, 1)
                    w(b.aw.addr, op["addr"])
                    if "prot" in op:
                        w(b.aw.prot, op["prot"])
                    self.aw_on = True
            if not self.aw_on and v[b.aw.valid]:
                w(b.aw.valid, 0)
            if not self.aw_on and self.garbage:
                w(b.aw.addr, self._g(len(b.aw.addr)))
        if not self.w_on:
            if self.w_i < len(self.writes) and not self.hold_new:
                if self.w_wait > 0:
                    self.w_wait -= 1
                else:
                    # W may be raised as soon as its AW is being presented (a master must not wait for AWREADY);
                    # with w_lead > 0 it may even precede the AW by that many writes
                    presented = self.aw_acc + (1 if self.aw_on else 0)
                    lead_ok = (self.w_i < presented) or (self.w_lead > 0 and self.w_i < presented + self.w_lead)
                    if lead_ok and (self.w_i - self.b_n) < self.max_out:
                        op = self.writes[self.w_i]
                        w(b.w.valid, 1)
                        w(b.w.data, op["data"])
                        w(b.w.strb, op.get("strb", 15))
                        self.w_on = True
            if not self.w_on and v[b.w.valid]:
                w(b.w.valid, 0)
            if not self.w_on and self.garbage:
                w(b.w.data, self._g(len(b.w.data)))
        if not self.ar_on:
            if self.ar_i < len(self.reads_) and not self.hold_new:
                out = self.reads_[self.r_n:self.ar_i]
                if self.ar_wait > 0:
                    self.ar_wait -= 1
                elif (self.ar_i - self.r_n) < self.max_out and self._target_ok(self.reads_[self.ar_i]["addr"], out) \
                        and (self.r_after_w is None or all(j < self.b_n for j in self.r_after_w[self.ar_i])):
                    self.pres["ar"].append(t + 1)
                    w(b.ar.valid, 1)
                    w(b.ar.addr, self.reads_[self.ar_i]["addr"])
                    if "prot" in self.reads_[self.ar_i]:
                        w(b.ar.prot, self.reads_[self.ar_i]["prot"])
                    self.ar_on = True
            if not self.ar_on and v[b.ar.valid]:
                w(b.ar.valid, 0)
            if not self.ar_on and self.garbage:
                w(b.ar.addr, self._g(len(b.ar.addr)))
        # ---- response readiness
        br = 1 if t >= len(self.bready) else int(self.bready[t] == "1")
        rr = 1 if t >= len(self.rready) else int(self.rready[t] == "1")
        if br != v[b.b.ready]:
            w(b.b.ready, br)
        if rr != v[b.r.ready]:
            w(b.r.ready, rr)


class AXILSlave(Agent):
    """Independent AW/W/AR acceptors (literal ready patterns, afterwards always ready, bounded queues),
    in-order responses after literal latencies. read_data(addr) gives the R data; writes are logged.
    silent_from: cycle from which the slave stops answering/accepting (fault)."""

    def __init__(self, bus, name="s0", awready="", wready="", arready="", lat=None, depth=4, read_data=None,
                 err_range=None, silent_from=None, memory=False, idle_garbage=None, ar_with_r=False):
        self.bus, self.name = bus, name
        # ar_with_r: ARREADY is also high in every cycle in which this slave presents read data (a registered slave that can take the
        # next address in the cycle its data leaves); only meaningful with a master that takes read data at once
        self.ar_with_r = ar_with_r
        self.pat = {"aw": awready, "w": wready, "ar": arready}
        self.lat = lat or [1]
        self.depth = depth
        self.read_data = read_data or (lambda a: 0)
        self.err_range = err_range
        self.silent_from = silent_from
        b = bus
        self.reads = (b.aw.valid, b.aw.ready, b.aw.addr, b.w.valid, b.w.ready, b.w.data, b.w.strb,
                      b.b.valid, b.b.ready, b.ar.valid, b.ar.ready, b.ar.addr, b.r.valid, b.r.ready, b.aw.prot, b.ar.prot)
        self.prot_log = {"aw": [], "ar": []}     # AxPROT of every accepted address beat, in order
        self.awq, self.wq = [], []
        self.wr_pending = []      # [ready_at, addr, data, strb]
        self.rd_pending = []      # [ready_at, addr]
        self.n_wr = self.n_rd = 0
        self.b_on = self.r_on = False
        self.log = {"aw": [], "w": [], "b": [], "ar": [], "r": [], "writes": []}
        self.memory = {} if memory else None
        self.garbage = idle_garbage
        self.gpos = 0
        self.cur_b = self.cur_r = None
        self.is_silent = False
        self.silent_mid_request = False
        self.wshift = (len(bus.w.strb) - 1).bit_length()
        self.proto = []      # protocol violations seen on the channels the DUT drives towards this slave
        self._held = {"aw": None, "w": None, "ar": None}

    def _err(self, addr):
        return self.err_range is not None and self.err_range[0] <= addr < self.err_range[1]

    def _rdata(self, addr):
        sh = self.wshift
        if self.memory is not None and (addr >> sh) in self.memory:
            return self.memory[addr >> sh]
        return self.read_data((addr >> sh) << sh)

    def step(self, v, t, w):
        b = self.bus
        # ---- protocol: a raised valid is never withdrawn or changed before its ready
        for ch, payload in (("aw", (b.aw.addr, b.aw.prot)), ("w", (b.w.data, b.w.strb)), ("ar", (b.ar.addr, b.ar.prot))):
            chan = getattr(b, ch)
            cur = tuple(v[x] for x in payload) if v[chan.valid] else None
            held = self._held[ch]
            if held is not None:
                if cur is None:
                    self.proto.append((t, ch, "valid withdrawn before ready"))
                elif cur != held:
                    self.proto.append((t, ch, "payload changed before ready: %r -> %r" % (held, cur)))
            self._held[ch] = cur if (cur is not None and not v[chan.ready]) else None
        # ---- completed handshakes
        if v[b.aw.valid] and v[b.aw.ready]:
            self.awq.append(v[b.aw.addr])
            self.prot_log["aw"].append(v[b.aw.prot])
            self.log["aw"].append((t, v[b.aw.addr]))
            self.bench.event(self.name, "aw", t, v[b.aw.addr])
        if v[b.w.valid] and v[b.w.ready]:
            self.wq.append((v[b.w.data], v[b.w.strb]))
            self.log["w"].append((t, v[b.w.data], v[b.w.strb]))
            self.bench.event(self.name, "w", t, v[b.w.data], v[b.w.strb])
        if v[b.ar.valid] and v[b.ar.ready]:
            self.rd_pending.append([t + self.lat[self.n_rd % len(self.lat)], v[b.ar.addr]])
            self.prot_log["ar"].append(v[b.ar.prot])
            self.n_rd += 1
            self.log["ar"].append((t, v[b.ar.addr]))
            self.bench.event(self.name, "ar", t, v[b.ar.addr])
        if self.b_on and v[b.b.ready]:
            self.log["b"].append((t, self.cur_b))
            self.bench.event(self.name, "b", t)
            self.b_on = False
            self.wr_pending.pop(0)
        if self.r_on and v[b.r.ready]:
            self.log["r"].append((t, self.cur_r))
            self.bench.event(self.name, "r", t)
            self.r_on = False
            self.rd_pending.pop(0)
        # pair AW with W in order
        while self.awq and self.wq:
            a = self.awq.pop(0)
            d, s = self.wq.pop(0)
            self.wr_pending.append([t + self.lat[self.n_wr % len(self.lat)], a, d, s])
            self.n_wr += 1
            self.log["writes"].append((t, a, d, s))
            if self.memory is not None and not self._err(a):
                old = self._rdata(a)
                for i in range(len(b.w.strb)):
                    if (s >> i) & 1:
                        old = (old & ~(0xff << (8 * i))) | (d & (0xff << (8 * i)))
                self.memory[a >> self.wshift] = old
        if self.silent_from is not None and t >= self.silent_from and not self.is_silent:
            # die only with nothing accepted-but-unanswered (that case is a listed known finding, replayed separately)
            # (a write whose address OR data alone was accepted is not complete: dying there is allowed)
            if self.silent_mid_request or not (self.wr_pending or self.rd_pending):
                self.is_silent = True
                self.bench.fault("silent_slave")
                self.bench.event(self.name, "silent", t)
        silent = self.is_silent
        # ---- responses
        if not silent:
            if not self.b_on and self.wr_pending and self.wr_pending[0][0] <= t:
                a = self.wr_pending[0][1]
                w(b.b.valid, 1)
                w(b.b.resp, RESP_SLVERR if self._err(a) else RESP_OKAY)
                self.cur_b = a
                self.b_on = True
            if not self.r_on and self.rd_pending and self.rd_pending[0][0] <= t:
                a = self.rd_pending[0][1]
                w(b.r.valid, 1)
                w(b.r.data, self._rdata(a))
                w(b.r.resp, RESP_SLVERR if self._err(a) else RESP_OKAY)
                self.cur_r = a
                self.r_on = True
        if not self.b_on and v[b.b.valid]:
            w(b.b.valid, 0)
        if not self.r_on and v[b.r.valid]:
            w(b.r.valid, 0)
            if self.garbage:
                w(b.r.data, self.garbage[self.gpos % len(self.garbage)] & ((1 << len(b.r.data)) - 1))
                self.gpos += 1
        # ---- acceptor readiness for the next cycle (may be high without valid, may drop while valid is low)
        for ch, q_len in (("aw", len(self.awq) + len(self.wr_pending)), ("w", len(self.wq) + len(self.wr_pending)),
                          ("ar", len(self.rd_pending))):
            chan = getattr(b, ch)
            pat = self.pat[ch]
            want = 1 if t >= len(pat) else int(pat[t] == "1")
            if silent or q_len >= self.depth:
                want = 0
            if ch == "ar" and self.ar_with_r and self.r_on and not silent and len(self.rd_pending) <= 1:
                want = 1
            # ready must not be withdrawn... (it may: AXI allows ready to drop while valid is low; while valid is
            # high and ready high the handshake happens in that very cycle, so any value is legal next)
            if want != v[chan.ready]:
                w(chan.ready, want)
