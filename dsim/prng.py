"""Key-derived PRNG streams: every random choice of a run comes from VERIF_SEED and a key."""
import hashlib
import random


def stream(seed, *key):
    h = hashlib.sha256(("%d/" % seed + "/".join(str(k) for k in key)).encode()).digest()
    return random.Random(int.from_bytes(h[:16], "big"))


def bits(rng, n, p_one):
    """Literal pattern string of n symbols, '1' with probability p_one."""
    return "".join("1" if rng.random() < p_one else "0" for _ in range(n))


def bursty(rng, n, p_one, mean_run=4):
    """Pattern with runs (bursts) of equal symbols; overall density about p_one."""
    out = []
    cur = rng.random() < p_one
    while len(out) < n:
        mean = mean_run * (2 * p_one if cur else 2 * (1 - p_one))
        k = 1 + int(rng.expovariate(1.0 / max(mean, 0.3)))
        out.extend(("1" if cur else "0") * k)
        cur = not cur
    return "".join(out[:n])


def pattern(rng, n, p_one):
    if p_one >= 1.0:
        return "1" * n
    if p_one <= 0.0:
        return "0" * n
    return bursty(rng, n, p_one) if rng.random() < 0.4 else bits(rng, n, p_one)
