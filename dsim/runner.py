"""Runner: seeded families in a fork pool, per-run watchdog, classification, minimisation,
fresh-process replay, known-finding matching, evidence."""
import concurrent.futures as cf
import faulthandler
import hashlib
import importlib
import json
import multiprocessing
import os
import signal
import subprocess
import sys
import time
import traceback

from dsim import boot, prng, shrink as shrinker

VERIF = boot.VERIF
PROP_MODULES = {
    "C01": "props.c01", "C02": "props.c02", "C03": "props.c03", "C04": "props.c04",
    "C05": "props.c05", "C06": "props.c06", "C07": "props.c07", "C08": "props.c08",
    "C09": "props.c09", "C10": "props.c10", "C11": "props.c11", "C12": "props.c12",
    "C13": "props.c13", "C14": "props.c14", "C15": "props.c15", "C16": "props.c16",
    "C17": "props.c17", "C18": "props.c18", "C19": "props.c19",
}


class RunTimeout(Exception):
    pass


def _alarm(signum, frame):
    raise RunTimeout()


def load(prop):
    return importlib.import_module(PROP_MODULES[prop])


def classify_exception(exc):
    """'repo' if the innermost frame that is neither stdlib nor migen lies in the tree under test,
    'harness' otherwise."""
    tb = traceback.extract_tb(exc.__traceback__)
    repo = os.path.realpath(boot.REPO) + os.sep
    verif = os.path.realpath(VERIF) + os.sep
    for fr in reversed(tb):
        fn = os.path.realpath(fr.filename)
        if fn.startswith(repo):
            return "repo"
        if fn.startswith(verif):
            return "harness"
    return "harness"


def run_one(mod, scn, timeout=None):
    """Run one scenario with watchdog; always returns a result dict."""
    timeout = timeout or getattr(mod, "RUN_TIMEOUT", 120)
    boot.reset_globals()
    # the watchdog counts CPU time of this process (ITIMER_PROF), not wall time: a combinational loop or a hang spins the CPU,
    # while a run that is merely slow because the machine is loaded must never be reported as a violation
    old = signal.signal(signal.SIGPROF, _alarm)
    signal.setitimer(signal.ITIMER_PROF, timeout)
    try:
        res = mod.run(scn)
    except RunTimeout:
        res = {"violations": [{"prop": mod.PROPERTY, "cls": "no_settle", "observable": scn.get("family", "?"),
                               "msg": "run exceeded %ds of CPU time (combinational loop or hang)" % timeout,
                               "cycle": None}],
               "digest": "timeout", "stats": {}}
    except Exception as e:  # noqa
        kind = classify_exception(e)
        txt = "".join(traceback.format_exception(type(e), e, e.__traceback__))[-3000:]
        if kind == "repo":
            last = traceback.extract_tb(e.__traceback__)[-1]
            res = {"violations": [{"prop": mod.PROPERTY, "cls": "crash",
                                   "observable": "%s:%s" % (type(e).__name__, os.path.basename(last.filename)),
                                   "msg": txt[-1500:], "cycle": None}],
                   "digest": "crash", "stats": {}}
        else:
            res = {"violations": [], "digest": "harness-error", "stats": {}, "harness_error": txt}
    finally:
        signal.setitimer(signal.ITIMER_PROF, 0)
        signal.signal(signal.SIGPROF, old)
    res.setdefault("violations", [])
    res.setdefault("stats", {})
    return res


def _own(mod, res):
    also = getattr(mod, "ALSO", ())
    return [v for v in res["violations"] if v.get("prop", mod.PROPERTY) == mod.PROPERTY or v.get("prop") in also]


def forked(fn, *args):
    """Run fn(*args) in a forked child and return its (pickled) result. Every chunk of runs, every canonical / directed scenario and
    every candidate of the minimiser starts from the state of a process that has imported the code under test but has never built or
    run anything: module-level state that the code under test keeps between builds (caches, class attributes, mutated defaults) can
    then only come from the runs of the same chunk, which makes the history of a run a function of the seed (and replayable)."""
    import pickle
    rd, wr = os.pipe()
    sys.stdout.flush()
    sys.stderr.flush()
    pid = os.fork()
    if pid == 0:
        code = 0
        try:
            os.close(rd)
            try:
                data = pickle.dumps(("ok", fn(*args)))
            except BaseException as e:  # noqa
                data = pickle.dumps(("exc", "".join(traceback.format_exception(type(e), e, e.__traceback__))[-3000:]))
            with os.fdopen(wr, "wb") as f:
                f.write(data)
        except BaseException:  # noqa
            code = 1
        finally:
            os._exit(code)
    os.close(wr)
    with os.fdopen(rd, "rb") as f:
        data = f.read()
    os.waitpid(pid, 0)
    if not data:
        raise RuntimeError("forked run died without a result (pid %d)" % pid)
    kind, val = pickle.loads(data)
    if kind == "exc":
        raise RuntimeError("forked run raised: " + val)
    return val


def _work(args):
    return forked(_work_inner, args)


def gen_scenario(mod, prop, family, i, seed, tier):
    rng = prng.stream(seed, prop, family, i)
    if hasattr(mod, "generate_indexed"):
        scn = mod.generate_indexed(family, i, rng, tier)
    else:
        scn = mod.generate(family, rng, tier)
    scn.setdefault("family", family)
    return scn


def run_history(mod, history, scn):
    """The runs of `history` (results ignored) and then `scn`, in this process: replay of a violation that needs state left behind
    by earlier builds in the same process."""
    for h in history:
        run_one(mod, h)
    return run_one(mod, scn)


def _work_inner(args):
    prop, family, start, count, seed, tier = args
    mod = load(prop)
    out = []
    faulthandler.dump_traceback_later(1800, exit=True)
    for i in range(start, start + count):
        rng = prng.stream(seed, prop, family, i)
        t0 = time.time()
        try:
            if hasattr(mod, "generate_indexed"):
                scn = mod.generate_indexed(family, i, rng, tier)
            else:
                scn = mod.generate(family, rng, tier)
        except Exception as e:  # noqa
            out.append({"family": family, "index": i, "harness_error":
                        "generate: " + "".join(traceback.format_exception(type(e), e, e.__traceback__))[-2000:],
                        "violations": [], "stats": {}, "digest": "gen-error"})
            continue
        scn.setdefault("family", family)
        res = run_one(mod, scn)
        viol = _own(mod, res)
        r = {"family": family, "index": i, "digest": res.get("digest"), "stats": res.get("stats", {}),
             "violations": viol, "wall": time.time() - t0, "chunk_start": start}
        if "harness_error" in res:
            r["harness_error"] = res["harness_error"]
        if viol or "harness_error" in res or i == start:
            r["scenario"] = scn
        out.append(r)
    faulthandler.cancel_dump_traceback_later()
    return out


def vkey(v):
    return (v.get("prop"), v["cls"], v["observable"])


def load_findings(prop):
    p = os.path.join(VERIF, "findings", "known_findings.json")
    if not os.path.exists(p):
        return []
    with open(p) as f:
        data = json.load(f)
    return [e for e in data.get("findings", []) if e["property"] == prop]


def trim(obj, maxlen=160):
    """Shorten long literal strings/lists for the evidence samples."""
    if isinstance(obj, str):
        return obj if len(obj) <= maxlen else obj[:maxlen] + "...(%d symbols)" % len(obj)
    if isinstance(obj, list):
        if len(obj) > 12:
            return [trim(x, maxlen) for x in obj[:12]] + ["...(%d items)" % len(obj)]
        return [trim(x, maxlen) for x in obj]
    if isinstance(obj, dict):
        return {k: trim(v, maxlen) for k, v in obj.items()}
    return obj


def replay_fresh(prop, path):
    """Replay a file in a fresh interpreter; returns (exit code, stdout)."""
    env = dict(os.environ)
    env["PYTHONHASHSEED"] = "0"
    env["PYTHONPATH"] = VERIF
    p = subprocess.run([sys.executable, "-m", "dsim.check", prop, "quick", "--replay", path],
                       env=env, cwd=VERIF, capture_output=True, text=True, timeout=900)
    return p.returncode, p.stdout + p.stderr


def do_replay(prop, path):
    mod = load(prop)
    with open(path) as f:
        rp = json.load(f)
    if rp.get("history"):
        print("replay: %d earlier runs of the same process first (the violation needs the state they leave behind)" % len(rp["history"]))
    res = run_history(mod, rp.get("history") or [], rp["scenario"])
    if "harness_error" in res:
        print("HARNESS-ERROR", res["harness_error"])
        return 2
    viol = _own(mod, res)
    want = rp.get("violation")
    print("replay digest=%s recorded=%s" % (res.get("digest"), rp.get("digest")))
    for v in viol:
        print("  violation: %s %s: %s" % (v["cls"], v["observable"], v["msg"][:300]))
    if viol and (want is None or any(v["cls"] == want["cls"] for v in viol)):
        print("VIOLATION property=%s replay=%s" % (prop, path))
        return 1
    if viol:
        print("VIOLATION property=%s replay=%s (different class than recorded)" % (prop, path))
        return 1
    print("replay: no violation")
    return 0


def check(prop, tier, seed=0, workers=None, scale=1.0):
    t_start = time.time()
    mod = load(prop)
    workers = workers or min(16, os.cpu_count() or 4)
    findings = load_findings(prop)
    known_active = {e["id"]: e for e in findings if e.get("status") == "known"}
    lines = []
    harness_errors = []
    violations = []          # (scenario, violation, origin)
    known_confirmed = []
    all_results = []

    # 1. canonical scenarios of listed findings
    for e in findings:
        cpath = os.path.join(VERIF, e["canonical"])
        with open(cpath) as f:
            rp = json.load(f)
        res = forked(run_history, mod, rp.get("history") or [], rp["scenario"])
        if "harness_error" in res:
            harness_errors.append("canonical %s: %s" % (e["id"], res["harness_error"]))
            continue
        viol = _own(mod, res)
        if e.get("status") == "known":
            if viol:
                known_confirmed.append(e["id"])
                print("KNOWN-FINDING: property=%s %s: %s" % (prop, e["id"], e["what"]))
            else:
                print("note: listed finding %s no longer reproduces on this tree" % e["id"])
        else:  # fixed: plain regression scenario
            for v in viol:
                violations.append((rp["scenario"], v, "regression:" + e["id"]))
        all_results.append({"family": "finding:" + e["id"], "digest": res.get("digest"),
                            "stats": res.get("stats", {}), "violations": [], "index": -1})

    # 2. directed scenarios
    directed = mod.directed(tier) if hasattr(mod, "directed") else []
    # 3. seeded families
    plan = mod.plan(tier)
    # sizing of the seeded (sampled) families per tier; enumerated families keep the size of their enumeration
    ss = getattr(mod, "SEEDED_SCALE", {}).get(tier, 1)
    enum = getattr(mod, "ENUMERATED", ())
    plan = [(f, n if f in enum else int(round(n * ss))) for f, n in plan]
    tasks = []
    for family, n in plan:
        n = max(1, int(round(n * scale)))
        # one forked (hermetic) process per chunk: a fork costs tens of milliseconds when sixteen processes fork at once, so cheap runs
        # are grouped into at most ~6 chunks per worker; expensive ones keep the module's own chunk size
        chunk = max(1, min(max(getattr(mod, "CHUNK", 8), -(-n // (workers * 6))), (n + workers - 1) // workers))
        for s in range(0, n, chunk):
            tasks.append((prop, family, s, min(chunk, n - s), seed, tier))
    ctx = multiprocessing.get_context("fork")
    with cf.ProcessPoolExecutor(max_workers=workers, mp_context=ctx) as ex:
        futs = [ex.submit(_work, t) for t in tasks]
        dfuts = [ex.submit(forked, _run_directed, prop, i, scn) for i, scn in enumerate(directed)]
        for fu in dfuts + futs:
            try:
                rs = fu.result(timeout=getattr(mod, "BATCH_TIMEOUT", 3600))
            except Exception as e:  # noqa
                harness_errors.append("worker failed: %r" % (e,))
                continue
            for r in rs:
                all_results.append(r)
                if "harness_error" in r:
                    harness_errors.append("%s#%s: %s" % (r["family"], r["index"], r["harness_error"]))
                for v in r["violations"]:
                    violations.append((r["scenario"], v, "%s#%s" % (r["family"], r["index"])))

    # 4. group, minimise, replay in a fresh process, match against known findings
    reported = 0
    seen = set()
    os.makedirs(os.path.join(VERIF, "replays", prop), exist_ok=True)
    by_origin = {"%s#%s" % (r["family"], r["index"]): r for r in all_results if "chunk_start" in r}

    def reproduces(hist, c, v):
        r = forked(run_history, mod, hist, c)
        return any(vkey(x) == vkey(v) for x in _own(mod, r))
    for scn, v, origin in violations:
        k = (scn.get("family"),) + vkey(v)
        if k in seen:
            continue
        seen.add(k)
        if len(seen) > 6:
            break
        history = []
        if not reproduces([], scn, v) and origin in by_origin:
            # not reproducible on its own: the violation needs state that earlier runs of the same chunk left behind in the code under
            # test. The history is regenerated from the seed, confirmed, and minimised by dropping runs.
            r0 = by_origin[origin]
            history = [gen_scenario(mod, prop, r0["family"], j, seed, tier) for j in range(r0["chunk_start"], r0["index"])]
            if history and reproduces(history, scn, v):
                t_h = time.time()
                step = max(1, len(history) // 2)
                while step >= 1 and time.time() - t_h < 120:
                    j = 0
                    while j < len(history) and time.time() - t_h < 120:
                        cand = history[:j] + history[j + step:]
                        if reproduces(cand, scn, v):
                            history = cand
                        else:
                            j += step
                    step //= 2
            else:
                history = []
        if history:
            small, used = scn, 0
            res = forked(run_history, mod, history, small)
        else:
            def same(c, v=v):
                return reproduces([], c, v)
            small, used = shrinker.shrink(scn, same, getattr(mod, "shrink_candidates", None),
                                          max_runs=getattr(mod, "SHRINK_RUNS", 200),
                                          max_wall=getattr(mod, "SHRINK_WALL", 120.0))
            res = forked(run_one, mod, small)
        vv = [x for x in _own(mod, res) if vkey(x) == vkey(v)]
        if not vv:
            small, res = scn, forked(run_history, mod, history, scn)
            vv = [x for x in _own(mod, res) if vkey(x) == vkey(v)] or [v]
        v2 = vv[0]
        kid = mod.known_match(small, v2) if hasattr(mod, "known_match") else None
        if kid is not None and kid in known_active:
            if kid not in known_confirmed:
                known_confirmed.append(kid)
                print("KNOWN-FINDING: property=%s %s: %s" % (prop, kid, known_active[kid]["what"]))
            continue
        h = hashlib.sha256(json.dumps([history, small], sort_keys=True).encode()).hexdigest()[:12]
        path = os.path.join(VERIF, "replays", prop, "%s.json" % h)
        rp = {"property": prop, "seed": seed, "origin": origin, "shrink_runs": used,
              "violation": v2, "digest": res.get("digest"), "scenario": small}
        if history:
            rp["history"] = history
        with open(path, "w") as f:
            json.dump(rp, f, indent=1)
        code, out = replay_fresh(prop, path)
        tag = "" if code == 1 else " (WARNING: fresh-process replay exit=%d)" % code
        if history:
            tag += " (needs %d earlier run(s) in the same process: history in the replay file)" % len(history)
        print("  %s %s: %s%s" % (v2["cls"], v2["observable"], v2["msg"][:400], tag))
        print("VIOLATION property=%s replay=%s" % (prop, path))
        reported += 1

    # 5. evidence
    wall = time.time() - t_start
    write_evidence(mod, prop, tier, seed, all_results, reported, known_confirmed, harness_errors, wall, plan)
    for he in harness_errors[:5]:
        print("HARNESS-ERROR %s" % he[-1500:])
    n_runs = len(all_results)
    print("%s %s: %d runs, %d violations reported, %d known findings confirmed, %d harness errors, %.1fs"
          % (prop, tier, n_runs, reported, len(known_confirmed), len(harness_errors), wall))
    if reported:
        return 1
    if harness_errors:
        return 2
    return 0


def _run_directed(prop, i, scn):
    mod = load(prop)
    t0 = time.time()
    res = run_one(mod, scn)
    r = {"family": "directed:" + scn.get("family", "?"), "index": i, "digest": res.get("digest"),
         "stats": res.get("stats", {}), "violations": _own(mod, res), "wall": time.time() - t0,
         "scenario": scn}
    if "harness_error" in res:
        r["harness_error"] = res["harness_error"]
    return [r]


def write_evidence(mod, prop, tier, seed, results, reported, known_confirmed, harness_errors, wall, plan):
    evals = len(results)
    nontrivial = {r["digest"] for r in results if r.get("stats", {}).get("nontrivial") and r.get("digest")}
    faults, probes, checks = {}, {}, 0
    cycles = 0
    fingerprints = set()
    per_family = {}
    grams = set()
    for r in results:
        st = r.get("stats", {})
        for k, n in st.get("faults", {}).items():
            faults[k] = faults.get(k, 0) + n
        for k, n in st.get("probes", {}).items():
            probes[k] = probes.get(k, 0) + n
        checks += st.get("checks", 0)
        cycles += st.get("cycles", 0)
        for fp in st.get("fingerprints", ()):
            fingerprints.add(fp)
        for g in st.get("grams", ()):
            grams.add(g)
        fam = r.get("family", "?")
        pf = per_family.setdefault(fam, {"runs": 0, "checks": 0, "cycles": 0})
        pf["runs"] += 1
        pf["checks"] += st.get("checks", 0)
        pf["cycles"] += st.get("cycles", 0)
    samples = []
    with_scn = [r for r in results if "scenario" in r]
    with_scn.sort(key=lambda r: len(json.dumps(r["scenario"])))
    if with_scn:
        picks = [with_scn[0], with_scn[len(with_scn) // 2]]
        faulty = [r for r in with_scn if r.get("stats", {}).get("faults")]
        if faulty:
            picks.append(faulty[len(faulty) // 2])
        for r in picks:
            samples.append({"family": r["family"], "index": r["index"], "digest": r.get("digest"),
                            "scenario": trim(r["scenario"])})
    level = getattr(mod, "LEVEL", "exploration")
    cov = {
        "evaluations": evals,
        "distinct_nontrivial": len(nontrivial),
        "rule": mod.RULE,
        "samples": samples or [{"note": "no scenario recorded"}],
        "oracle_comparisons": checks,
        "simulated_cycles": cycles,
        "runs_per_hour": int(evals / wall * 3600) if wall > 0 else 0,
        "simulated_cycles_per_hour": int(cycles / wall * 3600) if wall > 0 else 0,
        "fault_kinds_fired": faults,
        "probes": probes,
        "distinct_control_states": len(fingerprints),
        "distinct_schedule_4grams": len(grams),
        "per_family": per_family,
        "plan": [[f, n] for f, n in plan],
        "components": getattr(mod, "COMPONENTS", {}),
        "known_findings_confirmed": known_confirmed,
        "harness_errors": len(harness_errors),
        "engine": "litex.gen.sim.Simulator (real evaluator)",
        "process_model": "every chunk of consecutive runs of a family executes in a process forked from one that has imported the code under test "
                         "and never built or run anything; a violation that needs state left by earlier runs of its chunk is replayed with that "
                         "history (stored in the replay file)",
        "hermetic_chunks": len({(r.get("family"), r.get("chunk_start")) for r in results if "chunk_start" in r}),
        "simulated_time_cycles": cycles,
    }
    if hasattr(mod, "extra_coverage"):
        cov.update(mod.extra_coverage(results))
    if level == "translation_validation":
        cov["programs"] = evals
        cov["disagreements_checked"] = sum(r.get("stats", {}).get("disagreements_checked", 0) for r in results)
    ev = {
        "property_id": prop, "tier": tier, "seed": seed, "level": level,
        "coverage": cov, "assumptions": list(getattr(mod, "ASSUMPTIONS", [])),
        "wall_s": round(wall, 2), "violations": reported,
    }
    evdir = os.environ.get("VERIF_EVIDENCE_DIR") or os.path.join(VERIF, "evidence")
    os.makedirs(evdir, exist_ok=True)
    with open(os.path.join(evdir, "%s.json" % prop), "w") as f:
        json.dump(ev, f, indent=1, sort_keys=True)
