"""Generic, deterministic, bounded minimiser over plain-data scenarios.

A candidate is accepted only if the same violation class on the same observable persists.
Standard keys understood (all optional): lists under "tokens"/"ops"/"packets"/"faults"/"events"
(possibly one list per party), literal pattern strings under keys ending in "pattern"/"patterns",
"garbage". Property modules may add their own candidates through shrink_candidates(scn)."""
import copy
import time

LIST_KEYS = ("faults", "ops", "tokens", "packets", "events", "ctl", "meta", "reqs", "bursts", "symbols",
             "writes", "cmds", "frames", "histories", "steps")


def _lists(scn):
    """Yield (path, list) for shrinkable lists (a key may hold one list per party)."""
    for k in LIST_KEYS:
        if k in scn and isinstance(scn[k], list):
            v = scn[k]
            if v and all(isinstance(e, list) for e in v) and k in ("tokens", "ops", "packets", "reqs", "cmds"):
                # could be list per party or a flat list of list-items; a party list has list elems
                if all((not e) or isinstance(e[0], (dict, list)) for e in v):
                    for i in range(len(v)):
                        yield (k, i), v[i]
                    continue
            yield (k,), v


def _get(scn, path):
    x = scn
    for p in path:
        x = x[p]
    return x


def _set(scn, path, val):
    x = scn
    for p in path[:-1]:
        x = x[p]
    x[path[-1]] = val


def _pattern_paths(scn):
    for k, v in scn.items():
        if k.endswith("pattern") and isinstance(v, str):
            yield (k,)
        elif k.endswith("patterns") or k.endswith("pattern"):
            if isinstance(v, list):
                for i, e in enumerate(v):
                    if isinstance(e, str):
                        yield (k, i)
            elif isinstance(v, dict):
                for kk, e in v.items():
                    if isinstance(e, str):
                        yield (k, kk)


def shrink(scn, same_failure, extra_candidates=None, max_runs=250, max_wall=90.0):
    """same_failure(candidate) -> bool. Returns (minimised scenario, runs used)."""
    t0 = time.time()
    runs = [0]
    best = copy.deepcopy(scn)

    def attempt(cand):
        if runs[0] >= max_runs or time.time() - t0 > max_wall:
            return False
        runs[0] += 1
        try:
            return same_failure(cand)
        except Exception:
            return False

    progress = True
    rounds = 0
    while progress and rounds < 4:
        progress = False
        rounds += 1
        # 1. property-specific candidates
        if extra_candidates is not None:
            changed = True
            guard = 0
            while changed and guard < 40:
                changed = False
                guard += 1
                for cand in extra_candidates(best):
                    if attempt(cand):
                        best = cand
                        progress = changed = True
                        break
        # 2. drop garbage
        if best.get("garbage"):
            cand = copy.deepcopy(best)
            cand["garbage"] = None
            if attempt(cand):
                best = cand
                progress = True
        # 3. lists: ddmin style
        for path, lst in list(_lists(best)):
            n = len(_get(best, path))
            chunk = max(n // 2, 1)
            while chunk >= 1 and n > 0:
                i = 0
                removed = False
                while i < len(_get(best, path)):
                    cur = _get(best, path)
                    cand = copy.deepcopy(best)
                    _set(cand, path, cur[:i] + cur[i + chunk:])
                    if attempt(cand):
                        best = cand
                        progress = removed = True
                    else:
                        i += chunk
                if chunk == 1:
                    break
                chunk = max(chunk // 2, 1)
        # 4. patterns: all-go, then remove stalls from the end
        for path in list(_pattern_paths(best)):
            p = _get(best, path)
            if "0" not in p:
                continue
            cand = copy.deepcopy(best)
            _set(cand, path, "1" * len(p))
            if attempt(cand):
                best = cand
                progress = True
                continue
            # halves
            for lo, hi in ((len(p) // 2, len(p)), (0, len(p) // 2)):
                cur = _get(best, path)
                q = cur[:lo] + "1" * (hi - lo) + cur[hi:]
                if q != cur:
                    cand = copy.deepcopy(best)
                    _set(cand, path, q)
                    if attempt(cand):
                        best = cand
                        progress = True
            # individual stalls, from the end, bounded
            cur = _get(best, path)
            zeros = [i for i, c in enumerate(cur) if c == "0"]
            for i in reversed(zeros[-24:]):
                cur = _get(best, path)
                q = cur[:i] + "1" + cur[i + 1:]
                cand = copy.deepcopy(best)
                _set(cand, path, q)
                if attempt(cand):
                    best = cand
                    progress = True
    return best, runs[0]
