"""Wishbone parties: classic-cycle master (optionally registered-feedback bursts), memory slave with
literal per-transaction latencies / error answers / silence, and a per-cycle port recorder."""
from dsim.kernel import Agent

CTI_CLASSIC, CTI_CONST, CTI_INCR, CTI_END = 0, 1, 2, 7


class WBMaster(Agent):
    """ops: list of dicts {we, adr, dat, sel, gap, keep_cyc, abort_after, cti, bte}. Signals are held
    until ack/err (legal master). results[i] = {issue, done, dat_r, err, aborted}."""

    def __init__(self, bus, ops, name="m0", tag=None, idle_garbage=None):
        self.bus, self.ops, self.name = bus, ops, name
        self.reads = (bus.ack, bus.err, bus.dat_r)
        self.idx = 0
        self.state = "idle"
        self.gap = ops[0].get("gap", 0) if ops else 0
        self.results = []
        self.waited = 0
        self.issue_cycle = None
        self.wait_cycles = 0
        self.spurious = 0
        self.has_cti = hasattr(bus, "cti")
        self.hold = False
        self.burst_wait = False

    def done(self):
        return self.idx >= len(self.ops)

    def _drive(self, w, op):
        b = self.bus
        w(b.cyc, 1)
        w(b.stb, 1)
        w(b.we, op["we"])
        w(b.adr, op["adr"])
        w(b.dat_w, op.get("dat", 0))
        w(b.sel, op.get("sel", (1 << len(b.sel)) - 1))
        if self.has_cti:
            w(b.cti, op.get("cti", 0))
            w(b.bte, op.get("bte", 0))

    def step(self, v, t, w):
        b = self.bus
        if self.state == "busy":
            op = self.ops[self.idx]
            if v[b.ack] or v[b.err]:
                self.results.append({"op": self.idx, "issue": self.issue_cycle, "done": t, "dat_r": v[b.dat_r],
                                     "err": v[b.err], "ack": v[b.ack], "aborted": False})
                self.bench.event(self.name, "done", t, self.idx, v[b.dat_r] if not op["we"] else None, v[b.err])
                self.idx += 1
                self._next(w, t)
            else:
                self.waited += 1
                self.wait_cycles += 1
                ab = op.get("abort_after")
                if ab is not None and self.waited >= ab:
                    self.results.append({"op": self.idx, "issue": self.issue_cycle, "done": t, "dat_r": None, "err": 0,
                                         "ack": 0, "aborted": True})
                    self.bench.event(self.name, "abort", t, self.idx)
                    self.idx += 1
                    w(b.stb, 0)
                    w(b.cyc, 0)
                    self.state = "idle"
                    self.gap = max(1, self.ops[self.idx].get("gap", 0)) if self.idx < len(self.ops) else 0
            return
        # idle
        if (v[b.ack] or v[b.err]) and not self.burst_wait:
            # (inside a registered-feedback burst the slave's acknowledge is a registered answer to the previous cycle's strobe: while the
            # master inserts a wait state - stb low, cyc and cti held - a high ack is not a termination and is ignored, as the master does)
            self.spurious += 1
            self.bench.violate("spurious_termination", self.name, "ack/err high at cycle %d while the master is not requesting" % t)
        if self.idx >= len(self.ops) or self.hold:
            return
        if self.gap > 0:
            self.gap -= 1
            return
        self._issue(w, t)

    def _issue(self, w, t):
        self.burst_wait = False
        self._drive(w, self.ops[self.idx])
        self.state = "busy"
        self.waited = 0
        self.issue_cycle = t + 1

    def _next(self, w, t):
        b = self.bus
        if self.idx >= len(self.ops):
            w(b.stb, 0)
            w(b.cyc, 0)
            self.state = "idle"
            return
        op = self.ops[self.idx]
        g = op.get("gap", 0)
        if g == 0 and not self.hold:
            self._issue(w, t)
        else:
            w(b.stb, 0)
            w(b.cyc, 1 if op.get("keep_cyc") else 0)
            self.state = "idle"
            self.gap = g - 1
            self.burst_wait = bool(op.get("keep_cyc")) and self.idx > 0 and self.ops[self.idx - 1].get("cti", 0) in (1, 2)


class WBSlave(Agent):
    """Memory slave. lat: literal list of latencies (>=1) consumed one per transaction; errs: set of
    transaction numbers answered with err; silent_from: transaction number from which the slave never
    answers (fault); init(adr) gives the initial content. log: completed transfers."""

    def __init__(self, bus, lat, name="s0", init=None, errs=(), silent_from=None, silent_cycle=None, idle_garbage=None,
                 back_at=None):
        self.bus, self.lat, self.name = bus, lat or [1], name
        self.reads = (bus.cyc, bus.stb, bus.we, bus.adr, bus.dat_w, bus.sel)
        self.mem = {}
        self.init = init or (lambda a: 0)
        self.errs = set(errs)
        self.silent_from = silent_from
        self.silent_cycle = silent_cycle
        self.back_at = back_at
        self.n = 0
        self.state = "idle"
        self.remaining = 0
        self.log = []
        self.cur_err = False
        self.idle_garbage = idle_garbage
        self.gpos = 0
        self.mask = (1 << len(bus.dat_w)) - 1
        self.nsel = len(bus.sel)
        self.silenced = 0
        self.returned = False
        self.err_adr = None       # set of addresses that always answer err
        self.key_shift = 0        # byte-addressed Wishbone: memory words are keyed by adr >> 2

    def read_word(self, adr):
        adr = (adr >> self.key_shift) << self.key_shift
        return self.mem.get(adr, self.init(adr) & self.mask)

    def _silent(self, t):
        if self.back_at is not None and t >= self.back_at:
            if not self.returned:
                return True      # back, but waits for a cycle without request before serving again (see step)
            return False
        if self.silent_from is not None and self.n >= self.silent_from:
            return True
        if self.silent_cycle is not None and t >= self.silent_cycle:
            return True
        return False

    def _respond(self, v, w):
        b = self.bus
        self.cur_err = self.n in self.errs or (self.err_adr is not None and v[b.adr] in self.err_adr)
        if self.cur_err:
            w(b.err, 1)
        else:
            w(b.ack, 1)
        if not v[b.we]:
            w(b.dat_r, self.read_word(v[b.adr]))
        self.state = "resp"

    def step(self, v, t, w):
        b = self.bus
        req = v[b.cyc] and v[b.stb]
        if self.back_at is not None and t >= self.back_at and not self.returned and not req:
            # a returning slave only serves requests that start after its return (a request that was already
            # pending may be terminated by the timeout at any moment)
            self.returned = True
            self.state = "idle"
        if self.state == "resp":
            # ack/err was high during the cycle that ends now
            if req:
                adr = v[b.adr]
                if not self.cur_err:
                    if v[b.we]:
                        old = self.read_word(adr)
                        new = old
                        for i in range(self.nsel):
                            if (v[b.sel] >> i) & 1:
                                new = (new & ~(0xff << (8 * i))) | (v[b.dat_w] & (0xff << (8 * i)))
                        self.mem[(adr >> self.key_shift) << self.key_shift] = new
                self.log.append({"t": t, "we": v[b.we], "adr": adr, "dat_w": v[b.dat_w], "sel": v[b.sel], "err": self.cur_err})
                self.bench.event(self.name, "xfer", t, v[b.we], adr, v[b.dat_w] if v[b.we] else None, v[b.sel])
                self.n += 1
            w(b.ack, 0)
            w(b.err, 0)
            if self.idle_garbage:
                w(b.dat_r, self.idle_garbage[self.gpos % len(self.idle_garbage)] & self.mask)
                self.gpos += 1
            self.state = "idle"
            return
        if self.state == "idle":
            if req:
                if self._silent(t):
                    self.silenced += 1
                    return
                self.remaining = self.lat[self.n % len(self.lat)] - 1
                if self.remaining <= 0:
                    self._respond(v, w)
                else:
                    self.state = "wait"
            return
        if self.state == "wait":
            if not req:
                self.state = "idle"     # request withdrawn
                return
            if self._silent(t):
                self.silenced += 1
                return
            self.remaining -= 1
            if self.remaining <= 0:
                self._respond(v, w)


class CombSlave(Agent):
    """A zero-wait-state classic Wishbone memory built from real logic (a Memory with an asynchronous read port; ack = cyc & stb & allow,
    combinationally, in the very cycle the request is presented), which a registered agent cannot be. `allow` is a register this
    agent drives from a literal pattern, so that zero-wait and delayed answers mix. The agent mirrors the memory from the transfers
    it sees (read_word / log, as WBSlave)."""

    def __init__(self, top, bus, bits, init_word, pattern, shift=0, name="s"):
        """bits: number of address bits (above `shift`) that index the memory; init_word(bus address) gives the initial content."""
        from migen import Module, Memory, Signal, Replicate
        self.bus, self.bits, self.init_word, self.pattern, self.shift = bus, bits, init_word, pattern, shift
        nsel = len(bus.sel)
        m = Module()
        mem = Memory(len(bus.dat_w), 1 << bits, init=[init_word(a << shift) for a in range(1 << bits)], name="combmem")
        rp = mem.get_port(async_read=True)
        wp = mem.get_port(write_capable=True, we_granularity=8)
        m.specials += mem, rp, wp
        self.allow = Signal(reset=1)
        m.comb += [rp.adr.eq(bus.adr[shift:shift + bits]), bus.dat_r.eq(rp.dat_r), bus.ack.eq(bus.cyc & bus.stb & self.allow),
                   wp.adr.eq(bus.adr[shift:shift + bits]), wp.dat_w.eq(bus.dat_w), wp.we.eq(Replicate(bus.ack & bus.we, nsel) & bus.sel)]
        top.submodules += m
        self.reads = (bus.cyc, bus.stb, bus.we, bus.adr, bus.dat_w, bus.sel, bus.ack)
        self.mem, self.log = {}, []
        self.name = name
        self.n = 0
        self.err_adr = None

    def read_word(self, adr):
        adr = (adr >> self.shift) << self.shift
        return self.mem.get(adr, self.init_word(adr))

    def step(self, v, t, w):
        b = self.bus
        if v[b.cyc] and v[b.stb] and v[b.ack]:
            adr = v[b.adr]
            assert (adr >> self.shift) < (1 << self.bits), "CombSlave: address %#x beyond the %d words of the memory (harness sizing)" % (adr, 1 << self.bits)
            if v[b.we]:
                new = self.read_word(adr)
                for i in range(len(b.sel)):
                    if (v[b.sel] >> i) & 1:
                        new = (new & ~(0xff << (8 * i))) | (v[b.dat_w] & (0xff << (8 * i)))
                self.mem[(adr >> self.shift) << self.shift] = new
            self.n += 1
            self.log.append({"t": t, "we": v[b.we], "adr": adr, "dat_w": v[b.dat_w], "sel": v[b.sel], "err": False})
            self.bench.event(self.name, "xfer", t, v[b.we], adr, v[b.dat_w] if v[b.we] else None, v[b.sel])
        pat = self.pattern
        w(self.allow, 1 if t + 1 >= len(pat) else int(pat[t + 1] == "1"))



class PortRecorder(Agent):
    """Samples a list of signals every cycle and hands the row to `check(t, row)` (online invariants)."""

    def __init__(self, signals, check=None, keep=False):
        self.reads = tuple(signals)
        self.check = check
        self.keep = keep
        self.rows = []

    def step(self, v, t, w):
        row = [v[s] for s in self.reads]
        if self.keep:
            self.rows.append(row)
        if self.check:
            self.check(t, row)
